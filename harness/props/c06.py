"""C06 — returned matchings certify the reported bottleneck / Wasserstein distance.

Theorems: lean/PersimVerif/Props/C06.lean (checker `checkRows` of lean/PersimVerif/Model/Rows.lean is sound
against the partial-matching specification; the model of the two extraction loops is accepted by it).
Tie: the rows RETURNED BY THE REAL CODE are never compared with a model's rows (any optimal matching is
acceptable); they are *checked*, per call, by the Lean-proved checker (driver ops `cert.rows.bn`,
`cert.rows.bn.f`, `cert.rows.ws`).  The small model of the extraction loops is tied separately: the
assignment the external solver selected inside the real call is captured and `rows.bn` / `rows.ws` must
reproduce the code's rows from it.
[T]: an independent Python re-implementation of the statement's clauses on the returned rows, the exhaustive
optimum for M+N <= 8, distance with/without `matching=True`, hash seeds in fresh interpreters.
Left free by the statement, hence correspondence-only (reported at most twice per run, the search goes on): the
Python type of the plain distance, the last bit of the Wasserstein sum, kept (-1,-1,0) rows.  A raise in a fresh
interpreter under some hash seed is bisected to the call(s) that raise; the record holds them and `replay` re-runs them.
"""
import itertools, json, math, os, subprocess, sys, types, warnings
from fractions import Fraction
import numpy as np
from .. import common
from ..common import enc, ask
from ..translator import py2lean

LEVEL = "proof"
RULE = ("pairs of finite diagrams from one PRNG: sizes 0,1,2,.. (0-8 quick, up to 40 thorough), coordinates from "
        "lattice/half/dyadic (float arithmetic exact) and decimal/uniform modes, pair scales 2^-20,1,2^20, 10, 100 and the "
        "non-dyadic 0.1, 1/3; two modes well above unit scale (integer grey levels 0..255, exact; one-decimal values in 0..255; short "
        "bars next to long ones); duplicates inside a diagram, points shared between the two diagrams, diagonal points, "
        "empty sides; each pair handed over in one representation that holds its numbers unchanged (float64 array, list, tuple; float32, "
        "int64/int32/int16/int8/uint8 arrays, Python-int lists where the coordinates allow); both functions with and without matching=True; non-trivial = both sides non-empty and at "
        "least 3 points in total; distinct by digest of (fn, diagrams)")
ASSUMPTIONS = [
    "diagrams are finite with birth <= death (non-finite deaths are filtered before the anchored code: C01/C02 `inf_dropped`)",
    "bottleneck: on lattice/half/dyadic inputs numpy's |a-b|, maximum and 0.5*(d-b) are exact, so third entries are compared "
    "with == at Rat there and within 1e-9*scale elsewhere (scale = largest |coordinate|, not floored at 1); the aggregate max(rows) == distance is exact on every input",
    "wasserstein: third entries within 1e-9 OF THE COST sqrt(dx^2+dy^2) resp. (d-b)/sqrt2 in the harness' own clause check (np.sqrt of the summed squared coordinate "
    "differences since /repo fix 6c9bac1, (d-b)/np.sqrt(2) from the coordinate difference since the fix of the diagonal cost — until then the rotation by "
    "cos/sin(pi/4) needed 1e-9*scale; a diagonal point's row must carry exactly 0), within 1e-9*scale in the Lean checker's maximum deviation; |sum(rows) - distance| <= 1e-9*scale*(rows+1); scale = largest "
    "|coordinate|, not floored at 1",
    "both functions convert their inputs with dtype=float (/repo fixes 82ac8af, dcbfa71): arguments are handed over as float64/float32/"
    "integer arrays (int64..uint8 where the coordinates allow), lists, tuples and Python-int lists; checker and models are dtype-free",
    "that the reported distance is the specification value (minimum over all partial matchings) is C01/C02; here it is "
    "re-confirmed exhaustively for M+N <= 8 only",
    "'the distance returned is the same as without it': the same NUMBER (float() of whatever is returned — the Python type is not "
    "part of the statement); bit-equal for bottleneck (one matrix entry on both paths), within 1e-9*scale*(M+N+1) for Wasserstein "
    "(a sum, whose order the statement does not fix); a last-bit difference is reported as a correspondence break only",
    "the statement constrains the rows of POINTS: a kept diagonal-diagonal row (-1,-1,0) is not a failing input (it is left out of "
    "what the checker sees and reported as a correspondence break); a (-1,-1) row with a non-zero third entry is",
]
TRUSTED = ["C01/C02 for `reported distance = minimum over all partial matchings` (here only re-confirmed exhaustively for M+N <= 8)",
           "the external solvers are NOT trusted by this check: whatever matching they select, the rows built from it are validated per call"]
EXACT_MODES = ("lattice", "half", "dyadic", "grey")
FILES = ["persim/bottleneck.py", "persim/wasserstein.py"]
# the theorems that carry clauses of the property statement.  NOT among them: the two `matching_flag_irrelevant_*`
# theorems (true by `rfl`: they restate how the model's return value is built — the clause "same distance with and
# without the flag" is [T] on the real code plus C01's `matching_flag_value`), the steps of the proofs, the cost-rule
# identifications and the concrete `decide` instances.
CORE_THEOREMS = ["PersimVerif.C06.checkRows_sound_bn",               # accepted rows ARE a partial matching, every point once, max = distance
                 "PersimVerif.C06.checkRows_sound_ws",               # … sum = distance
                 "PersimVerif.C06.bn_rows_certify",                  # the bottleneck extraction loop on ANY perfect matching at the least feasible threshold is accepted
                 "PersimVerif.C06.ws_rows_certify",                  # the Wasserstein extraction loop on ANY finite assignment is accepted, sum = selected entries
                 "PersimVerif.C06.empty_as_origin",                  # an empty side is index 0 of the one-point diagram (0,0)
                 "PersimVerif.C06.bottleneck_matching_certifies",    # at the reals with (L-inf, (d-b)/2): rows certify, and are an optimal matching
                 "PersimVerif.C06.wasserstein_matching_certifies",   # at the reals with (Euclid, (d-b)/sqrt 2)
                 "PersimVerif.C06.modelBnRowsCertify",               # C06Model: the property for the MODEL of persim.bottleneck (composition with C01)
                 "PersimVerif.C06.modelWsRowsCertify",               # C06Model: … for the MODEL of persim.wasserstein (composition with C02)
                 "PersimVerif.C06.model_rows_independent_of_oracle_value",   # certified value independent of the oracle (hash seed)
                 "PersimVerif.C06.model_rows_independent_of_solver_value"]
PROP_FILES = ["PersimVerif/Props/C06.lean"]
PROP_FILES += ["PersimVerif/Props/C06Model.lean"]
# source translator (DESIGN.md 3.2): the two extraction loops (and the statements that feed them: Step 2 of bottleneck, the solver
# call and sum of wasserstein) are re-translated from the source text on every run and proved equal to the models' `extractRows` /
# `rowsOf`, which Props/C06Model.lean is about
SRC_KEYS = ("bottleneck", "bottleneck_search", "wasserstein", "wasserstein_assign")   # (the matrix files: what precedes the loops)
for _k in SRC_KEYS:
    PROP_FILES += [f for f in py2lean.prop_files(_k) if f not in PROP_FILES]
TRUSTED = list(TRUSTED) + [py2lean.trusted_note(_k) for _k in ("bottleneck_search", "wasserstein_assign")]


def pre_build(ctx):
    """source translator: regenerate Generated/SrcBottleneck*.lean, SrcWasserstein*.lean from PERSIM_ROOT's source"""
    py2lean.pre_build(ctx, SRC_KEYS)


# ----------------------------------------------------------------------------- generators

def gen_bar(ctx, mode, allow_diag):
    """ctx.gen.bar plus two modes well above unit scale: 'grey' = integer grey levels 0..255 (float arithmetic exact),
    'dec255' = one-decimal values in 0..255"""
    r = ctx.rng
    if mode not in ("grey", "dec255"):
        return ctx.gen.bar(mode, allow_diag=allow_diag)
    pick = (lambda: float(r.randint(0, 255))) if mode == "grey" else (lambda: round(r.uniform(0, 255), 1))
    b, d = sorted((pick(), pick()))
    if r.random() < 0.5:                       # short bars next to long ones, as in real diagrams
        d = min(255.0, b + (float(r.randint(0, 12)) if mode == "grey" else round(r.uniform(0, 12), 1)))
    if d == b and not allow_diag:
        d = b + 1.0
    return [b, d]


def gen_dgm(ctx, nmax, mode, other=None):
    r = ctx.rng
    n = r.choice([0, 1, 2, 3, r.randint(1, nmax), r.randint(1, nmax), r.randint(1, nmax), nmax]) if nmax > 2 else r.randint(0, nmax)
    pts = []
    for _ in range(n):
        u = r.random()
        if pts and u < 0.15:
            pts.append(list(r.choice(pts)))              # multiplicity
        elif other and u < 0.35:
            pts.append(list(r.choice(other)))            # shared with the other diagram: zero-cost pairs, ties
        else:
            pts.append(gen_bar(ctx, mode, r.random() < 0.2))
    return pts


def gen_pair(ctx, nmax):
    r = ctx.rng
    if r.random() < 0.04:
        # diagonal costs far from the origin (C02's class): exact diagonal points and points of tiny persistence at offsets
        # -5 .. -2^30 .. 2^40 against the empty diagram, themselves, a reordering, other diagonal points — the third entry
        # of a point-to-diagonal row must be (d - b)/sqrt 2 of THAT point (0 for a diagonal point) to 1e-9 of itself
        from . import c02
        pc = c02.gen_diag_pair(ctx, min(nmax, 8))
        ctx.count("pairs:diagonal_cost_at_offset")
        return pc["dgm1"], pc["dgm2"], "offset", False
    mode = r.choice(["lattice", "lattice", "half", "dyadic", "dec", "unif", "grey", "dec255"])
    A_ = gen_dgm(ctx, nmax, mode)
    B_ = gen_dgm(ctx, nmax, mode, other=A_)
    u = r.random()
    if u < 0.08 and len(A_) >= 2:
        # the same multiset of points in another order (the diagonal of a pairwise distance matrix after a shuffle):
        # distance 0, and the returned rows must pair equal POINTS, not equal positions
        B_ = [list(p) for p in A_]
        while B_ == A_ and len({tuple(p) for p in A_}) > 1:
            r.shuffle(B_)
        ctx.count("pairs:reordered_copy")
    elif u < 0.12 and len(A_) >= 2:
        B_ = [list(p) for p in A_]
        r.shuffle(B_)
        B_[r.randrange(len(B_))] = gen_bar(ctx, mode, False)   # a reordered copy with one point replaced
        ctx.count("pairs:reordered_copy_one_replaced")
    if r.random() < 0.5:
        A_, B_ = B_, A_
    lam = r.choice([1.0, 1.0, 1.0, 2.0 ** -20, 2.0 ** 20, 0.1, 1.0 / 3.0, 10.0, 100.0])
    if mode in ("grey", "dec255"):
        lam = 1.0                              # already well above unit scale
    # (10 and 100 times a lattice/half/dyadic coordinate is exactly representable: few mantissa bits)
    exact = mode in EXACT_MODES and lam in (1.0, 2.0 ** -20, 2.0 ** 20, 10.0, 100.0)
    if lam != 1.0:
        A_ = [[p[0] * lam, p[1] * lam] for p in A_]
        B_ = [[p[0] * lam, p[1] * lam] for p in B_]
    return A_, B_, mode, exact


INT_REPS = {"int64": (-2 ** 52, 2 ** 52), "int32": (-2 ** 31, 2 ** 31 - 1), "int16": (-2 ** 15, 2 ** 15 - 1),
            "int8": (-128, 127), "uint8": (0, 255), "pyint": (-2 ** 52, 2 ** 52)}
REPS = ("array", "list", "tuple", "float32") + tuple(INT_REPS)


def rep_ok(d, rep):
    """can `d` be handed over in representation `rep` without changing any number?"""
    if rep in ("array", "list", "tuple"):
        return True
    xs = [x for p in d for x in p]
    if rep == "float32":
        return all(float(np.float32(x)) == x for x in xs)
    lo, hi = INT_REPS[rep]
    return all(x == math.floor(x) and lo <= x <= hi for x in xs)


def arr(d, rep="array"):
    """the argument handed to the real function (the checker and the models never see the representation)"""
    if not rep or not rep_ok(d, rep):
        rep = "array"
    if rep == "list":
        return [[float(x) for x in p] for p in d]
    if rep == "tuple":
        return tuple(tuple(float(x) for x in p) for p in d)
    if rep == "pyint":
        return [[int(x) for x in p] for p in d]
    a = np.array(d, dtype=float).reshape(-1, 2)
    return a if rep == "array" else a.astype(getattr(np, rep))


def pick_rep(ctx, A_, B_):
    """one representation for both arguments (the same dtype on both sides: no promotion to a wider one)"""
    r = ctx.rng
    ok = [rp for rp in REPS if rep_ok(A_, rp) and rep_ok(B_, rp)]
    narrow = [rp for rp in ok if rp not in ("array", "list", "tuple")]
    if narrow and r.random() < 0.5:
        return r.choice(narrow)
    return r.choice(["array", "array", "list", "tuple"])


def scale_of(A_, B_):
    """largest |coordinate|, NOT floored at 1 (a floor makes small-scale inexact cases 1e-4-relative); 1e-300 only keeps
    the all-zero case away from a zero tolerance"""
    return max(1e-300, common.maxabs(A_), common.maxabs(B_))


# ----------------------------------------------------------------------------- the real code

class Capture:
    """wraps the two external solvers inside the persim modules so that the assignment selected in the real
    call is known (used only for the correspondence of the small extraction model)"""

    def __init__(self):
        self.bmod = common.pm("bottleneck")
        self.wmod = common.pm("wasserstein")
        self.hk_results = []
        self.lsa_results = []

    def __enter__(self):
        cap = self
        self._hk = self.bmod.HopcroftKarp
        self._opt = self.wmod.optimize
        real_hk = self._hk

        class HK:
            def __init__(self, graph):
                self._inner = real_hk(graph)

            def maximum_matching(self, *a, **k):
                res = self._inner.maximum_matching(*a, **k)
                cap.hk_results.append(res)
                return res

        def lsa(D, *a, **k):
            mi, mj = cap._opt.linear_sum_assignment(D, *a, **k)
            cap.lsa_results.append((np.array(mi), np.array(mj)))
            return mi, mj

        self.bmod.HopcroftKarp = HK
        self.wmod.optimize = types.SimpleNamespace(linear_sum_assignment=lsa)
        return self

    def __exit__(self, *a):
        self.bmod.HopcroftKarp = self._hk
        self.wmod.optimize = self._opt

    def bn_sigma(self, n):
        """the last feasible Hopcroft–Karp result (that is `matching` in the code) as a list"""
        feas = [res for res in self.hk_results if len(res) == 2 * n]
        self.hk_results = []
        if not feas:
            return None
        try:
            return [int(feas[-1]["%d" % i]) for i in range(n)]
        except (KeyError, TypeError, ValueError):
            return None

    def ws_sigma(self, n):
        res, self.lsa_results = self.lsa_results, []
        if len(res) != 1:
            return None
        mi, mj = res[0]
        if len(mi) != n or list(mi) != list(range(n)):
            return None
        return [int(j) for j in mj]


def run_real(fn, A_, B_, cap=None, rep="array"):
    """returns dict(plain, dist, rows, sigma) or dict(error=...)"""
    mod = common.pm("bottleneck" if fn == "bn" else "wasserstein")
    f = mod.bottleneck if fn == "bn" else mod.wasserstein
    out = {}
    with warnings.catch_warnings():
        warnings.simplefilter("ignore")
        try:
            out["plain"] = f(arr(A_, rep), arr(B_, rep))
            if cap is not None:
                cap.hk_results, cap.lsa_results = [], []
            res = f(arr(A_, rep), arr(B_, rep), matching=True)
        except Exception as e:  # the property says a matching is returned for every pair of finite diagrams
            return {"error": "%s: %s" % (type(e).__name__, e)}
    try:
        out["dist"], out["rows"] = res
    except (TypeError, ValueError):
        return {"error": "matching=True did not return (distance, rows): %r" % (res,)}
    if cap is not None:
        n = max(len(A_), 1) + max(len(B_), 1)
        out["sigma"] = cap.bn_sigma(n) if fn == "bn" else cap.ws_sigma(n)
    return out


def rows_wire(rows):
    """(problems, [[int i, int j, float cost], …]) — what can be said before any arithmetic"""
    try:
        a = np.asarray(rows, dtype=float)
    except (TypeError, ValueError):
        return ["rows are not a numeric array"], None
    if a.ndim != 2 or a.shape[1] != 3:
        return ["rows have shape %r, not (k, 3)" % (a.shape,)], None
    if not np.all(np.isfinite(a)):
        return ["rows contain non-finite entries"], None
    if not np.all(a[:, 0:2] == np.round(a[:, 0:2])):
        return ["index columns are not integers"], None
    return [], [[int(x[0]), int(x[1]), float(x[2])] for x in a]


# ----------------------------------------------------------------------------- independent oracles ([T])

def placeholder(P):
    return [list(p) for p in P] if len(P) else [[0.0, 0.0]]


def cost_fns(fn, exact):
    if fn == "bn":
        if exact:
            F = Fraction
            return (lambda p, q: max(abs(F(p[0]) - F(q[0])), abs(F(p[1]) - F(q[1]))),
                    lambda p: (F(p[1]) - F(p[0])) / 2)
        return (lambda p, q: max(abs(p[0] - q[0]), abs(p[1] - q[1])), lambda p: (p[1] - p[0]) / 2)
    return (lambda p, q: math.hypot(p[0] - q[0], p[1] - q[1]), lambda p: (p[1] - p[0]) / math.sqrt(2.0))


def py_clauses(fn, A_, B_, dist, rows, exact, ctol, atol):
    """the statement's clauses, re-implemented independently of the Lean checker; returns a list of failures"""
    S, T = placeholder(A_), placeholder(B_)
    M, N = len(S), len(T)
    pc, dc = cost_fns(fn, exact and fn == "bn")
    bad = []
    first = [r[0] for r in rows]
    second = [r[1] for r in rows]
    for i in range(M):
        if first.count(i) != 1:
            bad.append("point %d of the first diagram is in %d rows" % (i, first.count(i)))
    for j in range(N):
        if second.count(j) != 1:
            bad.append("point %d of the second diagram is in %d rows" % (j, second.count(j)))
    for (i, j, c) in rows:
        if not (-1 <= i < M and -1 <= j < N):
            bad.append("row (%d,%d) has an index out of range" % (i, j)); continue
        if i == -1 and j == -1:
            # the statement constrains the rows of POINTS; a kept diagonal-diagonal row pairs no point.  Its cost under
            # either rule is 0: only a non-zero third entry contradicts "third entry = cost of that pairing"
            if abs(c) > ctol:
                bad.append("a diagonal-diagonal row (-1,-1) has the non-zero third entry %r" % (c,))
            continue
        want = pc(S[i], T[j]) if (i >= 0 and j >= 0) else (dc(S[i]) if j == -1 else dc(T[j]))
        if exact and fn == "bn":
            if Fraction(c) != want:
                bad.append("row (%d,%d): third entry %r, cost of the pairing %r" % (i, j, c, float(want)))
        elif abs(c - float(want)) > (ctol if fn == "bn" else min(ctol, 1e-9 * abs(float(want)))):
            # Wasserstein: relative to the COST (both costs come from coordinate differences: np.sqrt of the summed squared
            # differences, (d - b)/np.sqrt(2) since the /repo fix of the diagonal cost), 0 for a diagonal point or a pair of
            # equal points; 1e-9 * largest |coordinate| before, which the rotation by pi/4 needed
            bad.append("row (%d,%d): third entry %r, cost of the pairing %r" % (i, j, c, float(want)))
    if rows:
        if fn == "bn":
            agg = max(r[2] for r in rows)
            if agg != dist:
                bad.append("max of row costs %r != reported distance %r" % (agg, dist))
        else:
            agg = math.fsum(r[2] for r in rows)
            if abs(agg - dist) > atol:
                bad.append("sum of row costs %r != reported distance %r" % (agg, dist))
    # (no rows at all: the clauses above already say which points are in no row — an empty side is the point (0,0), index 0)
    return bad


def exhaustive_opt(fn, A_, B_, exact):
    """min over ALL partial matchings of the placeholder-adjusted diagrams (max resp. sum of costs)"""
    S, T = placeholder(A_), placeholder(B_)
    M, N = len(S), len(T)
    pc, dc = cost_fns(fn, exact and fn == "bn")
    C = [[pc(s, t) for t in T] for s in S]
    U = [dc(s) for s in S]
    V = [dc(t) for t in T]
    agg = max if fn == "bn" else (lambda a, b: a + b)
    best = [None]

    def rec(i, used, acc):
        if best[0] is not None and fn == "bn" and acc >= best[0]:
            return
        if i == M:
            tot = acc
            for j in range(N):
                if not (used >> j) & 1:
                    tot = agg(tot, V[j])
            if best[0] is None or tot < best[0]:
                best[0] = tot
            return
        rec(i + 1, used, agg(acc, U[i]))
        for j in range(N):
            if not (used >> j) & 1:
                rec(i + 1, used | (1 << j), agg(acc, C[i][j]))

    rec(0, 0, 0)
    return best[0]


# ----------------------------------------------------------------------------- one case = real call + checks

class Case:
    def __init__(self, fn, A_, B_, exact, mode="?", hashseed=None, rep="array"):
        self.fn, self.A, self.B, self.exact, self.mode, self.hashseed = fn, A_, B_, exact, mode, hashseed
        self.rep = rep
        self.scale = scale_of(A_, B_)
        self.res = None
        self.problems = []       # statement failures found on the real code (each is a failing input)
        self.wire = None
        self.checked_wire = None # the rows handed to the checkers: `wire` without harmless (-1,-1,0) rows
        self.notes = []          # differences from the model that the statement leaves free (correspondence only)
        self.lines = []          # driver lines: [cert, (cert.f), (rows model)]
        self.kinds = []

    def desc(self):
        d = {"fn": self.fn, "A": self.A, "B": self.B, "exact": self.exact}
        if self.rep != "array":
            d["rep"] = self.rep
        if self.hashseed is not None:
            d["hashseed"] = self.hashseed
        return d

    def prepare(self):
        """after the real call: pre-checks and the driver lines"""
        res = self.res
        if "error" in res:
            self.problems.append("matching=True raised / malformed: " + res["error"]); return
        plain, dist = res.get("plain"), res["dist"]
        try:
            dist = float(dist)
        except (TypeError, ValueError):
            self.problems.append("distance is not a number: %r" % (dist,)); return
        res["dist"] = dist
        if plain is not None:
            # "the distance returned is the same as without it": the same NUMBER — its Python type (float, np.float64,
            # int 0, 0-d array) is not fixed by the statement; bottleneck returns one of the matrix entries on both paths
            # (bit-equal), Wasserstein may sum the selected costs in another order (equal up to rounding)
            try:
                pf = float(plain)
            except (TypeError, ValueError):
                pf = None
            if pf is None:
                self.problems.append("distance without matching=True is not a number: %r" % (plain,))
            elif pf != dist:
                tol = 0.0 if self.fn == "bn" else 1e-9 * self.scale * (max(len(self.A), 1) + max(len(self.B), 1) + 1)
                if not abs(pf - dist) <= tol:
                    self.problems.append("distance with matching=True is %r, without %r" % (dist, plain))
                else:
                    self.notes.append("distance with matching=True is %r, without %r (equal up to rounding, not bit-identical)" % (dist, plain))
        if not math.isfinite(dist):
            self.problems.append("distance %r is not finite" % dist); return
        bad, wire = rows_wire(res["rows"])
        self.problems += bad
        self.wire = wire
        if wire is None:
            return
        # kept diagonal-diagonal rows with cost 0 change neither the maximum, nor the sum, nor "every point exactly once":
        # they are left out of what the checker sees and reported as a correspondence break only
        ctol = 1e-9 * self.scale
        dd = [r_ for r_ in wire if r_[0] == -1 and r_[1] == -1]
        if dd and all(abs(r_[2]) <= ctol for r_ in dd):
            self.notes.append("%d diagonal-diagonal row(s) (-1,-1,0) are kept in the returned rows" % len(dd))
            self.checked_wire = [r_ for r_ in wire if not (r_[0] == -1 and r_[1] == -1)]
        else:
            self.checked_wire = wire
        wire = self.checked_wire
        if self.fn == "bn":
            self.lines.append("cert.rows.bn %s %s %s %s" % (enc(self.A), enc(self.B), enc(wire), enc(dist))); self.kinds.append("cert")
            if not self.exact:
                self.lines.append("cert.rows.bn.f %s %s %s" % (enc(self.A), enc(self.B), enc(wire))); self.kinds.append("certf")
        else:
            self.lines.append("cert.rows.ws %s %s %s" % (enc(self.A), enc(self.B), enc(wire))); self.kinds.append("cert")
        if res.get("sigma") is not None:
            self.lines.append("rows.%s %s %s %s" % (self.fn, enc(self.A), enc(self.B), enc(res["sigma"]))); self.kinds.append("model")

    def tolerances(self):
        ctol = 1e-9 * self.scale
        atol = 1e-9 * self.scale * ((len(self.wire) if self.wire else 0) + 1)
        return ctol, atol

    def judge(self, ctx, answers):
        """evaluate the Lean checker's verdict, the [T] oracles and the extraction correspondence"""
        fn, dist = self.fn, self.res.get("dist") if self.res else None
        tag = fn + (".hs" if self.hashseed is not None else "")
        corr = None
        if self.wire is not None and "error" not in self.res:
            ctol, atol = self.tolerances()
            for kind, ans in zip(self.kinds, answers):
                if isinstance(ans, str) and kind == "model" and ans.startswith("err:"):
                    # the extraction model rejects the assignment the real solver returned (e.g. it selects an infinite
                    # entry of the model's matrix): the code solved a different problem than the model - a correspondence
                    # break; the statement's clauses on the returned rows (below) decide whether a failing input was found
                    corr = "extraction model rejects the solver's assignment (%s)" % ans
                    ctx.count("model_rejects_solver_assignment")
                    continue
                if isinstance(ans, str):
                    raise common.HarnessError("driver answered %r for a %s line of %r" % (ans, kind, self.desc()))
                if kind == "cert" and fn == "bn":
                    st, ex, dev, agg, mx, proved = ans
                    if proved != (st and ex and agg):
                        raise common.HarnessError("driver flags inconsistent: %r" % (ans,))
                    if self.exact and not proved:
                        self.problems.append("Lean-proved checker checkBnRat rejects the rows")
                    if not st:
                        self.problems.append("Lean checker: rows are not a partial matching of the two diagrams")
                    if self.exact and st and not ex:
                        self.problems.append("Lean checker: a third entry is not the L-inf / (d-b)/2 cost of its row (exact; max deviation %r)" % float(dev))
                    if not self.exact and float(dev) > ctol:
                        self.problems.append("Lean checker: third entries deviate by %r > %r" % (float(dev), ctol))
                    if not agg:
                        self.problems.append("Lean checker: max of row costs %r != reported distance %r" % (mx if isinstance(mx, str) else float(mx), dist))
                    ctx.count("bn.cert." + ("exact" if self.exact else "tolerance"))
                elif kind == "certf":
                    st, dev, mx = ans
                    if not st or not (dev <= ctol) or mx != dist:
                        self.problems.append("Lean checker (Float): structure=%r deviation=%r max=%r distance=%r" % (st, dev, mx, dist))
                    ctx.count("bn.certf.dev==0" if dev == 0 else "bn.certf.dev>0")
                elif kind == "cert":
                    st, dev, tot = ans
                    if not st:
                        self.problems.append("Lean checker: rows are not a partial matching of the two diagrams")
                    if not (dev <= ctol):
                        self.problems.append("Lean checker: third entries deviate from Euclid / (d-b)/sqrt2 by %r > %r" % (dev, ctol))
                    if not (abs(tot - dist) <= atol):
                        self.problems.append("Lean checker: sum of row costs %r != reported distance %r (tol %r)" % (tot, dist, atol))
                    ctx.count("ws.cert")
                elif kind == "model":
                    corr = self.compare_model(ans, ctol, atol)
            # [T] the statement's clauses, independently
            pyc = py_clauses(fn, self.A, self.B, dist, self.wire, self.exact, ctol, atol)
            ctx.test(tag + ".statement_clauses_py", not pyc)
            self.problems += ["[py] " + b for b in pyc[:4]]
            # [T] exhaustive optimum
            if max(len(self.A), 1) + max(len(self.B), 1) <= 8:
                opt = exhaustive_opt(fn, self.A, self.B, self.exact)
                if fn == "bn" and self.exact:
                    ok = Fraction(dist) == opt
                else:
                    ok = abs(float(opt) - dist) <= (ctol if fn == "bn" else 1e-9 * self.scale * (len(self.wire) + 1))
                ctx.test(tag + ".exhaustive_optimum", ok)
                if not ok:
                    self.problems.append("reported distance %r but the minimum over all partial matchings is %r" % (dist, float(opt)))
        ctx.test(tag + ".rows_certify", not self.problems)
        if self.problems:
            ctx.violation("%s(matching=True): %s" % ("bottleneck" if fn == "bn" else "wasserstein", "; ".join(self.problems[:6])),
                          dict(self.desc(), distance=dist, rows=self.wire, plain=self.res.get("plain") if self.res else None),
                          found_input=True)
        elif corr or self.notes:
            # the small model of the extraction loop disagrees with the code although the property holds on this input, or
            # the code differs in something the statement leaves free (kept (-1,-1,0) rows, last-bit difference of the two
            # Wasserstein distances): reported twice per run at most, the search for a failing input goes on
            ctx.count("correspondence_break_property_holds")
            if ctx.counters["correspondence_break_property_holds"] <= 2:
                ctx.violation("extraction model differs from the code (the returned rows still certify the distance): "
                              + "; ".join(([corr] if corr else []) + self.notes),
                              {"correspondence": "rows." + fn, "line": self.lines[-1][:2000] if self.lines else "", "code": self.wire,
                               "model": "see `what`", "fn": fn, "A": self.A, "B": self.B, "exact": self.exact},
                              found_input=False)
        return not self.problems and not corr and not self.notes

    def compare_model(self, ans, ctol, atol):
        fn = self.fn
        if fn == "ws":
            mrows, tot = ans
            if not abs(tot - self.res["dist"]) <= max(atol, 1e-9 * self.scale * (len(mrows) + 1)):
                return "model total %r vs code distance %r" % (tot, self.res["dist"])
        else:
            mrows = ans
        if len(mrows) != len(self.wire):
            return "model yields %d rows, code %d" % (len(mrows), len(self.wire))
        for a, b in zip(mrows, self.wire):
            if int(a[0]) != b[0] or int(a[1]) != b[1]:
                return "row indices differ: model %r code %r" % ([int(a[0]), int(a[1])], b[:2])
            if fn == "bn" and self.exact:
                if Fraction(a[2]) != Fraction(b[2]):
                    return "row %r cost: model %r code %r" % (b[:2], float(a[2]), b[2])
            elif abs(float(a[2]) - b[2]) > ctol:
                return "row %r cost: model %r code %r" % (b[:2], float(a[2]), b[2])
        return None


def run_cases(ctx, cases, limit=6):
    """prepare → one batched driver call → judge"""
    for c in cases:
        c.prepare()
    lines = [ln for c in cases for ln in c.lines]
    answers = ask(lines)
    k = 0
    ok_all = True
    for c in cases:
        a = answers[k:k + len(c.lines)]
        k += len(c.lines)
        ok_all &= c.judge(ctx, a)
        if len(ctx.violations) >= limit:
            break
    return ok_all


# ----------------------------------------------------------------------------- hash seeds

def hashseed_run(jobs, seed):
    env = dict(os.environ, PYTHONHASHSEED=str(seed), PERSIM_ROOT=common.REPO)
    p = subprocess.run([sys.executable, os.path.join(common.VERIF, "harness", "hashseed_worker.py")],
                       input=json.dumps(jobs).encode(), stdout=subprocess.PIPE, stderr=subprocess.PIPE, env=env, timeout=3000)
    if p.returncode != 0:
        # an exception inside the real code under this seed: find the job that raises
        return None, p.stderr.decode()[-1500:]
    return json.loads(p.stdout.decode()), None


def isolate_raising(jobs, seed):
    """the shortest list of jobs found by bisection that still makes the fresh interpreter raise under this hash seed
    (a single job unless the failure needs earlier calls in the same process)"""
    jobs = list(jobs)
    while len(jobs) > 1:
        half = len(jobs) // 2
        for part in (jobs[:half], jobs[half:]):
            vals, _ = hashseed_run(part, seed)
            if vals is None:
                jobs = part
                break
        else:
            break                       # neither half raises alone: the failure depends on the sequence of calls
    return jobs


def hash_seeds(ctx, pairs):
    r = ctx.rng
    seeds = sorted(set([0] + [r.randint(1, 2 ** 32 - 1) for _ in range(ctx.n(2, 11))]))
    jobs = []
    for (A_, B_, exact) in pairs:
        jobs += [["bn.m", A_, B_], ["ws.m", A_, B_], ["bn", A_, B_], ["ws", A_, B_]]
    ctx.extra["hash_seeds"] = seeds
    base = None
    for s in seeds:
        vals, errtxt = hashseed_run(jobs, s)
        if vals is None:
            bad = isolate_raising(jobs, s)
            case = {"law": "raises_under_hashseed", "hashseed": s, "jobs": bad}
            if len(bad) == 1:
                case.update({"fn": bad[0][0][:2], "A": bad[0][1], "B": bad[0][2], "exact": False})
            ctx.violation("real code raised in a fresh interpreter under PYTHONHASHSEED=%d (%d call(s) isolated, the first: %s(%r, %r)): %s"
                          % (s, len(bad), bad[0][0], bad[0][1], bad[0][2], errtxt), case, found_input=True)
            return
        cases = []
        for (A_, B_, exact), k in zip(pairs, range(0, len(jobs), 4)):
            for fn, off in (("bn", 0), ("ws", 1)):
                c = Case(fn, A_, B_, exact, hashseed=s)
                d, rows = vals[k + off]
                c.res = {"dist": d, "rows": rows, "plain": np.float64(vals[k + off + 2])}
                cases.append(c)
        run_cases(ctx, cases)
        if len(ctx.violations) >= 6:
            return
        dists = [v[0] if isinstance(v, list) else v for v in vals]
        if base is None:
            base = dists
        else:
            for job, a, b in zip(jobs, base, dists):
                same = a == b
                ctx.test("hash_seed_same_distance", same)
                if not same:
                    ctx.violation("%s distance depends on PYTHONHASHSEED: %r under %d, %r under %d" % (job[0], a, seeds[0], b, s),
                                  {"fn": job[0][:2], "A": job[1], "B": job[2], "hashseeds": [seeds[0], s], "exact": False}, found_input=True)
                    return
        ctx.count("hash_seed_runs")


# ----------------------------------------------------------------------------- run / replay

CORPUS = [
    ([], [], True),                                           # both empty: one row (0,0,0)
    ([], [[0.0, 3.0]], True),                                 # empty first side: index 0 is the point (0,0)
    ([[1.0, 4.0], [2.0, 2.0]], [], True),
    ([[0.0, 2.0], [1.0, 4.0]], [[0.0, 3.0]], True),
    ([[0.0, 1.0], [0.0, 1.0], [0.0, 1.0]], [[0.0, 1.0], [0.0, 1.0]], True),   # multiplicities
    ([[2.0, 2.0], [3.0, 3.0]], [[5.0, 5.0]], True),           # only diagonal points: every cost 0
    ([[0.0, 10.0], [4.0, 5.0]], [[0.0, 9.0], [4.0, 6.0], [7.0, 8.0]], True),
    ([[0.1, 0.7], [0.3, 0.4]], [[0.2, 0.9]], False),          # non-dyadic
    # the bisect-bug diagrams of the suite (test_distances.py) and its matching example
    ([[0.5, 1.0], [0.6, 1.1]], [[0.5, 1.1], [0.6, 1.3]], False),
    ([[0.5, 1.0], [0.6, 1.1]], [[0.5, 1.1], [0.6, 1.1], [0.8, 1.1], [1.0, 1.1]], False),
]


def run(ctx):
    py2lean.report_broken(ctx, PROP_FILES)
    r = ctx.rng
    ctx.extra["core_theorems"] = CORE_THEOREMS
    ctx.extra["source_digest"] = {"bottleneck": common.source_digest(FILES[0], ["bottleneck"]),
                                  "wasserstein": common.source_digest(FILES[1], ["wasserstein"])}
    plan = [(8, ctx.n(260, 6000))]
    if ctx.thorough:
        plan += [(20, 1500), (40, 700)]
    else:
        plan += [(16, 30)]
    pairs = [(a, b, e, "corpus") for a, b, e in CORPUS]
    for nmax, cnt in plan:
        for _ in range(cnt):
            a, b, mode, e = gen_pair(ctx, nmax)
            pairs.append((a, b, e, mode))
            if len(a) != len(b) and r.random() < 0.3:
                # the same two diagrams in the other order right afterwards: same M+N, different split - state that an
                # implementation carries from one call to the next (cached matrices) shows here
                pairs.append((b, a, e, mode))
                ctx.count("swapped_followup_pairs")
    hs_pairs = []
    with Capture() as cap:
        batch = []
        cov = common.LineCov(FILES)
        for idx, (a, b, e, mode) in enumerate(pairs):
            rep = pick_rep(ctx, a, b)
            ctx.count("rep:" + rep)
            for fn in ("bn", "ws"):
                c = Case(fn, a, b, e, mode, rep=rep)
                if idx < 60:
                    with cov:
                        c.res = run_real(fn, a, b, cap, rep)
                else:
                    c.res = run_real(fn, a, b, cap, rep)
                batch.append(c)
                nontriv = len(a) >= 1 and len(b) >= 1 and len(a) + len(b) >= 3
                ctx.case({"fn": fn, "A": a, "B": b}, nontriv, sample_every=211)
                ctx.count("mode:" + mode)
                ctx.count("size:%s" % ("0" if min(len(a), len(b)) == 0 else "<=8" if max(len(a), len(b)) <= 8 else "<=40"))
                if c.res.get("sigma") is None:
                    ctx.count("sigma_not_captured")
            if len(hs_pairs) < ctx.n(40, 250) and (idx < len(CORPUS) or r.random() < 0.2) and max(len(a), len(b)) <= 20:
                hs_pairs.append((a, b, e))
            if len(batch) >= 400 or idx == len(pairs) - 1:
                run_cases(ctx, batch)
                batch = []
                if len(ctx.violations) >= 6:
                    return
        ctx.extra["branch_hits"] = cov.summary()
    hash_seeds(ctx, hs_pairs)


def replay(ctx, rep):
    c = rep["case"]
    if c.get("law") == "raises_under_hashseed" and c.get("jobs"):
        vals, errtxt = hashseed_run(c["jobs"], c["hashseed"])
        if vals is None:
            print("raised under PYTHONHASHSEED=%s: %s" % (c["hashseed"], errtxt))
            return False
        print("the %d recorded call(s) return under PYTHONHASHSEED=%s" % (len(c["jobs"]), c["hashseed"]))
        if "A" not in c:
            return True
    if "A" not in c:
        print("nothing to re-run on the real code in this replay:", json.dumps(c)[:1500])
        return True
    A_, B_, exact = c["A"], c["B"], bool(c.get("exact", False))
    fn = c.get("fn", "bn")
    before = len(ctx.violations)
    if "hashseeds" in c or "hashseed" in c:
        seeds = c.get("hashseeds") or [c["hashseed"]]
        dists = []
        for s in seeds:
            vals, errtxt = hashseed_run([[fn + ".m", A_, B_], [fn, A_, B_]], s)
            if vals is None:
                print("raised under PYTHONHASHSEED=%s: %s" % (s, errtxt)); return False
            case = Case(fn, A_, B_, exact, hashseed=s)
            case.res = {"dist": vals[0][0], "rows": vals[0][1], "plain": np.float64(vals[1])}
            run_cases(ctx, [case])
            dists.append(vals[0][0])
            print("PYTHONHASHSEED=%s: distance %r rows %r" % (s, vals[0][0], vals[0][1]))
        return len(ctx.violations) == before and len(set(dists)) == 1
    with Capture() as cap:
        case = Case(fn, A_, B_, exact, rep=c.get("rep", "array"))
        case.res = run_real(fn, A_, B_, cap, case.rep)
    print("real code: %r" % ({k: (v.tolist() if hasattr(v, "tolist") else v) for k, v in case.res.items()},))
    run_cases(ctx, [case])
    print("problems:", case.problems or "none")
    if rep.get("found_failing_input") is False:
        # correspondence-only replay: the property itself held on this input
        return not case.problems
    if len(ctx.violations) != before:
        return False
    # which maximum matching Hopcroft–Karp returns depends on the interpreter's hash seed (unknown for the
    # in-process run that produced the replay): try a range of seeds in fresh interpreters
    for s in range(12):
        vals, errtxt = hashseed_run([[fn + ".m", A_, B_], [fn, A_, B_]], s)
        if vals is None:
            print("raised under PYTHONHASHSEED=%s: %s" % (s, errtxt)); return False
        case = Case(fn, A_, B_, exact, hashseed=s)
        case.res = {"dist": vals[0][0], "rows": vals[0][1], "plain": np.float64(vals[1])}
        run_cases(ctx, [case])
        if len(ctx.violations) != before:
            print("fails under PYTHONHASHSEED=%d: %r" % (s, case.problems))
            return False
    return True


MANIFEST = {
    "text": "Proof for the checker and the extraction, validation per call for the rows (41 theorems, of which 11 are the core statements: "
            "checkRows_sound_bn/_ws, bn_rows_certify, ws_rows_certify, empty_as_origin, bottleneck_matching_certifies, wasserstein_matching_certifies, "
            "modelBnRowsCertify, modelWsRowsCertify, model_rows_independent_of_oracle_value/_solver_value; the rest are proof steps, cost-rule "
            "identifications, definitional restatements and concrete instances): Lean theorems show (1) the certificate "
            "checker `checkRows` is sound for diagrams of ANY size — rows it accepts ARE a partial matching of the two "
            "(placeholder-adjusted) diagrams in which every point is in exactly one row, whose largest pairing cost is exactly the "
            "maximum of the third entries (bottleneck) and whose total cost is exactly their sum (Wasserstein), so together with "
            "C01/C02 the rows are an OPTIMAL matching; (2) the model of both extraction loops (re-indexing to -1, dropping "
            "diagonal-diagonal rows) applied to ANY perfect matching of the augmented matrix is accepted by the checker, its row "
            "maximum equals the least feasible threshold and its row sum equals the sum of all selected entries; (2') Props/C06Model.lean "
            "composes this with C01/C02 for the MODELS OF THE CODE themselves: for every oracle honouring OracleMax / solver honouring "
            "LsaContract and diagrams of every size, the rows `bottleneckWithMatching` / `wasserstein` return are (up to the "
            "representation of the finite third entry) exactly C06's extracted rows, pass `checkRows`, have max / sum equal to the "
            "returned distance, are an optimal matching, and the certified value is independent of the oracle / solver — i.e. "
            "Props/C06Model.lean proves the property for the C01/C02 MODELS themselves, not only for an abstract extraction loop; (3) the clause "
            "'same distance with and without the flag': the two theorems matching_flag_irrelevant_bn/_ws are DEFINITIONAL (true by rfl: the "
            "model's return value is built from the same distance component in both branches) and carry no weight of their own — the clause "
            "rests on C01's matching_flag_value (bottleneckWithMatching returns bottleneck's result) for the bottleneck model and is otherwise "
            "[T] on the real code (every case is run with and without matching=True and the two distances must be the same number: bit-equal for "
            "bottleneck, equal up to rounding for the Wasserstein sum); (4) an empty "
            "side is index 0 of the one-point diagram (0,0). That the returned distance is the specification value (minimum over all partial "
            "matchings) is C01/C02; C06Model composes with them for the models. The rows returned "
            "by the real code are never compared with a model's rows (any optimal matching is acceptable): every returned matching, "
            "under several hash seeds, is validated by the Lean-proved checker (translation-validation flavour for the per-call part), "
            "the distance is compared with and without matching=True, and for M+N <= 8 with the exhaustive optimum.",
    "note": "Trusted: Lean kernel + Mathlib (propext/Classical.choice/Quot.sound); the harness and driver that hand the code's rows to the "
            "checker; C01/C02 for 'reported distance = minimum'. [T]: an independent Python re-implementation of the statement's clauses, "
            "the exhaustive optimum (M+N <= 8), hash-seed runs in fresh interpreters, and float tolerances (bottleneck costs exact on dyadic "
            "inputs, 1e-9*scale otherwise; Wasserstein costs 1e-9*scale; scale = largest |coordinate|, not floored), the flag clause "
            "(see text), and the arguments' representation (lists, tuples, float32 and integer arrays are fed to the real functions; checker and "
            "models are dtype-free). The extraction model is tied to the code by replaying the "
            "assignment captured from the solver inside the real call.",
    "technique": "Lean-proved certificate checker run on every returned matching + theorems about the extraction loops",
}
MANIFEST["note"] += " " + " ".join(py2lean.manifest_note(_k) for _k in ("bottleneck_search", "wasserstein_assign"))
