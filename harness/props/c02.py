"""C02 — the Wasserstein distance is the true min-sum matching cost.

Theorems: lean/PersimVerif/Props/C02.lean (model lean/PersimVerif/Model/Wasserstein.lean over an ordered
field with `sqrt`/`cos(pi/4)` as parameters, and at the reals; specification Spec/Matching.lean).
Tie: the real `persim.wasserstein.wasserstein` against
  (i)  the model executed at Float with an exhaustive assignment solver (M+N <= 8, driver op `ws.exh`),
  (ii) at every size the *certified* optimum of the model's Float matrix (`ws.matrix`): scipy solves the
       matrix as an untrusted hint, exact rational dual potentials are derived here (Bellman-Ford on the
       residual graph, exact Hungarian as a fallback) and verified by the Lean checker `cert.dual`
       (theorems `dual_cert_sound` / `dualCheck_sound`),
and the two warnings against the model's flags.
[T] `lsa_contract`: every matrix the real routine hands to scipy's linear_sum_assignment is observed in-process
and the returned assignment is compared with that matrix's optimum, certified the same way (the solver's
optimality is a parameter of the theorems, so it is exercised on every run instead of being proved).
On a disagreement the specification itself is evaluated on the real code's input (Lean `spec.ws`, an
independent Python enumeration of partial matchings, a certified optimum of a matrix built from the
definition for large sizes) to decide whether the *property* fails there.
"""
import math
import warnings
from fractions import Fraction

import numpy as np

from .. import common
from ..common import enc, ask, HarnessError

LEVEL = "proof"
RULE = ("pairs of diagrams from one PRNG: sizes 0-7 (quick) / 0-7, 0-16, 0-40 (thorough); coordinates from lattice/half/"
        "dyadic/decimal/uniform modes (lattice modes force ties), b <= d, repeated points (p=0.2), diagonal points, points "
        "shared between the two diagrams, non-finite deaths (+inf mostly, -inf/NaN rarely; sometimes a whole side), empty "
        "sides given as [] or a (0,2) array, a global power-of-two scale 2^-40..2^40 (on top of the per-coordinate 2^-20..2^20 of the dyadic mode); non-trivial = both sides keep a finite "
        "point and there are >= 3 finite points in total; distinct by digest of the pair")
ASSUMPTIONS = [
    "diagrams are (n,2): births finite, deaths finite or non-finite (dropped with a warning); extra columns and non-finite births are outside the model",
    "sklearn pairwise_distances returns the Euclidean distance up to rounding; it uses the expanded formula |x|^2-2xy+|y|^2, "
    "which is why values are compared with tolerance 1e-9*scale (scale = largest |coordinate| times the number of summed rows); before /repo fix of the expanded-formula cancellation this had to be 1e-6",
    "np.sum / BLAS dot agree with the model's left fold and b*(-sp)+d*cp up to rounding (inside the same tolerance)",
    "scipy.optimize.linear_sum_assignment returns a minimum-cost perfect assignment when a finite one exists: a PARAMETER of the "
    "theorem, not proved; every run certifies the optimum it is compared against with exact dual potentials checked in Lean",
    "exact-arithmetic idealisation: the theorems are over ordered fields / the reals with sqrt and cos(pi/4) given by their algebraic contracts",
]
TRUSTED = ["scipy.optimize.linear_sum_assignment (contract: minimum-cost perfect assignment; certified per run, not proved)",
           "sklearn.metrics.pairwise_distances (contract: Euclidean distance), np.cos/np.sin/np.sqrt at pi/4 and 2"]
TOL = 1e-9
EXH_MAX = 8          # M+N bound of the exhaustive model run (after the placeholder)
SPEC_MAX = 12        # |S|+|T| bound of the exhaustive specification


# ----------------------------------------------------------------------------- generation

def nonfinite(x):
    return isinstance(x, float) and not math.isfinite(x)


def finite_part(d):
    return [p for p in d if math.isfinite(p[1])]


def gen_pair(ctx, nmax):
    g, r = ctx.gen, ctx.rng
    mode = r.choice(["lattice", "lattice", "half", "dyadic", "dec", "unif"])
    mode2 = mode if r.random() < 0.8 else g.mode()
    d1 = g.diagram(nmax, mode, allow_diag=True, dup=0.2)
    d2 = g.diagram(nmax, mode2, allow_diag=True, dup=0.2)
    if not d1 and r.random() < 0.6:      # keep empty inputs, but not a quarter of all cases
        d1 = g.diagram(nmax, mode, allow_diag=True, allow_empty=False, dup=0.2)
    if not d2 and r.random() < 0.6:
        d2 = g.diagram(nmax, mode2, allow_diag=True, allow_empty=False, dup=0.2)
    if r.random() < 0.03:
        d1 = []
    if r.random() < 0.03:
        d2 = []
    if d1 and r.random() < 0.15:         # same birth multiset and same death multiset, paired differently
        deaths = [p[1] for p in d1]
        r.shuffle(deaths)
        d2 = [[p[0], max(p[0], e)] for p, e in zip(d1, deaths)]
        if r.random() < 0.5:
            d2 = [[b, e] for b, e in zip(sorted(p[0] for p in d1), sorted((p[1] for p in d1), reverse=r.random() < 0.5))]
            d2 = [[b, max(b, e)] for b, e in d2]
        ctx.count("gen:coordinate_multisets_shared")
    elif d1 and r.random() < 0.15:       # a reordering / near-copy of the first diagram
        d2 = [list(p) for p in d1]
        r.shuffle(d2)
        if d2 and r.random() < 0.5:
            i = r.randrange(len(d2)); d2[i] = [d2[i][0], d2[i][1] + r.choice([0.5, 1.0, 0.125])]
        ctx.count("gen:reordered_copy")
    if d1 and r.random() < 0.3:          # points shared between the two diagrams (zero distances, ties)
        for _ in range(r.randint(1, 3)):
            if len(d2) < nmax:
                d2.insert(r.randint(0, len(d2)), list(r.choice(d1)))
    k = 0
    if r.random() < 0.35:
        k = r.choice([-40, -20, -20, -10, -3, 3, 10, 20, 20, 40])
        s = 2.0 ** k
        d1 = [[p[0] * s, p[1] * s] for p in d1]
        d2 = [[p[0] * s, p[1] * s] for p in d2]
    infs = 0
    if r.random() < 0.3:
        whole = r.random() < 0.15
        for d in (d1, d2):
            allof = whole and r.random() < 0.6
            for p in d:
                if allof or r.random() < 0.3:
                    p[1] = r.choice([math.inf] * 18 + [-math.inf, math.nan])
                    infs += 1
    kinds = (r.choice(["list", "array"]), r.choice(["list", "array"]))
    return {"dgm1": d1, "dgm2": d2, "kinds": list(kinds), "mode": mode, "scale_exp": k}


def as_arg(d, kind):
    if kind == "array":
        return np.array(d, dtype=float).reshape(-1, 2)
    return [list(p) for p in d]


def run_code(case):
    """the real function: ('ok', value, warn1, warn2) or ('err', kind, warn1, warn2)"""
    ws = common.pm("wasserstein").wasserstein
    a1 = as_arg(case["dgm1"], case["kinds"][0])
    a2 = as_arg(case["dgm2"], case["kinds"][1])
    with warnings.catch_warnings(record=True) as w:
        warnings.simplefilter("always")
        with np.errstate(all="ignore"):
            try:
                v = ws(a1, a2)
                st = "ok"
                v = float(v)
            except Exception as e:      # the code's own error kinds are part of its behaviour
                st, v = "err", type(e).__name__
    msgs = [str(x.message) for x in w]
    return st, v, any("dgm1" in m for m in msgs), any("dgm2" in m for m in msgs)


class _OptProxy:
    """stands in for the `optimize` module inside persim.wasserstein: records every call of
       linear_sum_assignment (matrix, result) and forwards it unchanged"""

    def __init__(self, real, log):
        self._real, self._log = real, log

    def linear_sum_assignment(self, D, *a, **k):
        res = self._real.linear_sum_assignment(D, *a, **k)
        try:
            self._log.append((np.array(D, dtype=float, copy=True), [int(x) for x in res[0]], [int(x) for x in res[1]]))
        except Exception:
            pass
        return res

    def __getattr__(self, name):
        return getattr(self._real, name)


class lsa_recorder:
    """context manager: observe the solver calls of the real routine ([T] stream `lsa_contract`)"""

    def __init__(self):
        self.log = []

    def __enter__(self):
        self.mod = common.pm("wasserstein")
        self.real = getattr(self.mod, "optimize", None)
        if self.real is not None and hasattr(self.real, "linear_sum_assignment"):
            self.mod.optimize = _OptProxy(self.real, self.log)
        return self

    def __exit__(self, *a):
        if self.real is not None:
            self.mod.optimize = self.real


def scale_of(case):
    xs = [abs(x) for d in (case["dgm1"], case["dgm2"]) for p in d for x in p if math.isfinite(x)]
    m = max(xs) if xs else 0.0
    rows = max(1, len(finite_part(case["dgm1"]))) + max(1, len(finite_part(case["dgm2"])))
    return m * rows


def agree(a, b, scale):
    a, b = float(a), float(b)
    if math.isnan(a) or math.isnan(b) or math.isinf(a) or math.isinf(b):
        return False
    if scale == 0.0:        # every coordinate is 0 (or both sides empty): the value is 0 up to the code's own constants
        return abs(a - b) <= 1e-12
    return abs(a - b) <= TOL * scale


# ----------------------------------------------------------------------------- exact certificates

def to_int_matrix(Df):
    """finite float entries are dyadic rationals: scale all of them to integers by one power of two"""
    k = 0
    ratios = []
    for row in Df:
        rr = []
        for x in row:
            if isinstance(x, float) and math.isinf(x):
                rr.append(None)
            else:
                n, d = float(x).as_integer_ratio()
                e = d.bit_length() - 1
                k = max(k, e)
                rr.append((n, e))
        ratios.append(rr)
    W = [[None if t is None else t[0] << (k - t[1]) for t in rr] for rr in ratios]
    return W, k


def bf_potentials(W, cols):
    """exact dual potentials of the assignment `cols` by Bellman-Ford on the residual graph; None if a
       negative cycle exists (the hint is not exactly optimal)"""
    n = len(W)
    b = [0] * n
    sparse = [[(j, w) for j, w in enumerate(row) if w is not None] for row in W]
    for _ in range(n + 2):
        changed = False
        for i in range(n):
            s = cols[i]
            base = b[s] - W[i][s]
            for j, w in sparse[i]:
                cand = base + w
                if cand < b[j]:
                    b[j] = cand
                    changed = True
        if not changed:
            a = [W[i][cols[i]] - b[cols[i]] for i in range(n)]
            return a, b
    return None


def hungarian(W):
    """exact O(n^3) assignment with potentials (integers, None = +inf); returns cols, a, b"""
    n = len(W)
    u = [0] * (n + 1); v = [0] * (n + 1); p = [0] * (n + 1); way = [0] * (n + 1)
    for i in range(1, n + 1):
        p[0] = i
        j0 = 0
        minv = [None] * (n + 1)
        used = [False] * (n + 1)
        while True:
            used[j0] = True
            i0 = p[j0]
            delta = None
            j1 = -1
            row = W[i0 - 1]
            for j in range(1, n + 1):
                if not used[j]:
                    w = row[j - 1]
                    if w is not None:
                        cur = w - u[i0] - v[j]
                        if minv[j] is None or cur < minv[j]:
                            minv[j] = cur
                            way[j] = j0
                    if minv[j] is not None and (delta is None or minv[j] < delta):
                        delta = minv[j]
                        j1 = j
            if delta is None:
                raise HarnessError("exact Hungarian: no finite assignment")
            for j in range(n + 1):
                if used[j]:
                    u[p[j]] += delta
                    v[j] -= delta
                elif minv[j] is not None:
                    minv[j] -= delta
            j0 = j1
            if p[j0] == 0:
                break
        while True:
            j1 = way[j0]
            p[j0] = p[j1]
            j0 = j1
            if j0 == 0:
                break
    cols = [0] * n
    for j in range(1, n + 1):
        cols[p[j] - 1] = j - 1
    return cols, u[1:], v[1:]


def certificate(ctx, Df):
    """(protocol line for `cert.dual`, claimed optimum as Fraction) for a float matrix with inf entries"""
    from scipy.optimize import linear_sum_assignment
    n = len(Df)
    W, k = to_int_matrix(Df)
    cols = None
    try:
        _, c = linear_sum_assignment(np.array(Df, dtype=float))      # untrusted hint
        cols = [int(x) for x in c]
        if sorted(cols) != list(range(n)) or any(W[i][cols[i]] is None for i in range(n)):
            cols = None
    except ValueError:
        cols = None
    pot = bf_potentials(W, cols) if cols is not None else None
    if pot is None:
        if ctx is not None:
            ctx.count("cert:hint_not_exactly_optimal->exact_hungarian")
        cols, a, b = hungarian(W)
    else:
        if ctx is not None:
            ctx.count("cert:scipy_hint+bellman_ford")
        a, b = pot
    q = 1 << k
    mat = "[" + ",".join("[" + ",".join("inf" if w is None else enc(Fraction(w, q)) for w in row) + "]" for row in W) + "]"
    line = "cert.dual %s %s %s %s" % (mat, enc(cols), enc([Fraction(x, q) for x in a]), enc([Fraction(x, q) for x in b]))
    claimed = Fraction(sum(W[i][cols[i]] for i in range(n)), q)
    return line, claimed


def checked(ans, claimed):
    """the certified optimum from a `cert.dual` answer; a rejected certificate is a failure of this harness"""
    if not (isinstance(ans, list) and len(ans) == 2 and ans[0] is True):
        raise HarnessError("Lean rejected a dual certificate computed by the harness: %r" % (ans,))
    if ans[1] != claimed:
        raise HarnessError("certified optimum %r differs from the harness' exact cost %r" % (ans[1], claimed))
    return ans[1]


# ----------------------------------------------------------------------------- specification, independently

def oracle_small(S, T):
    """min over all partial matchings, straight from the definition (math.hypot, (d-b)/sqrt 2)"""
    r2 = math.sqrt(2.0)
    diag = lambda p: (p[1] - p[0]) / r2

    def go(i, rest):
        if i == len(S):
            return math.fsum(diag(T[j]) for j in rest)
        s = S[i]
        best = diag(s) + go(i + 1, rest)
        for j in rest:
            c = math.hypot(s[0] - T[j][0], s[1] - T[j][1]) + go(i + 1, tuple(x for x in rest if x != j))
            if c < best:
                best = c
        return best
    return go(0, tuple(range(len(T))))


def spec_matrix(S, T):
    """the augmented matrix of the *definition* (no placeholder, hypot, /sqrt 2), for the certified spec value"""
    M, N = len(S), len(T)
    r2 = math.sqrt(2.0)
    D = [[0.0] * (M + N) for _ in range(M + N)]
    for i in range(M):
        for j in range(N):
            D[i][j] = math.hypot(S[i][0] - T[j][0], S[i][1] - T[j][1])
        for j in range(M):
            D[i][N + j] = (S[i][1] - S[i][0]) / r2 if i == j else math.inf
    for i in range(N):
        for j in range(N):
            D[M + i][j] = (T[i][1] - T[i][0]) / r2 if i == j else math.inf
    return D


def spec_value(case):
    """value of the specification on the finite parts + the expected warnings; (value, warn1, warn2, how)"""
    S, T = finite_part(case["dgm1"]), finite_part(case["dgm2"])
    w1, w2 = len(S) < len(case["dgm1"]), len(T) < len(case["dgm2"])
    if len(S) + len(T) <= SPEC_MAX:
        py = oracle_small(S, T)
        ans = ask(["spec.ws %s %s" % (enc(case["dgm1"]), enc(case["dgm2"]))])[0]
        if not (isinstance(ans, list) and len(ans) == 1):
            raise HarnessError("spec.ws answered %r" % (ans,))
        if abs(float(ans[0]) - py) > 1e-9 * max(1e-300, scale_of(case)):
            raise HarnessError("the two evaluations of the specification differ: lean %r python %r" % (ans[0], py))
        how = "exhaustive enumeration of partial matchings (Lean spec.ws and Python agree)"
        if max(1, len(S)) + max(1, len(T)) <= EXH_MAX:
            # third opinion: the model with the exhaustive solver, which theorem `exhaustive_model_eq_spec` identifies with the specification
            e = ask(["ws.exh %s %s" % (enc(case["dgm1"]), enc(case["dgm2"]))])[0]
            if not (isinstance(e, list) and len(e) == 3) or abs(float(e[2]) - py) > 1e-9 * max(1e-300, scale_of(case)):
                raise HarnessError("proved evaluator ws.exh %r and the enumeration %r differ" % (e, py))
            how = "exhaustive enumeration of partial matchings (Lean spec.ws, Python and the proved evaluator ws.exh agree)"
        return py, w1, w2, how
    if not S and not T:
        return 0.0, w1, w2, "both empty"
    line, claimed = certificate(None, spec_matrix(S, T))
    val = checked(ask([line])[0], claimed)
    return float(val), w1, w2, "certified optimum (Lean cert.dual) of the matrix built from the definition"


def property_fails(case, code):
    """does the *property* fail on the real code for this input?  (fails?, description)"""
    st, v, c1, c2 = code
    val, w1, w2, how = spec_value(case)
    if st != "ok":
        return True, "the code raised %s; specification value %r by %s" % (v, val, how)
    if (c1, c2) != (w1, w2):
        return True, "warnings (dgm1,dgm2) = %r, expected %r (a warning iff a point with non-finite death is dropped)" % ((c1, c2), (w1, w2))
    if not agree(v, val, scale_of(case)):
        return True, "code value %r, specification value %r by %s" % (v, val, how)
    return False, "code value %r equals the specification value %r (%s)" % (v, val, how)


# ----------------------------------------------------------------------------- the run

CORPUS = [
    {"dgm1": [], "dgm2": [], "kinds": ["list", "list"]},
    {"dgm1": [], "dgm2": [], "kinds": ["array", "list"]},
    {"dgm1": [[0.0, 1.0]], "dgm2": [], "kinds": ["list", "array"]},
    {"dgm1": [], "dgm2": [[2.0, 5.0], [2.0, 5.0]], "kinds": ["list", "list"]},
    {"dgm1": [[0.0, math.inf]], "dgm2": [[0.0, 1.0]], "kinds": ["list", "list"]},          # a side emptied by the filter
    {"dgm1": [[0.0, math.inf], [1.0, math.nan]], "dgm2": [[3.0, -math.inf]], "kinds": ["array", "array"]},
    {"dgm1": [[0.0, 1.0], [0.0, 1.0]], "dgm2": [[0.0, 1.0]], "kinds": ["list", "list"]},   # multiplicity
    {"dgm1": [[1.0, 1.0], [2.0, 2.0]], "dgm2": [[1.0, 1.0]], "kinds": ["list", "list"]},   # diagonal points
    {"dgm1": [[0.0, 2.0]], "dgm2": [[1.0, 3.0]], "kinds": ["list", "list"]},               # pair (sqrt 2) ties two diagonals
    {"dgm1": [[0.0, 4.0], [1.0, 2.0]], "dgm2": [[0.0, 4.5], [10.0, 10.5]], "kinds": ["list", "list"]},
    {"dgm1": [[0.0, 3.0 * 2.0 ** 20]], "dgm2": [[2.0 ** -20, 2.0 ** -19]], "kinds": ["list", "list"]},
    {"dgm1": [[-3.0, -1.0], [-2.0, 5.0]], "dgm2": [[-2.5, -1.0]], "kinds": ["list", "list"]},  # negative coordinates
]


def sizes_of(case):
    S, T = finite_part(case["dgm1"]), finite_part(case["dgm2"])
    return len(S), len(T), max(1, len(S)), max(1, len(T))


ANCHOR = "persim/wasserstein.py"
ANCHOR_DIGEST = "23f9a8a5b5293f05"       # structural digest of `wasserstein` when the model was written


def run(ctx):
    cases = [dict(c) for c in CORPUS]
    digest = common.source_digest(ANCHOR, ["wasserstein"])
    ctx.extra["anchor_digest"] = {"file": ANCHOR, "now": digest, "modelled": ANCHOR_DIGEST}
    boost = 1
    if digest != ANCHOR_DIGEST:         # rewritten code is explored harder (DESIGN.md 3.2); not a violation
        ctx.count("anchor_changed_budget_x3")
        boost = 3
    n_small = ctx.n(2000, 36000) * boost
    n_mid = ctx.n(0, 6000) * boost
    n_big = ctx.n(0, 1200) * boost
    cases += [gen_pair(ctx, 7) for _ in range(n_small)]
    cases += [gen_pair(ctx, 16) for _ in range(n_mid)]
    cases += [gen_pair(ctx, 40) for _ in range(n_big)]

    # 1. the real code first (line coverage of the anchored file measured on a slice)
    ncov = min(len(cases), 300)
    codes, observed = [], []
    with lsa_recorder() as rec:
        def one(c):
            n0 = len(rec.log)
            codes.append(run_code(c))
            observed.append(rec.log[n0:])
        with common.LineCov([ANCHOR]) as cov:
            for c in cases[:ncov]:
                one(c)
        ctx.extra["anchored_line_coverage"] = cov.summary()
        for c in cases[ncov:]:
            one(c)

    # 2. the model: its matrix at every size, its exhaustive value where small
    lines, slots = [], []
    for c in cases:
        _, _, M, N = sizes_of(c)
        a, b = enc(c["dgm1"]), enc(c["dgm2"])
        slot = {"matrix": len(lines)}
        lines.append("ws.matrix %s %s" % (a, b))
        if M + N <= EXH_MAX:
            slot["exh"] = len(lines)
            lines.append("ws.exh %s %s" % (a, b))
        slots.append(slot)
    answers = ask(lines)

    # 3. certificates for the model's matrices, verified by Lean
    cert_lines, claims = [], []
    for c, slot in zip(cases, slots):
        ans = answers[slot["matrix"]]
        if not (isinstance(ans, list) and len(ans) == 3):
            raise HarnessError("ws.matrix answered %r" % (ans,))
        Df = [[float(x) for x in row] for row in ans[2]]
        line, claimed = certificate(ctx, Df)
        cert_lines.append(line)
        claims.append(claimed)
    # 3b. [T] lsa_contract: the optimum of every matrix the real routine handed to scipy, certified the same way
    obs_slots = []
    for obs in observed:
        sl = []
        for (Dc, ri, ci) in obs:
            if Dc.ndim == 2 and Dc.shape[0] == Dc.shape[1] and Dc.shape[0] > 0 and not np.isnan(Dc).any() \
                    and not np.isneginf(Dc).any():
                try:
                    line, claimed = certificate(None, Dc.tolist())
                except HarnessError:
                    continue                      # no finite assignment: outside the contract
                sl.append((len(cert_lines), claimed, Dc, ri, ci))
                cert_lines.append(line)
        obs_slots.append(sl)
    cert_answers = ask(cert_lines)

    # 4. compare
    for c, code, slot, cans, claimed, obs in zip(cases, codes, slots, cert_answers, claims, obs_slots):
        m, n, M, N = sizes_of(c)
        ans = answers[slot["matrix"]]
        model_w = (ans[0], ans[1])
        certified = checked(cans, claimed)
        st, v, c1, c2 = code
        scale = scale_of(c)
        nontriv = m >= 1 and n >= 1 and m + n >= 3
        ctx.case({"op": "wasserstein", "dgm1": c["dgm1"], "dgm2": c["dgm2"], "kinds": c["kinds"]}, nontriv, sample_every=53)
        ctx.count("size:%s" % ("0-8" if M + N <= 8 else "9-14" if M + N <= 14 else "15-32" if M + N <= 32 else "33-80"))
        if m == 0 or n == 0:
            ctx.count("empty_side_after_filter")
        if len(c["dgm1"]) == 0 or len(c["dgm2"]) == 0:
            ctx.count("empty_input")
        if m < len(c["dgm1"]) or n < len(c["dgm2"]):
            ctx.count("nonfinite_death")
        if any(p[0] == p[1] for d in (c["dgm1"], c["dgm2"]) for p in d):
            ctx.count("diagonal_point")
        for d in (finite_part(c["dgm1"]), finite_part(c["dgm2"])):
            if len({tuple(p) for p in d}) < len(d):
                ctx.count("repeated_point")
                break
        if c.get("scale_exp"):
            ctx.count("scaled:2^%d" % c["scale_exp"])
        problems = []
        if st != "ok":
            problems.append(("value", "code raised %s" % v, "model certified optimum %s" % float(certified)))
        else:
            if not agree(v, certified, scale):
                problems.append(("ws.matrix+cert.dual", v, float(certified)))
            if "exh" in slot:
                ctx.count("exhaustive_compared")
                e = answers[slot["exh"]]
                if not (isinstance(e, list) and len(e) == 3):
                    raise HarnessError("ws.exh answered %r" % (e,))
                if (e[0], e[1]) != model_w:
                    raise HarnessError("ws.exh and ws.matrix disagree on the warning flags")
                if not agree(float(e[2]), certified, scale):
                    raise HarnessError("model: exhaustive optimum %r differs from certified optimum %r" % (e[2], certified))
                if not agree(v, float(e[2]), scale):
                    problems.append(("ws.exh", v, float(e[2])))
        if (c1, c2) != model_w:
            problems.append(("warnings", [c1, c2], list(model_w)))
        if not obs:
            ctx.count("lsa_call_not_observed")
        for (k, oclaimed, Dc, ri, ci) in obs:
            opt = checked(cert_answers[k], oclaimed)
            nn = Dc.shape[0]
            okc = ri == list(range(nn)) and sorted(ci) == list(range(nn)) and all(math.isfinite(Dc[i, ci[i]]) for i in range(nn))
            if okc:
                got = sum(Fraction(float(Dc[i, ci[i]])) for i in range(nn))
                if got == opt:
                    ctx.count("lsa_contract:exactly_optimal")
                else:
                    ctx.count("lsa_contract:optimal_up_to_rounding")
                okc = got >= opt and float(got - opt) <= 1e-9 * max(scale, float(opt))
            ctx.test("lsa_contract", okc)
            if not okc:
                problems.append(("lsa_contract", "assignment returned by scipy: rows %r cols %r" % (ri, ci), "certified optimum %s" % float(opt)))
        if problems:
            fails, why = property_fails(c, code)
            op, cv, mv = problems[0]
            rcase = {"dgm1": c["dgm1"], "dgm2": c["dgm2"], "kinds": c["kinds"]}
            if fails:
                ctx.violation("wasserstein is not the min-sum matching cost / warning contract: " + why, rcase, found_input=True,
                              code=[st, v, c1, c2], model={"certified_optimum": float(certified), "warnings": list(model_w)},
                              reproduce="import persim; persim.wasserstein(%r, %r)" % (c["dgm1"], c["dgm2"]))
            else:
                ctx.violation("code and model disagree (%s) but the property holds on this input: %s" % (op, why),
                              {"correspondence": op, "line": lines[slot["matrix"]][:2000], "code": cv, "model": mv, "input": rcase},
                              found_input=False)
            if len(ctx.violations) > 5:
                return
    ctx.extra["tolerance"] = "1e-9 * (largest |coordinate|) * (rows of the augmented matrix)"


def _parse_dgm(d):
    return [[float(x) for x in p] for p in d]


def replay(ctx, rep):
    c = rep["case"]
    if "input" in c:
        c = c["input"]
    if "dgm1" not in c:
        print("nothing to replay on the real code (proof obligation / correspondence record)")
        return True
    case = {"dgm1": _parse_dgm(c["dgm1"]), "dgm2": _parse_dgm(c["dgm2"]), "kinds": c.get("kinds", ["list", "list"])}
    code = run_code(case)
    fails, why = property_fails(case, code)
    print("code:", code, "\n" + why)
    return not fails


MANIFEST = {
    "text": "Proof: Lean theorems about the line-by-line model of persim.wasserstein.wasserstein over every ordered field (and at the "
            "reals with Real.sqrt, cos(pi/4)): the augmented (M+N)x(M+N) matrix has the same minimum over perfect assignments as the "
            "sum cost has over all partial matchings (explicit map partial matching <-> finite perfect assignment; the zero block "
            "contributes 0), the second rotated coordinate is (d-b)/sqrt 2, the (0,0) placeholder of an empty side never changes the "
            "minimum, points with non-finite death are dropped and flagged, hence for diagrams of every size, multiplicity and scale the "
            "returned value is the min-sum matching cost (wasserstein_eq_spec) - for EVERY assignment solver meeting the contract "
            "'returns a minimum-cost perfect assignment when a finite one exists'. scipy.optimize.linear_sum_assignment's optimality is "
            "that parameter of the theorem: it is not proved, it is certified on every run - the value of the real code is compared with "
            "an optimum certified by exact rational dual potentials that a Lean-proved checker (dual_cert_sound/dualCheck_sound, weak "
            "duality) accepts, and with the model's exhaustive optimum when M+N<=8 (the exhaustive solver is itself proved to meet the "
            "contract, exhLsa_contract, so that value is the specification's by theorem). sqrt and cos(pi/4)=sin(pi/4) are parameters with "
            "their algebraic contracts (sqrt x >= 0, sqrt x * sqrt x = x for x >= 0; c >= 0, c*c = 1/2), instantiated at the reals.",
    "note": "Trusted: Lean kernel + Mathlib (axioms propext/Classical.choice/Quot.sound); the correspondence harness; scipy's "
            "linear_sum_assignment contract (certified per run, not proved); sklearn pairwise_distances = Euclidean distance up to "
            "rounding (tolerance 1e-9*scale); IEEE rounding is outside the theorems. [T] lsa_contract: every "
            "matrix the real routine hands to scipy is observed in-process and the assignment scipy returned is compared with that "
            "matrix's optimum, certified by the same Lean-checked dual certificate.",
    "technique": "Lean 4 theorems over a hand-written model with the solver as a contract parameter + differential correspondence "
                 "with Lean-verified dual certificates",
}
