"""C02 — the Wasserstein distance is the true min-sum matching cost.

Theorems: lean/PersimVerif/Props/C02.lean (model lean/PersimVerif/Model/Wasserstein.lean over an ordered
field with `sqrt` as a parameter, and at the reals; specification Spec/Matching.lean).
Tie: the real `persim.wasserstein.wasserstein` against
  (i)  the model executed at Float with an exhaustive assignment solver (M+N <= 8, driver op `ws.exh`),
  (ii) at every size the *certified* optimum of the model's Float matrix (`ws.matrix`): scipy solves the
       matrix as an untrusted hint, exact rational dual potentials are derived here (Bellman-Ford on the
       residual graph, exact Hungarian as a fallback) and verified by the Lean checker `cert.dual`
       (theorems `dual_cert_sound` / `dualCheck_sound`),
and the two warnings against the model's flags.
[T] `lsa_contract`: every matrix the real routine hands to scipy's linear_sum_assignment is observed in-process
and the returned assignment is compared with that matrix's optimum, certified the same way (the solver's
optimality is a parameter of the theorems, so it is exercised on every run instead of being proved).
On a disagreement the specification itself is evaluated on the real code's input (Lean `spec.ws`, an
independent Python enumeration of partial matchings, a certified optimum of a matrix built from the
definition for large sizes) to decide whether the *property* fails there.  After 150 disagreements on which the
property held, the specification is evaluated only where the verdict is in doubt (raise / value differs from the
certified optimum / missing warning); the search goes on through all remaining (larger) cases.
Verdict (what makes a FAILING INPUT): on inputs with finite births and deaths finite or +inf the call returns, the
value is within tolerance of the specification value, and SOME warning (any text/category) was raised when a +inf
death was present.  NaN / -inf deaths are compared with the model only.
"""
import math
import warnings
from fractions import Fraction

import numpy as np

from .. import common
from ..translator import py2lean
from ..common import enc, ask, HarnessError

LEVEL = "proof"
RULE = ("pairs of diagrams from one PRNG: sizes 0-7 mostly, 0-16 and 0-40 fewer (quick) / many more of each (thorough); coordinates from lattice/half/"
        "dyadic/decimal/uniform modes (lattice modes force ties), b <= d, repeated points (p=0.2), diagonal points, points "
        "shared between the two diagrams, non-finite deaths (+inf mostly; -inf/NaN rarely and then compared with the model only; sometimes a whole side), empty "
        "sides in every accepted form ([], [[]], np.zeros((0,2)), np.array([]), np.array([[]])); 8% integer-valued diagrams handed over as int32/int16/uint8/int64 arrays or Python-int lists whose squared "
        "coordinate differences leave the dtype's range (and integer-valued ordinary cases in those representations); 6% 'large offset, tiny spread' pairs "
        "(a diagram and a perturbation of it by delta, both translated by T = 1e3..1e6 feature sizes, delta/T ~ 1e-8; 60% of them 'wide': T a power of two "
        "2^20..2^40 or 1e3..1e9 feature sizes and T/delta log-uniform in 1e7..1e12, of which 60% 'paired': no point dropped or added, no diagonal "
        "points — every point is matched to its perturbed copy); on every pair of this class the value must lie in the ROUNDING INTERVAL of the "
        "specification value (entry_matrices: exact rational differences, 8 eps per distance entry relative to the entry, 8 eps per diagonal cost "
        "relative to that cost, both ends certified by cert.dual, widened by 1e-9 of the value); 4% 'diagonal cost at an offset' pairs judged the same way "
        "(exact diagonal points b == d and points of persistence 2^-13 or 1e-7..1e-13 of the offset, at offsets -5, -1e3, +-2^30, 2^40, 1e9, -1e6, "
        "+-2^20..2^40, +-1e3..1e12, against the empty diagram on either side, against themselves, against a reordering of themselves, against other "
        "diagonal points: the value is the sum of the (d-b)/sqrt 2 resp. exactly 0); whenever every point has b <= d the value must be >= 0 exactly; a global power-of-two scale 2^-40..2^40 (on top of the per-coordinate 2^-20..2^20 of the dyadic mode); non-trivial = both sides keep a finite "
        "point and there are >= 3 finite points in total; distinct by digest of the pair")
ASSUMPTIONS = [
    "diagrams are (n,2): births finite, deaths finite or +inf (dropped with a warning); the code and the model treat NaN / -inf deaths like +inf, "
    "but the statement says 'infinite death': such inputs are compared with the model only, never judged; extra columns and non-finite births are outside the model",
    "warning clause: SOME warning (any wording, any category) is raised during the call when a +inf death is present; no clause forbids other "
    "warnings; which of the code's two messages appeared is compared with the model's flags as correspondence only",
    "the Euclidean distances are np.sqrt(np.sum((S[:,None,:]-T[None,:,:])**2, axis=2)) — coordinate differences first (since /repo fix "
    "6c9bac1; sklearn's expanded formula |x|^2-2xy+|y|^2 is no longer used) — i.e. the model's sqrt(dx*dx+dy*dy) operation by operation; "
    "values are compared with tolerance min(1e-9*scale, 1e-9*|reference value| + 32*eps*rows*E) (scale = largest |coordinate| times the number "
    "of summed rows, E = the largest entry of the definition's cost matrix: a distance between a point of one diagram and a point of the other or a "
    "diagonal cost — invariant under translation; the second term is the room left to the assignment solver, whose potentials are sums and "
    "differences of entries).  Since the /repo fix of the diagonal cost ((d - b)/np.sqrt(2) from the coordinate difference: exact or correctly "
    "rounded, <= 3 eps of the entry) no term is relative to the coordinates, and where all selectable entries are 0 the value must be 0 exactly",
    "verdict on a disagreement (and on every 'large offset' pair): the value must ALSO lie in [min-sum(c - E), min-sum(c + E)] widened by 1e-9 of the "
    "value, c = the definition's cost matrix from exact rational coordinate differences, E = entrywise rounding bound of evaluating each entry in "
    "floating point from the given numbers (8 eps * |s - t| for a distance: differences of coordinates are formed first and a difference of nearby "
    "doubles is exact; 8 eps * (d - b)/sqrt 2 for a diagonal cost: d - b of two doubles is exact or correctly rounded).  Until the /repo fix of the diagonal cost "
    "that bound was 8 eps * max(|b|, |d|) and the floor of `tol_for` 32 eps * scale, because the rotation b*(-sin) + d*cos rounds at the size of the "
    "coordinates: wasserstein([[2^30, 2^30 + 2^-13]], []) was off by 1.4e-3 of its value, wasserstein([[-5, -5]], []) = -5.6e-16 and "
    "wasserstein([[-2^30, -2^30]], []) = -1.2e-7 (negative), and both allowances tolerated it",
    "whenever every finite point of both diagrams has b <= d the value is >= 0 EXACTLY (theorem wasserstein_eq_spec_of_le; in floating point every "
    "entry is >= 0 — fl(d - b) >= 0 for d >= b — and so is any sum of entries): a negative value is a failing input whatever its size",
    "inputs are converted with dtype=float (/repo fix dcbfa71), so the representation (list, float/integer array, Python ints) does not matter: "
    "the model is dtype-free and receives the same numbers as exact rationals",
    "np.sum agrees with the model's left fold up to rounding (inside the same tolerance); the diagonal-cost entries of code and model are the same "
    "IEEE operations (4 eps of the entry allowed in the matrix tie; bit-identical on the fixed tree)",
    "scipy.optimize.linear_sum_assignment returns a minimum-cost perfect assignment when a finite one exists: a PARAMETER of the "
    "theorem, not proved; every run certifies the optimum it is compared against with exact dual potentials checked in Lean",
    "exact-arithmetic idealisation: the theorems are over ordered fields / the reals with sqrt given by its algebraic contract",
]
TRUSTED = ["scipy.optimize.linear_sum_assignment (contract: minimum-cost perfect assignment; certified per run, not proved)",
           "np.sqrt (contract: correctly rounded sqrt)"]
TOL = 1e-9
# the theorems that carry clauses of the property statement; the other obligations are the steps they are proved from
# (aug_minsum_eq_pm, diag_cost_entry, placeholder_irrelevant, …), checker/solver facts (dual_cert_sound, exhLsa_contract, …)
# and restatements / instances
CORE_THEOREMS = ["PersimVerif.C02.wasserstein_eq_spec_dgm",     # value = min-sum matching cost of the finite parts, every size, every solver meeting the contract
                 "PersimVerif.C02.wasserstein_eq_spec_real",    # … at the reals with Real.sqrt: Euclid and (d-b)/sqrt 2
                 "PersimVerif.C02.inf_dropped"]                 # non-finite deaths dropped, flagged, without influence
EXH_MAX = 8          # M+N bound of the exhaustive model run (after the placeholder)
SPEC_MAX = 12        # |S|+|T| bound of the exhaustive specification


# ----------------------------------------------------------------------------- generation

def nonfinite(x):
    return isinstance(x, float) and not math.isfinite(x)


def finite_part(d):
    return [p for p in d if math.isfinite(p[1])]


INT_KINDS = {"int32": (-70000, 70000), "int16": (-300, 300), "uint8": (0, 255),
             "int64": (-3100000000, 3100000000), "pyint": (-3100000000, 3100000000)}


def gen_int_pair(ctx, nmax):
    """integer-valued diagrams handed over in an integer representation whose SQUARED coordinate differences leave the
    representation's range (int32 up to 7e4, int16 up to 300, uint8 up to 255 and negative differences, int64 / Python
    ints up to 3.1e9); the model is dtype-free and receives the same numbers as exact rationals"""
    r = ctx.rng
    kind = r.choice(["int32", "int32", "int16", "uint8", "uint8", "int64", "pyint"])
    lo, hi = INT_KINDS[kind]
    if r.random() < 0.25:
        lo, hi = max(lo, 0), min(hi, 9)                 # small values: ties, and no overflow anywhere
    out = []
    for _ in range(2):
        n = r.choice([0, 1, 1, 2, 3, r.randint(0, nmax)])
        pts = []
        for _ in range(n):
            if pts and r.random() < 0.2:
                pts.append(list(pts[r.randrange(len(pts))]))
            else:
                b, d = sorted((r.randint(lo, hi), r.randint(lo, hi)))
                pts.append([float(b), float(d if r.random() < 0.85 else b)])
        out.append(pts)
    if out[0] and r.random() < 0.3:
        out[1] = (out[1] + [list(p) for p in out[0] if r.random() < 0.5])[:max(nmax, 1)]
    kinds = [kind, kind] if r.random() < 0.8 else [kind, r.choice(["array", "list", "int64"])]
    ctx.count("gen:integer_representation")
    return {"dgm1": out[0], "dgm2": out[1], "kinds": kinds, "mode": "int", "scale_exp": 0, "eforms": [r.randint(0, 5), r.randint(0, 5)]}


def offset_family(ctx, base, k, mode, wide=False, paired=False):
    """`k` diagrams: `base` and successive tiny perturbations of it (spread delta), all translated along the
    diagonal by an offset T = 1e3..1e6 times the feature size, with delta/T around 1e-8: close points far from
    the origin, where an expanded-form distance |x|^2 - 2xy + |y|^2 cancels catastrophically.
    wide: T is a power of two 2^20..2^40 (time stamps, e.g. seconds near 2^30) or 1e3..1e9 feature sizes, and T/delta is
    log-uniform in 1e7..1e12 (values near 2^30 that differ by 1e-4: ratio 1e13/ulp-level 1e-3 of the difference) — the
    regime in which ANY arithmetic on the coordinates before their differences are formed (rotating, centring, scaling)
    rounds at ulp(T), i.e. at 1e-9..1e-4 of the differences.  paired: no point is dropped or added, so the diagrams have
    equal sizes and (for bars much longer than delta) the optimal matching pairs every point with its perturbed copy"""
    g, r = ctx.gen, ctx.rng
    feat = max([1.0] + [abs(x) for p in base for x in p])
    if wide:
        T = 2.0 ** r.randint(20, 40) if r.random() < 0.5 else feat * 10.0 ** r.uniform(3, 9)
        if r.random() < 0.5:
            T = float(round(T))
        delta = T / 10.0 ** r.uniform(7, 12)
    else:
        T = feat * 10.0 ** r.uniform(3, 6)
        if r.random() < 0.5:
            T = float(round(T))
        delta = T * 1e-8 * r.uniform(0.3, 3.0)
    fam = [[list(p) for p in base]]
    for _ in range(k - 1):
        nxt = []
        for p in fam[-1]:
            u = 0.5 if paired else r.random()
            if u < 0.08:
                continue
            b = p[0] + r.uniform(-1, 1) * delta
            d = p[1] + r.uniform(-1, 1) * delta
            nxt.append([b, max(b, d)])
            if u > 0.94:
                nxt.append(g.bar(mode, allow_diag=True))
        r.shuffle(nxt)
        fam.append(nxt)
    sg = r.choice([1.0, 1.0, -1.0])
    return [[[p[0] + sg * T, p[1] + sg * T] for p in d] for d in fam], T, delta


def gen_offset_pair(ctx, nmax):
    g, r = ctx.gen, ctx.rng
    mode = r.choice(["unif", "dec", "lattice", "half"])
    wide = r.random() < 0.6
    paired = wide and r.random() < 0.6
    base = g.diagram(max(1, nmax), mode, allow_diag=not paired, allow_empty=False, dup=0.2)
    (d1, d2), T, delta = offset_family(ctx, base, 2, mode, wide=wide, paired=paired)
    if r.random() < 0.5:
        d1, d2 = d2, d1
    ctx.count("gen:large_offset_tiny_spread")
    if wide:
        ctx.count("gen:large_offset_ratio_1e%d%s" % (int(math.floor(math.log10(abs(T) / delta))), "_paired" if paired else ""))
    return {"dgm1": d1, "dgm2": d2, "kinds": [r.choice(["list", "array"]), r.choice(["list", "array"])], "mode": "offset",
            "scale_exp": 0}


def gen_diag_pair(ctx, nmax):
    """diagonal costs far from the origin: a diagram whose points are EXACT diagonal points (b == d) and points of tiny
    persistence (d - b = 2^-13, or 1e-7..1e-13 of the offset) at a negative or huge offset (-5, -1e3, +-2^30, 2^40, 1e9,
    -1e6, 2^20..2^40, 1e3..1e12), against the empty diagram (either side, every accepted form), against itself, against a
    reordering of itself, or against another diagram of exact diagonal points elsewhere.  The specification value is the
    sum of the (d - b)/sqrt 2 (0 for diagonal points) resp. 0, and the value must lie in the rounding interval of it
    (mode 'offset'): evaluating a diagonal cost through ANY arithmetic on the coordinates before d - b is formed (the
    rotation by pi/4 the code used until the /repo fix of the diagonal cost) leaves eps * |offset| in each of them —
    a negative 'distance' for diagonal points, an error of 1e-3 of the value for [[2^30, 2^30 + 2^-13]]."""
    r = ctx.rng
    T = r.choice([-5.0, -5.0, -1e3, -2.0 ** 30, 2.0 ** 30, 2.0 ** 30, 2.0 ** 40, 1e9, -1e6, 2.0 ** r.randint(20, 40) * r.choice([1, -1]),
                  10.0 ** r.uniform(3, 12) * r.choice([1, -1])])
    spread = r.choice([0.0, 1.0, 1e-3, 100.0])
    all_diag = r.random() < 0.35
    n = r.choice([1, 1, 2, 3, r.randint(1, max(1, nmax))])
    pts = []
    for _ in range(n):
        b = T + r.uniform(-1, 1) * spread
        if all_diag or r.random() < 0.4:
            pts.append([b, b])
        else:
            tiny = r.choice([2.0 ** -13, abs(T) / 10.0 ** r.uniform(7, 13), abs(T) / 10.0 ** r.uniform(7, 13)])
            pts.append([b, max(b, b + tiny)])
    what = r.choice(["empty", "empty", "self", "reorder", "other_diagonal"])
    if what == "empty":
        other = []
    elif what == "self":
        other = [list(p) for p in pts]
    elif what == "reorder":
        other = [list(p) for p in pts]
        r.shuffle(other)
    else:
        other = [[x, x] for x in (T * r.choice([1.0, -1.0, 0.5]) + r.uniform(-1, 1) * spread for _ in range(r.randint(1, 3)))]
    d1, d2 = (pts, other) if r.random() < 0.5 else (other, pts)
    ctx.count("gen:diagonal_cost_at_offset")
    ctx.count("gen:diagonal_cost_at_offset:%s%s" % (what, "_all_diagonal" if all(p[0] == p[1] for p in pts) else ""))
    return {"dgm1": d1, "dgm2": d2, "kinds": [r.choice(["list", "array"]), r.choice(["list", "array"])], "mode": "offset",
            "scale_exp": 0, "eforms": [r.randint(0, 5), r.randint(0, 5)]}


def gen_pair(ctx, nmax):
    g, r = ctx.gen, ctx.rng
    u = r.random()
    if u < 0.08:
        return gen_int_pair(ctx, nmax)
    if u < 0.14:
        return gen_offset_pair(ctx, nmax)
    if u < 0.18:
        return gen_diag_pair(ctx, nmax)
    mode = r.choice(["lattice", "lattice", "half", "dyadic", "dec", "unif"])
    mode2 = mode if r.random() < 0.8 else g.mode()
    d1 = g.diagram(nmax, mode, allow_diag=True, dup=0.2)
    d2 = g.diagram(nmax, mode2, allow_diag=True, dup=0.2)
    if not d1 and r.random() < 0.6:      # keep empty inputs, but not a quarter of all cases
        d1 = g.diagram(nmax, mode, allow_diag=True, allow_empty=False, dup=0.2)
    if not d2 and r.random() < 0.6:
        d2 = g.diagram(nmax, mode2, allow_diag=True, allow_empty=False, dup=0.2)
    if r.random() < 0.03:
        d1 = []
    if r.random() < 0.03:
        d2 = []
    if d1 and r.random() < 0.15:         # same birth multiset and same death multiset, paired differently
        deaths = [p[1] for p in d1]
        r.shuffle(deaths)
        d2 = [[p[0], max(p[0], e)] for p, e in zip(d1, deaths)]
        if r.random() < 0.5:
            d2 = [[b, e] for b, e in zip(sorted(p[0] for p in d1), sorted((p[1] for p in d1), reverse=r.random() < 0.5))]
            d2 = [[b, max(b, e)] for b, e in d2]
        ctx.count("gen:coordinate_multisets_shared")
    elif d1 and r.random() < 0.15:       # a reordering / near-copy of the first diagram
        d2 = [list(p) for p in d1]
        r.shuffle(d2)
        if d2 and r.random() < 0.5:
            i = r.randrange(len(d2)); d2[i] = [d2[i][0], d2[i][1] + r.choice([0.5, 1.0, 0.125])]
        ctx.count("gen:reordered_copy")
    if d1 and r.random() < 0.3:          # points shared between the two diagrams (zero distances, ties)
        for _ in range(r.randint(1, 3)):
            if len(d2) < nmax:
                d2.insert(r.randint(0, len(d2)), list(r.choice(d1)))
    k = 0
    if r.random() < 0.35:
        k = r.choice([-40, -20, -20, -10, -3, 3, 10, 20, 20, 40])
        s = 2.0 ** k
        d1 = [[p[0] * s, p[1] * s] for p in d1]
        d2 = [[p[0] * s, p[1] * s] for p in d2]
    infs = 0
    if r.random() < 0.3:
        whole = r.random() < 0.15
        for d in (d1, d2):
            allof = whole and r.random() < 0.6
            for p in d:
                if allof or r.random() < 0.3:
                    p[1] = r.choice([math.inf] * 18 + [-math.inf, math.nan])
                    infs += 1
    kinds = [r.choice(["list", "array"]), r.choice(["list", "array"])]
    for i, d in enumerate((d1, d2)):            # integer-valued diagrams also travel as integer arrays / Python ints
        if r.random() < 0.5:
            ok = [kd for kd in INT_KINDS if kind_ok(d, kd)]
            if ok:
                kinds[i] = r.choice(ok) if i == 0 or kinds[0] not in ok or r.random() < 0.4 else kinds[0]
    return {"dgm1": d1, "dgm2": d2, "kinds": list(kinds), "mode": mode, "scale_exp": k, "eforms": [r.randint(0, 5), r.randint(0, 5)]}


INT_DTYPE_RANGE = {"int32": (-2 ** 31, 2 ** 31 - 1), "int16": (-2 ** 15, 2 ** 15 - 1), "uint8": (0, 255),
                   "int64": (-2 ** 52, 2 ** 52), "pyint": (-2 ** 52, 2 ** 52)}


def kind_ok(d, kind):
    """can `d` be handed over as `kind` without changing any number?"""
    if kind in ("list", "array"):
        return True
    lo, hi = INT_DTYPE_RANGE[kind]
    return all(math.isfinite(x) and x == math.floor(x) and lo <= x <= hi for p in d for x in p)


def as_arg(d, kind, eform=0):
    """the argument handed to the real function; the model never sees the representation.  An EMPTY diagram is written in
    every form the functions accept: [] / [[]] for the list kinds, np.zeros((0,2)) / np.array([]) / np.array([[]]) for
    the array kinds (`eform` selects; 0 = [] resp. a (0,2) array)"""
    if kind not in ("list", "array") and not kind_ok(d, kind):
        kind = "array"
    if not d:
        if kind in ("list", "pyint"):
            return [[], [[]]][eform % 2]
        dt = float if kind == "array" else getattr(np, kind)
        return [np.zeros((0, 2), dtype=dt), np.array([], dtype=dt), np.array([[]], dtype=dt)][eform % 3]
    if kind == "array":
        return np.array(d, dtype=float).reshape(-1, 2)
    if kind == "list":
        return [list(p) for p in d]
    if kind == "pyint":
        return [[int(x) for x in p] for p in d]
    return np.array(d, dtype=float).reshape(-1, 2).astype(getattr(np, kind))


def case_args(case):
    ef = case.get("eforms", [0, 0])
    return as_arg(case["dgm1"], case["kinds"][0], ef[0]), as_arg(case["dgm2"], case["kinds"][1], ef[1])


def run_code(case):
    """the real function: ('ok', value, warn1, warn2, anywarn) or ('err', kind, warn1, warn2, anywarn).  warn1/warn2: a
    warning naming dgm1/dgm2 was seen (compared with the MODEL's flags only — wording is not part of the property);
    anywarn: some warning, whatever its text or category, was raised during the call (what the statement asks for)"""
    ws = common.pm("wasserstein").wasserstein
    a1, a2 = case_args(case)
    with warnings.catch_warnings(record=True) as w:
        warnings.simplefilter("always")
        with np.errstate(all="ignore"):
            try:
                v = ws(a1, a2)
                st = "ok"
                v = float(v)
            except Exception as e:      # the code's own error kinds are part of its behaviour
                st, v = "err", type(e).__name__
    msgs = [str(x.message) for x in w]
    return st, v, any("dgm1" in m for m in msgs), any("dgm2" in m for m in msgs), len(w) > 0


class _OptProxy:
    """stands in for the `optimize` module inside persim.wasserstein: records every call of
       linear_sum_assignment (matrix, result) and forwards it unchanged"""

    def __init__(self, real, log):
        self._real, self._log = real, log

    def linear_sum_assignment(self, D, *a, **k):
        res = self._real.linear_sum_assignment(D, *a, **k)
        try:
            self._log.append((np.array(D, dtype=float, copy=True), [int(x) for x in res[0]], [int(x) for x in res[1]]))
        except Exception:
            pass
        return res

    def __getattr__(self, name):
        return getattr(self._real, name)


class lsa_recorder:
    """context manager: observe the solver calls of the real routine ([T] stream `lsa_contract`)"""

    def __init__(self):
        self.log = []

    def __enter__(self):
        self.mod = common.pm("wasserstein")
        self.real = getattr(self.mod, "optimize", None)
        if self.real is not None and hasattr(self.real, "linear_sum_assignment"):
            self.mod.optimize = _OptProxy(self.real, self.log)
        return self

    def __exit__(self, *a):
        if self.real is not None:
            self.mod.optimize = self.real


def scale_of(case):
    xs = [abs(x) for d in (case["dgm1"], case["dgm2"]) for p in d for x in p if math.isfinite(x)]
    m = max(xs) if xs else 0.0
    rows = max(1, len(finite_part(case["dgm1"]))) + max(1, len(finite_part(case["dgm2"])))
    return m * rows


EPS = 2.0 ** -52
ROUND = 32 * EPS      # per row: what the solver's own arithmetic on the ENTRIES may cost (see tol_for)


def entry_scale(case):
    """rows * the largest finite entry of the DEFINITION's cost matrix: distances between a point of one finite part and a
    point of the other, diagonal costs |d - b|/sqrt 2.  Invariant under translating both diagrams along the diagonal; 0
    when every point is a diagonal point and no point of one diagram is at a distance from a point of the other."""
    if "_entry_scale" in case:
        return case["_entry_scale"]
    S, T = finite_part(case["dgm1"]), finite_part(case["dgm2"])
    m = max([abs(p[1] - p[0]) / math.sqrt(2.0) for p in S + T] + [0.0])
    for p in S:
        for q in T:
            m = max(m, math.hypot(p[0] - q[0], p[1] - q[1]))
    case["_entry_scale"] = m * (max(1, len(S)) + max(1, len(T)))
    return case["_entry_scale"]


def tol_for(case, ref):
    """tolerance for comparing a Wasserstein value with the reference value `ref`: 1e-9 relative to the VALUE plus
    32*eps * rows * (largest entry of the definition's cost matrix) — the room left to the assignment solver, whose dual
    potentials are sums and differences of ENTRIES (a near-optimal assignment it may return instead of an optimal one is
    worse by that much at most), never more than the former 1e-9 * largest |coordinate| * rows.
    Nothing here is relative to the COORDINATES any more: every entry is computed from coordinate differences ((d - b)/sqrt 2
    since the /repo fix of the diagonal cost, which is exact or correctly rounded: error <= 3 eps of the entry), so a
    translation of both diagrams by 2^30 leaves the tolerance where it was, and where every entry that can be selected
    is 0 (diagonal points against the empty diagram, a diagram against itself) the value has to be 0 exactly.  Until
    that fix the floor was 32*eps * largest |coordinate| * rows — what the rotation by pi/4 left in each diagonal cost —
    and let wasserstein([[-5, -5]], []) = -5.6e-16 and [[2^30, 2^30 + 2^-13]] vs [] (off by 1.4e-3 of the value) pass."""
    scale = scale_of(case)
    ref = abs(float(ref))
    if not math.isfinite(ref):
        return TOL * scale
    return min(TOL * scale, TOL * ref + ROUND * entry_scale(case))


def agree(a, b, scale, case=None):
    """a: value under test, b: reference.  With `case` the tolerance is tol_for(case, b); without, 1e-9*scale"""
    a, b = float(a), float(b)
    if math.isnan(a) or math.isnan(b) or math.isinf(a) or math.isinf(b):
        return False
    if scale == 0.0:        # every coordinate is 0 (or both sides empty): every entry is 0 and so is the value, exactly
        return a == b
    if case is not None:
        return abs(a - b) <= tol_for(case, b)
    return abs(a - b) <= TOL * scale


# ----------------------------------------------------------------------------- matrix-level tie

def _exact_float(q):
    """the Fraction q is exactly a double"""
    try:
        return Fraction(float(q)) == q
    except OverflowError:
        return False


def matrix_tie(case, Dc, Dm, ctx=None):
    """the matrix the real routine handed to linear_sum_assignment against the model's `ws.matrix`, entry by entry:
    the same shape and the same infinity pattern exactly (the block layout is fixed by the code, not left free by the
    property); a distance entry must be THE correctly rounded sqrt whenever dx, dy, dx^2, dy^2 and their sum are exact
    in double precision (then every IEEE evaluation order gives the same bits) and zero entries must be zero; other
    distance entries within 1e-9 RELATIVE TO THE ENTRY (differences are formed before squaring), diagonal-cost entries
    within 4 eps OF THE ENTRY: code and model both evaluate (d - b) / sqrt(2) — one subtraction, one correctly rounded
    sqrt(2), one division, the same IEEE operations (on the fixed tree the two matrices are bit-identical; until the
    /repo fix of the diagonal cost the tolerance was 1e-9 * largest |coordinate| of the point, which the rotation
    needed).  -> None or a description of the first difference"""
    n = len(Dm)
    if getattr(Dc, "ndim", 0) != 2 or Dc.shape != (n, n):
        return "shape %r, model %dx%d" % (getattr(Dc, "shape", None), n, n)
    S, T = finite_part(case["dgm1"]) or [[0.0, 0.0]], finite_part(case["dgm2"]) or [[0.0, 0.0]]
    M, N = len(S), len(T)
    F = Fraction
    for i in range(n):
        rc, rm = Dc[i], Dm[i]
        for j in range(n):
            x, y = float(rc[j]), float(rm[j])
            if math.isinf(y) or math.isinf(x) or math.isnan(x):
                if not (x == y):
                    return "entry (%d,%d): code %r, model %r (the infinity pattern must be identical)" % (i, j, x, y)
                continue
            if x == y:
                continue
            if i < M and j < N:
                dx, dy = F(S[i][0]) - F(T[j][0]), F(S[i][1]) - F(T[j][1])
                if all(_exact_float(q) for q in (dx, dy, dx * dx, dy * dy, dx * dx + dy * dy)):
                    want = math.sqrt(float(dx * dx + dy * dy))
                    if ctx is not None:
                        ctx.count("matrix_tie:exact_entry_differs")
                    return ("entry (%d,%d): code %r, model %r, correctly rounded sqrt of the exactly representable "
                            "squared distance %r" % (i, j, x, y, want))
                # differences are formed first, so both evaluations carry a RELATIVE error of a few ulp of the entry
                # itself (not of the coordinates): 1e-9 relative to the entry, however far from the origin the points are
                if not abs(x - y) <= TOL * max(abs(y), 1e-300):
                    return "distance entry (%d,%d): code %r, model %r (relative tolerance 1e-9)" % (i, j, x, y)
                continue
            if i >= M and j >= N:
                return "entry (%d,%d) of the zero block: code %r" % (i, j, x)
            tol = 4 * EPS * abs(y)              # (d - b) / sqrt 2 on both sides: relative to the entry, 0 for a diagonal point
            if not abs(x - y) <= tol:
                return "diagonal-cost entry (%d,%d): code %r, model %r, tolerance %r" % (i, j, x, y, tol)
    return None


# ----------------------------------------------------------------------------- exact certificates

def to_int_matrix(Df):
    """finite float entries are dyadic rationals: scale all of them to integers by one power of two"""
    k = 0
    ratios = []
    for row in Df:
        rr = []
        for x in row:
            if isinstance(x, float) and math.isinf(x):
                rr.append(None)
            else:
                n, d = float(x).as_integer_ratio()
                e = d.bit_length() - 1
                k = max(k, e)
                rr.append((n, e))
        ratios.append(rr)
    W = [[None if t is None else t[0] << (k - t[1]) for t in rr] for rr in ratios]
    return W, k


def bf_potentials(W, cols):
    """exact dual potentials of the assignment `cols` by Bellman-Ford on the residual graph; None if a
       negative cycle exists (the hint is not exactly optimal)"""
    n = len(W)
    b = [0] * n
    sparse = [[(j, w) for j, w in enumerate(row) if w is not None] for row in W]
    for _ in range(n + 2):
        changed = False
        for i in range(n):
            s = cols[i]
            base = b[s] - W[i][s]
            for j, w in sparse[i]:
                cand = base + w
                if cand < b[j]:
                    b[j] = cand
                    changed = True
        if not changed:
            a = [W[i][cols[i]] - b[cols[i]] for i in range(n)]
            return a, b
    return None


def hungarian(W):
    """exact O(n^3) assignment with potentials (integers, None = +inf); returns cols, a, b"""
    n = len(W)
    u = [0] * (n + 1); v = [0] * (n + 1); p = [0] * (n + 1); way = [0] * (n + 1)
    for i in range(1, n + 1):
        p[0] = i
        j0 = 0
        minv = [None] * (n + 1)
        used = [False] * (n + 1)
        while True:
            used[j0] = True
            i0 = p[j0]
            delta = None
            j1 = -1
            row = W[i0 - 1]
            for j in range(1, n + 1):
                if not used[j]:
                    w = row[j - 1]
                    if w is not None:
                        cur = w - u[i0] - v[j]
                        if minv[j] is None or cur < minv[j]:
                            minv[j] = cur
                            way[j] = j0
                    if minv[j] is not None and (delta is None or minv[j] < delta):
                        delta = minv[j]
                        j1 = j
            if delta is None:
                raise HarnessError("exact Hungarian: no finite assignment")
            for j in range(n + 1):
                if used[j]:
                    u[p[j]] += delta
                    v[j] -= delta
                elif minv[j] is not None:
                    minv[j] -= delta
            j0 = j1
            if p[j0] == 0:
                break
        while True:
            j1 = way[j0]
            p[j0] = p[j1]
            j0 = j1
            if j0 == 0:
                break
    cols = [0] * n
    for j in range(1, n + 1):
        cols[p[j] - 1] = j - 1
    return cols, u[1:], v[1:]


def certificate(ctx, Df):
    """(protocol line for `cert.dual`, claimed optimum as Fraction) for a float matrix with inf entries"""
    from scipy.optimize import linear_sum_assignment
    n = len(Df)
    W, k = to_int_matrix(Df)
    cols = None
    try:
        _, c = linear_sum_assignment(np.array(Df, dtype=float))      # untrusted hint
        cols = [int(x) for x in c]
        if sorted(cols) != list(range(n)) or any(W[i][cols[i]] is None for i in range(n)):
            cols = None
    except ValueError:
        cols = None
    pot = bf_potentials(W, cols) if cols is not None else None
    if pot is None:
        if ctx is not None:
            ctx.count("cert:hint_not_exactly_optimal->exact_hungarian")
        cols, a, b = hungarian(W)
    else:
        if ctx is not None:
            ctx.count("cert:scipy_hint+bellman_ford")
        a, b = pot
    q = 1 << k
    mat = "[" + ",".join("[" + ",".join("inf" if w is None else enc(Fraction(w, q)) for w in row) + "]" for row in W) + "]"
    line = "cert.dual %s %s %s %s" % (mat, enc(cols), enc([Fraction(x, q) for x in a]), enc([Fraction(x, q) for x in b]))
    claimed = Fraction(sum(W[i][cols[i]] for i in range(n)), q)
    return line, claimed


def checked(ans, claimed):
    """the certified optimum from a `cert.dual` answer; a rejected certificate is a failure of this harness"""
    if not (isinstance(ans, list) and len(ans) == 2 and ans[0] is True):
        raise HarnessError("Lean rejected a dual certificate computed by the harness: %r" % (ans,))
    if ans[1] != claimed:
        raise HarnessError("certified optimum %r differs from the harness' exact cost %r" % (ans[1], claimed))
    return ans[1]


# ----------------------------------------------------------------------------- specification, independently

K_ENTRY = 8


def entry_matrices(S, T):
    """(D, E): the augmented matrix of the DEFINITION with every finite entry computed from the exact rational coordinate
    differences (Fractions; one correctly rounded conversion and one correctly rounded sqrt resp. one division by sqrt 2:
    relative error < 2 eps), and an entrywise bound E on the rounding error of evaluating that entry IN FLOATING POINT FROM
    THE GIVEN NUMBERS, each operation once:
      distance |s - t|:   K eps * |s - t|.  The differences of the coordinates are formed first; a difference of two doubles
                          is computed with relative error eps/2 (exactly, when they are within a factor 2 of each other), the
                          squares, their sum and the sqrt add 1.5 eps: relative to the ENTRY, however far from the origin;
      diagonal cost of p: K eps * cost.  (d - b)/sqrt 2: the difference of two doubles is exact or correctly rounded (eps/2 OF
                          THE DIFFERENCE), sqrt 2 and the division add eps: < 3 eps/2 relative to the ENTRY, however far
                          from the origin, and 0 for a diagonal point.  (Until the /repo fix of the diagonal cost the code
                          went through the rotation b*(-sin) + d*cos, cos(pi/4) and sin(pi/4) being two doubles one ulp
                          apart, which carries 2 eps * max(|b|, |d|); the bound here was K eps * max(|b|, |d|, cost) and
                          tolerated wasserstein([[-2^30, -2^30]], []) = -1.2e-7.)
    K = 8 leaves a factor 4-5 over those bounds."""
    F = Fraction
    M, N = len(S), len(T)
    r2 = math.sqrt(2.0)
    n = M + N
    D = [[0.0] * n for _ in range(n)]
    E = [[0.0] * n for _ in range(n)]
    for i in range(M):
        for j in range(N):
            dx, dy = F(S[i][0]) - F(T[j][0]), F(S[i][1]) - F(T[j][1])
            D[i][j] = math.sqrt(float(dx * dx + dy * dy))
            E[i][j] = K_ENTRY * EPS * D[i][j]
        for j in range(M):
            D[i][N + j] = float(F(S[i][1]) - F(S[i][0])) / r2 if i == j else math.inf
        E[i][N + i] = K_ENTRY * EPS * abs(D[i][N + i])
    for i in range(N):
        for j in range(N):
            D[M + i][j] = float(F(T[i][1]) - F(T[i][0])) / r2 if i == j else math.inf
        E[M + i][i] = K_ENTRY * EPS * abs(D[M + i][i])
    return D, E


def interval_certificates(case):
    """`cert.dual` lines and claimed optima for the two ends of the ROUNDING INTERVAL of the specification value:
    a value min_sigma c^(sigma) computed from entries c^ with |c^ - c| <= E entrywise lies in
    [min_sigma (c - E)(sigma), min_sigma (c + E)(sigma)], whichever near-optimal assignment the solver picks (for the
    placeholder of an empty side too: |t| >= (d - b)/sqrt 2).  -> None when both finite parts are empty"""
    S, T = finite_part(case["dgm1"]), finite_part(case["dgm2"])
    if not S and not T:
        return None
    D, E = entry_matrices(S, T)
    n = len(D)
    lo = certificate(None, [[D[i][j] - E[i][j] for j in range(n)] for i in range(n)])
    hi = certificate(None, [[D[i][j] + E[i][j] for j in range(n)] for i in range(n)])
    return lo, hi


def interval_from(case, ans_lo, ans_hi, certs):
    """(lo, hi): the certified optima of the matrices c - E and c + E, widened by 1e-9 RELATIVE TO THE VALUE — the
    tolerance every value comparison of this check uses (it also covers the rounding of the final sum, 2 eps * rows).
    Against `tol_for` this replaces the floor 32 eps * rows * (largest entry), which is granted whichever entries the
    optimal matching uses, by the error bound of the entries that are actually summed; where those are all 0 the interval
    is the single number 0"""
    lo = float(checked(ans_lo, certs[0][1]))
    hi = float(checked(ans_hi, certs[1][1]))
    w = TOL * max(abs(lo), abs(hi))
    return lo - w, hi + w


def rounding_interval(case):
    """the interval in which a floating-point evaluation of the min-sum matching cost of this input has to lie (see
    `entry_matrices`), both ends certified by Lean's `cert.dual`; None for two empty finite parts"""
    certs = interval_certificates(case)
    if certs is None:
        return None
    a = ask([certs[0][0], certs[1][0]])
    return interval_from(case, a[0], a[1], certs)


def in_interval(v, iv):
    return iv is None or (math.isfinite(v) and iv[0] <= v <= iv[1])


def oracle_small(S, T):
    """min over all partial matchings, straight from the definition (math.hypot, (d-b)/sqrt 2)"""
    r2 = math.sqrt(2.0)
    diag = lambda p: (p[1] - p[0]) / r2

    def go(i, rest):
        if i == len(S):
            return math.fsum(diag(T[j]) for j in rest)
        s = S[i]
        best = diag(s) + go(i + 1, rest)
        for j in rest:
            c = math.hypot(s[0] - T[j][0], s[1] - T[j][1]) + go(i + 1, tuple(x for x in rest if x != j))
            if c < best:
                best = c
        return best
    return go(0, tuple(range(len(T))))


def spec_matrix(S, T):
    """the augmented matrix of the *definition* (no placeholder, hypot, /sqrt 2), for the certified spec value"""
    M, N = len(S), len(T)
    r2 = math.sqrt(2.0)
    D = [[0.0] * (M + N) for _ in range(M + N)]
    for i in range(M):
        for j in range(N):
            D[i][j] = math.hypot(S[i][0] - T[j][0], S[i][1] - T[j][1])
        for j in range(M):
            D[i][N + j] = (S[i][1] - S[i][0]) / r2 if i == j else math.inf
    for i in range(N):
        for j in range(N):
            D[M + i][j] = (T[i][1] - T[i][0]) / r2 if i == j else math.inf
    return D


def spec_value(case):
    """value of the specification on the finite parts + the expected warnings; (value, warn1, warn2, how)"""
    S, T = finite_part(case["dgm1"]), finite_part(case["dgm2"])
    w1, w2 = len(S) < len(case["dgm1"]), len(T) < len(case["dgm2"])
    if len(S) + len(T) <= SPEC_MAX:
        py = oracle_small(S, T)
        ans = ask(["spec.ws %s %s" % (enc(case["dgm1"]), enc(case["dgm2"]))])[0]
        if not (isinstance(ans, list) and len(ans) == 1):
            raise HarnessError("spec.ws answered %r" % (ans,))
        if abs(float(ans[0]) - py) > 1e-9 * max(1e-300, scale_of(case)):
            raise HarnessError("the two evaluations of the specification differ: lean %r python %r" % (ans[0], py))
        how = "exhaustive enumeration of partial matchings (Lean spec.ws and Python agree)"
        if max(1, len(S)) + max(1, len(T)) <= EXH_MAX:
            # third opinion: the model with the exhaustive solver, which theorem `exhaustive_model_eq_spec` identifies with the specification
            e = ask(["ws.exh %s %s" % (enc(case["dgm1"]), enc(case["dgm2"]))])[0]
            if not (isinstance(e, list) and len(e) == 3) or abs(float(e[2]) - py) > 1e-9 * max(1e-300, scale_of(case)):
                raise HarnessError("proved evaluator ws.exh %r and the enumeration %r differ" % (e, py))
            how = "exhaustive enumeration of partial matchings (Lean spec.ws, Python and the proved evaluator ws.exh agree)"
        return py, w1, w2, how
    if not S and not T:
        return 0.0, w1, w2, "both empty"
    line, claimed = certificate(None, spec_matrix(S, T))
    val = checked(ask([line])[0], claimed)
    return float(val), w1, w2, "certified optimum (Lean cert.dual) of the matrix built from the definition"


def outside_quantifier(case):
    """NaN / -inf deaths or non-finite births: the statement speaks of finite points and of 'infinite death' only"""
    return any(not math.isfinite(p[0]) or math.isnan(p[1]) or p[1] == -math.inf for d in (case["dgm1"], case["dgm2"]) for p in d)


def proper(case):
    """every finite point has b <= d (what a persistence diagram is): all costs of the specification are >= 0"""
    return all(p[0] <= p[1] for d in (case["dgm1"], case["dgm2"]) for p in finite_part(d))


def wants_warning(case):
    return any(p[1] == math.inf for d in (case["dgm1"], case["dgm2"]) for p in d)


def cheap_verdict_fails(case, code, certified):
    """without evaluating the specification: could the property fail here?  (the certified optimum of the model's matrix
    IS the specification value by theorem wasserstein_eq_spec, up to rounding)"""
    if outside_quantifier(case):
        return False
    st, v = code[0], code[1]
    return st != "ok" or not agree(v, certified, scale_of(case), case) or (wants_warning(case) and not code[4]) \
        or (proper(case) and not v >= 0)


def property_fails(case, code):
    """does the *property* fail on the real code for this input?  (fails?, description).  Only for inputs inside the
    quantifier; the warning clause is 'some warning (any text, any category) when a +inf death is dropped'"""
    st, v = code[0], code[1]
    if outside_quantifier(case):
        return False, ("the input has a NaN / -inf death: outside 'finite points / infinite death', compared with the model "
                       "only (code: %r)" % (code[:4],))
    val, w1, w2, how = spec_value(case)
    if st != "ok":
        return True, "the code raised %s; specification value %r by %s" % (v, val, how)
    if wants_warning(case) and not code[4]:
        return True, "a point with infinite death was dropped without any warning (value %r, specification %r)" % (v, val)
    if proper(case) and not v >= 0:
        return True, ("code value %r is negative; every point of both diagrams has b <= d, so every cost is >= 0 and so is the "
                      "minimum over partial matchings: specification value %r by %s" % (v, val, how))
    if not agree(v, val, scale_of(case), case):
        return True, "code value %r, specification value %r by %s (tolerance %r)" % (v, val, how, tol_for(case, val))
    iv = rounding_interval(case)
    if not in_interval(v, iv):
        return True, ("code value %r, specification value %r by %s: off by %.3g of the value, outside the interval [%r, %r] = 1e-9 of the "
                      "value + what entrywise rounding of the cost matrix allows (%d eps relative to each distance, %d eps relative to "
                      "each diagonal cost; Lean cert.dual certified both ends)"
                      % (v, val, how, abs(v - val) / max(abs(val), 1e-300), iv[0], iv[1], K_ENTRY, K_ENTRY))
    return False, "code value %r equals the specification value %r (%s)" % (v, val, how)


# ----------------------------------------------------------------------------- the run

CORPUS = [
    {"dgm1": [], "dgm2": [], "kinds": ["list", "list"]},
    {"dgm1": [], "dgm2": [], "kinds": ["array", "list"]},
    {"dgm1": [[0.0, 1.0]], "dgm2": [], "kinds": ["list", "array"]},
    {"dgm1": [], "dgm2": [[2.0, 5.0], [2.0, 5.0]], "kinds": ["list", "list"]},
    {"dgm1": [[0.0, math.inf]], "dgm2": [[0.0, 1.0]], "kinds": ["list", "list"]},          # a side emptied by the filter
    {"dgm1": [[0.0, math.inf], [1.0, math.nan]], "dgm2": [[3.0, -math.inf]], "kinds": ["array", "array"]},
    {"dgm1": [[0.0, 1.0], [0.0, 1.0]], "dgm2": [[0.0, 1.0]], "kinds": ["list", "list"]},   # multiplicity
    {"dgm1": [[1.0, 1.0], [2.0, 2.0]], "dgm2": [[1.0, 1.0]], "kinds": ["list", "list"]},   # diagonal points
    {"dgm1": [[0.0, 2.0]], "dgm2": [[1.0, 3.0]], "kinds": ["list", "list"]},               # pair (sqrt 2) ties two diagonals
    {"dgm1": [[0.0, 4.0], [1.0, 2.0]], "dgm2": [[0.0, 4.5], [10.0, 10.5]], "kinds": ["list", "list"]},
    {"dgm1": [[0.0, 3.0 * 2.0 ** 20]], "dgm2": [[2.0 ** -20, 2.0 ** -19]], "kinds": ["list", "list"]},
    {"dgm1": [[-3.0, -1.0], [-2.0, 5.0]], "dgm2": [[-2.5, -1.0]], "kinds": ["list", "list"]},  # negative coordinates
    # diagonal costs far from the origin (mode 'offset': judged by the rounding interval of the specification value)
    {"dgm1": [[-5.0, -5.0]], "dgm2": [], "kinds": ["list", "list"], "mode": "offset"},       # a diagonal point vs empty: 0
    {"dgm1": [[-2.0 ** 30, -2.0 ** 30]], "dgm2": [[-2.0 ** 30, -2.0 ** 30]], "kinds": ["list", "list"], "mode": "offset"},
    {"dgm1": [[2.0 ** 30, 2.0 ** 30 + 2.0 ** -13]], "dgm2": [], "kinds": ["array", "list"], "mode": "offset"},   # 2^-13/sqrt 2
    {"dgm1": [], "dgm2": [[1e9, 1e9], [1e9 + 1.0, 1e9 + 1.0 + 2.0 ** -20]], "kinds": ["list", "array"], "mode": "offset"},
    # an empty diagram in every form the function accepts: [], [[]], np.zeros((0,2)), np.array([]), np.array([[]])
    {"dgm1": [], "dgm2": [[0.0, 2.0]], "kinds": ["list", "list"], "eforms": [1, 0]},
    {"dgm1": [[1.0, 4.0]], "dgm2": [], "kinds": ["array", "array"], "eforms": [0, 1]},
    {"dgm1": [], "dgm2": [[1.0, 4.0], [2.0, 2.0]], "kinds": ["array", "array"], "eforms": [2, 0]},
    {"dgm1": [], "dgm2": [], "kinds": ["array", "list"], "eforms": [2, 1]},
    {"dgm1": [], "dgm2": [], "kinds": ["array", "array"], "eforms": [1, 2]},
]


def sizes_of(case):
    S, T = finite_part(case["dgm1"]), finite_part(case["dgm2"])
    return len(S), len(T), max(1, len(S)), max(1, len(T))


ANCHOR = "persim/wasserstein.py"
ANCHOR_DIGEST = "0f8d09801cb15803"       # structural digest of `wasserstein` the model mirrors (after /repo fixes 6c9bac1: distances from
                                         # coordinate differences, dcbfa71: inputs converted with dtype=float, a50c928: diagonal cost
                                         # (d - b)/np.sqrt(2) from the coordinate difference instead of the rotation by pi/4)


# source translator (DESIGN.md 3.2): part of the model is regenerated from the source text on every run
TRUSTED = list(TRUSTED) + [py2lean.trusted_note("wasserstein"), py2lean.trusted_note("wasserstein_assign")]
PROP_FILES = ["PersimVerif/Props/C02.lean"] + py2lean.prop_files("wasserstein") + py2lean.prop_files("wasserstein_assign")


def pre_build(ctx):
    """source translator: regenerate Generated/Src*.lean from PERSIM_ROOT's source"""
    py2lean.pre_build(ctx, ("wasserstein", "wasserstein_assign"))



DEFAULT_FILTER_STMT = 'persim.wasserstein(np.array([[0.0, 1.0], [0.0, np.inf]]), np.array([[0.0, 2.0]]))'


def default_filter_probe(ctx):
    """[T] the clause `dropped / handled WITH A WARNING` as the caller experiences it: in a fresh interpreter under Python's
    own warning filters (our other streams record with simplefilter("always"), which would hide a filter that `import
    persim` installs), the call must deliver a warning"""
    for prelude in (None, common.WARN_PRELUDE):          # alone, and after other public persim calls in the same process
        res = common.warnings_under_default_filters(DEFAULT_FILTER_STMT, prelude)
        if res is None:
            ctx.count("default_filter_probe:not_run")
            continue
        ctx.test("warning_reaches_caller_under_default_filters", res[0] >= 1)
        if res[0] < 1:
            ctx.violation("no warning reaches the caller under the interpreter's default warning filters%s for: %s"
                          % (" after other persim calls in the same process" if prelude else "", DEFAULT_FILTER_STMT),
                          {"op": "default_filter_probe", "stmt": DEFAULT_FILTER_STMT, "prelude": prelude}, found_input=True)
            return

def run(ctx):
    py2lean.report_broken(ctx, PROP_FILES)
    default_filter_probe(ctx)
    ctx.extra["core_theorems"] = CORE_THEOREMS
    cases = [dict(c) for c in CORPUS]
    digest = common.source_digest(ANCHOR, ["wasserstein"])
    ctx.extra["anchor_digest"] = {"file": ANCHOR, "now": digest, "modelled": ANCHOR_DIGEST}
    boost = 1
    if digest != ANCHOR_DIGEST:         # rewritten code is explored harder (DESIGN.md 3.2); not a violation
        ctx.count("anchor_changed_budget_x3")
        boost = 3
    n_small = ctx.n(3000, 36000) * boost
    n_mid = ctx.n(150, 6000) * boost
    n_big = ctx.n(15, 1200) * boost
    cases += [gen_pair(ctx, 7) for _ in range(n_small)]
    cases += [gen_pair(ctx, 16) for _ in range(n_mid)]
    cases += [gen_pair(ctx, 40) for _ in range(n_big)]

    # 1. the real code first (line coverage of the anchored file measured on a slice)
    ncov = min(len(cases), 300)
    codes, observed = [], []
    with lsa_recorder() as rec:
        def one(c):
            n0 = len(rec.log)
            codes.append(run_code(c))
            observed.append(rec.log[n0:])
        with common.LineCov([ANCHOR]) as cov:
            for c in cases[:ncov]:
                one(c)
        ctx.extra["anchored_line_coverage"] = cov.summary()
        for c in cases[ncov:]:
            one(c)

    # 2. the model: its matrix at every size, its exhaustive value where small
    lines, slots = [], []
    for c in cases:
        _, _, M, N = sizes_of(c)
        a, b = enc(c["dgm1"]), enc(c["dgm2"])
        slot = {"matrix": len(lines)}
        lines.append("ws.matrix %s %s" % (a, b))
        if M + N <= EXH_MAX:
            slot["exh"] = len(lines)
            lines.append("ws.exh %s %s" % (a, b))
        slots.append(slot)
    answers = ask(lines)

    # 3. certificates for the model's matrices, verified by Lean
    cert_lines, claims = [], []
    for c, slot in zip(cases, slots):
        ans = answers[slot["matrix"]]
        if not (isinstance(ans, list) and len(ans) == 3):
            raise HarnessError("ws.matrix answered %r" % (ans,))
        Df = [[float(x) for x in row] for row in ans[2]]
        line, claimed = certificate(ctx, Df)
        cert_lines.append(line)
        claims.append(claimed)
    # 3b. [T] lsa_contract: the optimum of every matrix the real routine handed to scipy, certified the same way
    obs_slots = []
    for obs in observed:
        sl = []
        for (Dc, ri, ci) in obs:
            if Dc.ndim == 2 and Dc.shape[0] == Dc.shape[1] and Dc.shape[0] > 0 and not np.isnan(Dc).any() \
                    and not np.isneginf(Dc).any():
                try:
                    line, claimed = certificate(None, Dc.tolist())
                except HarnessError:
                    continue                      # no finite assignment: outside the contract
                sl.append((len(cert_lines), claimed, Dc, ri, ci))
                cert_lines.append(line)
        obs_slots.append(sl)
    # 3c. large-offset pairs: the rounding interval of the specification value (entry_matrices), certified the same way
    iv_slots = {}
    for k, c in enumerate(cases):
        if c.get("mode") == "offset" and not outside_quantifier(c):
            certs = interval_certificates(c)
            if certs is not None:
                iv_slots[k] = (len(cert_lines), certs)
                cert_lines += [certs[0][0], certs[1][0]]
    cert_answers = ask(cert_lines)

    # 4. compare
    deferred = []
    capped = False
    for kc, (c, code, slot, cans, claimed, obs, raw) in enumerate(zip(cases, codes, slots, cert_answers, claims, obs_slots, observed)):
        m, n, M, N = sizes_of(c)
        ans = answers[slot["matrix"]]
        model_w = (ans[0], ans[1])
        certified = checked(cans, claimed)
        st, v, c1, c2 = code[:4]
        scale = scale_of(c)
        nontriv = m >= 1 and n >= 1 and m + n >= 3
        ctx.case({"op": "wasserstein", "dgm1": c["dgm1"], "dgm2": c["dgm2"], "kinds": c["kinds"]}, nontriv, sample_every=53)
        ctx.count("size:%s" % ("0-8" if M + N <= 8 else "9-14" if M + N <= 14 else "15-32" if M + N <= 32 else "33-80"))
        if m == 0 or n == 0:
            ctx.count("empty_side_after_filter")
        if len(c["dgm1"]) == 0 or len(c["dgm2"]) == 0:
            ctx.count("empty_input")
        if m < len(c["dgm1"]) or n < len(c["dgm2"]):
            ctx.count("nonfinite_death")
        if any(p[0] == p[1] for d in (c["dgm1"], c["dgm2"]) for p in d):
            ctx.count("diagonal_point")
        for d in (finite_part(c["dgm1"]), finite_part(c["dgm2"])):
            if len({tuple(p) for p in d}) < len(d):
                ctx.count("repeated_point")
                break
        if c.get("scale_exp"):
            ctx.count("scaled:2^%d" % c["scale_exp"])
        problems = []
        if st != "ok":
            problems.append(("value", "code raised %s" % v, "model certified optimum %s" % float(certified)))
        else:
            if proper(c) and not outside_quantifier(c):
                ctx.test("value_nonnegative(b <= d everywhere)", v >= 0)
                if not v >= 0:
                    problems.append(("sign", v, "every cost is >= 0; model certified optimum %s" % float(certified)))
            if not agree(v, certified, scale, c):
                problems.append(("ws.matrix+cert.dual", v, float(certified)))
            if "exh" in slot:
                ctx.count("exhaustive_compared")
                e = answers[slot["exh"]]
                if not (isinstance(e, list) and len(e) == 3):
                    raise HarnessError("ws.exh answered %r" % (e,))
                if (e[0], e[1]) != model_w:
                    raise HarnessError("ws.exh and ws.matrix disagree on the warning flags")
                if not agree(float(e[2]), certified, scale):
                    raise HarnessError("model: exhaustive optimum %r differs from certified optimum %r" % (e[2], certified))
                if not agree(v, float(e[2]), scale, c):
                    problems.append(("ws.exh", v, float(e[2])))
        interval_bad = False
        if kc in iv_slots and st == "ok":
            pos, certs = iv_slots[kc]
            iv = interval_from(c, cert_answers[pos], cert_answers[pos + 1], certs)
            interval_bad = not in_interval(v, iv)
            ctx.test("large_offset:value_within_entrywise_rounding_interval", not interval_bad)
            if interval_bad:
                problems.append(("entrywise rounding interval of the specification value", v, list(iv)))
        if (c1, c2) != model_w:
            problems.append(("warnings", [c1, c2], list(model_w)))
        if not obs:
            ctx.count("lsa_call_not_observed")
        if len(raw) == 1:
            Dm = [[float(x) for x in row] for row in ans[2]]
            diff = matrix_tie(c, raw[0][0], Dm, ctx)
            ctx.count("matrix_tie:compared")
            if not diff and np.array_equal(raw[0][0], np.array(Dm, dtype=float)):
                ctx.count("matrix_tie:bit_identical")
            if diff:
                problems.append(("ws.matrix entries", diff, "model matrix %dx%d" % (len(Dm), len(Dm))))
        elif raw:
            ctx.count("matrix_tie:several_lsa_calls")
        for (k, oclaimed, Dc, ri, ci) in obs:
            opt = checked(cert_answers[k], oclaimed)
            nn = Dc.shape[0]
            okc = ri == list(range(nn)) and sorted(ci) == list(range(nn)) and all(math.isfinite(Dc[i, ci[i]]) for i in range(nn))
            if okc:
                got = sum(Fraction(float(Dc[i, ci[i]])) for i in range(nn))
                if got == opt:
                    ctx.count("lsa_contract:exactly_optimal")
                else:
                    ctx.count("lsa_contract:optimal_up_to_rounding")
                okc = got >= opt and float(got - opt) <= 1e-9 * max(scale, float(opt))
            ctx.test("lsa_contract", okc)
            if not okc:
                problems.append(("lsa_contract", "assignment returned by scipy: rows %r cols %r" % (ri, ci), "certified optimum %s" % float(opt)))
        if outside_quantifier(c):
            ctx.count("nan_or_neginf_death(model comparison only)")
        if problems and capped and not interval_bad and not cheap_verdict_fails(c, code, certified):
            # after the cap on specification evaluations: the value equals the certified optimum of the model's matrix
            # (= the specification value by theorem), so the property holds here; go on to the remaining, larger, cases
            ctx.count("correspondence_break_after_cap(value = certified optimum)")
            problems = []
        if problems:
            fails, why = property_fails(c, code)
            op, cv, mv = problems[0]
            rcase = {"dgm1": c["dgm1"], "dgm2": c["dgm2"], "kinds": c["kinds"]}
            if c.get("eforms") and (not c["dgm1"] or not c["dgm2"]):
                rcase["eforms"] = c["eforms"]
            if fails:
                ctx.violation("wasserstein is not the min-sum matching cost / warning contract: " + why, rcase, found_input=True,
                              code=[st, v, c1, c2], model={"certified_optimum": float(certified), "warnings": list(model_w)},
                              reproduce="from numpy import *; import persim; persim.wasserstein(%r, %r)" % case_args(c))
            else:
                # a correspondence break on an input where the property holds: keep looking for a failing input among
                # the remaining cases (DESIGN 3.3); reported as `no-failing-input-found` only if none turns up
                ctx.count("correspondence_break_property_holds")
                if len(deferred) < 3:
                    deferred.append(("code and model disagree (%s: code %s, model %s) but the property holds on this input: %s"
                                     % (op, str(cv)[:300], str(mv)[:120], why),
                                     {"correspondence": op, "line": lines[slot["matrix"]][:2000], "code": cv, "model": mv, "input": rcase}))
            if len(ctx.violations) > 5:
                break
            if ctx.counters.get("correspondence_break_property_holds", 0) >= 150:
                # each evaluation of the specification costs driver calls: from here on it is evaluated only where the
                # value/raise/warning verdict is in doubt (cheap_verdict_fails) — the search does NOT stop, the cases
                # of 9-80 points come last
                capped = True
    large_closed_form(ctx)
    if deferred and not any(found for _, found in ctx.violations):
        for what, rec_ in deferred:
            ctx.violation(what, rec_, found_input=False)
    ctx.extra["tolerance"] = ("large-offset pairs and every verdict on a disagreement: 1e-9 of the value + the entrywise rounding interval (8 eps per distance "
                              "entry relative to the entry, 8 eps per diagonal cost relative to that cost; cert.dual certified); "
                              "value: min(1e-9 * (largest |coordinate|) * (rows of the augmented matrix), 1e-9*|reference| + 32*eps*(largest entry of the definition's cost matrix)*rows), "
                              ">= 0 exactly when b <= d everywhere; matrix entries: distance entries exact "
                              "where the arithmetic is exact, else 1e-9 relative to the entry; diagonal-cost entries 4 eps of the entry")


def large_closed_form(ctx):
    """[T] sizes far beyond the certified range (1000-2500 points), where the specification value is known in closed form:
    against the empty diagram (either order) the minimum over partial matchings is the total diagonal cost sum (d-b)/sqrt2, and
    against a reordering of itself it is 0.  Catches size-threshold slips (blocked computations that lose a remainder block)."""
    if len(ctx.violations) > 5:
        return
    ws = common.pm("wasserstein").wasserstein
    r = ctx.rng
    for n in ([1100, 2053] if not ctx.thorough else [1025, 1100, 2049, 2500, 4100]):
        pts = [[float(r.randint(0, 400)) / 4.0, 0.0] for _ in range(n)]
        for p in pts:
            p[1] = p[0] + float(r.randint(1, 200)) / 4.0
        A = np.array(pts, dtype=float)
        want = float(np.sum(A[:, 1] - A[:, 0]) / math.sqrt(2.0))
        empty = np.zeros((0, 2))
        perm = A[np.random.RandomState(r.randint(0, 2 ** 31 - 1)).permutation(n)]
        import warnings
        with warnings.catch_warnings():
            warnings.simplefilter("ignore")
            got = [("large vs empty", float(ws(A, empty)), want), ("empty vs large", float(ws(empty, A)), want),
                   ("large vs its reordering", float(ws(A, perm)), 0.0)]
        for what, v, w in got:
            # against the empty diagram: n diagonal costs, each within 2 eps of (d - b)/sqrt 2, summed (n eps): 1e-9 of the
            # VALUE; against its reordering: every point has a copy at distance exactly 0, and the fixed tree returns exactly
            # 0 (the solver finds the zero assignment: all its comparisons are between entries >= 0 and the zeros); the room
            # left is 32 eps * n * the largest entry (tol_for's room for the solver), 1e-9 * 150 * n before
            ctol = 1e-9 * w if w else ROUND * n * 150.0
            ok = math.isfinite(v) and abs(v - w) <= ctol and v >= 0
            ctx.test("closed_form_large(real code)", ok)
            ctx.count("large_closed_form:n=%d" % n)
            if not ok:
                ctx.violation("wasserstein of a %d-point diagram (%s) is %r, the minimum over partial matchings is %r" % (n, what, v, w),
                              {"dgm1": pts if what != "empty vs large" else [], "dgm2": [] if what == "large vs empty" else (pts if what == "empty vs large" else perm.tolist()),
                               "kinds": ["array", "array"], "mode": "dyadic", "scale_exp": 0, "closed_form": w,
                               "closed_form_tol": ctol}, found_input=True)
                return


def _parse_dgm(d):
    return [[float(x) for x in p] for p in d]


def replay(ctx, rep):
    if rep["case"].get("op") == "default_filter_probe":
        res = common.warnings_under_default_filters(rep["case"]["stmt"], rep["case"].get("prelude"))
        print("warnings delivered under default filters:", res)
        return res is None or res[0] >= 1
    c = rep["case"]
    if "input" in c:
        c = c["input"]
    if "dgm1" not in c:
        print("nothing to replay on the real code (proof obligation / correspondence record)")
        return True
    case = {"dgm1": _parse_dgm(c["dgm1"]), "dgm2": _parse_dgm(c["dgm2"]), "kinds": c.get("kinds", ["list", "list"]),
            "eforms": c.get("eforms", [0, 0])}
    code = run_code(case)
    if "closed_form" in c:
        # a `large_closed_form` record (1000+ points): the specification value is known in closed form and stored —
        # no 2000x2000 exact assignment is solved here
        want = float(c["closed_form"])
        tol = float(c.get("closed_form_tol", 1e-9 * 150.0 * max(len(case["dgm1"]), len(case["dgm2"]), 1)))
        ok = code[0] == "ok" and math.isfinite(code[1]) and abs(code[1] - want) <= tol
        print("code:", code[:2], "\nclosed-form minimum over partial matchings: %r (tolerance %r)" % (want, tol))
        return ok
    fails, why = property_fails(case, code)
    print("code:", code, "\n" + why)
    return not fails


MANIFEST = {
    "text": "Proof (23 theorems, of which 3 are the core statements: wasserstein_eq_spec_dgm, wasserstein_eq_spec_real, inf_dropped; the "
            "rest are the steps they are proved from, checker/solver facts, restatements and instances): Lean theorems about the line-by-line model of persim.wasserstein.wasserstein over every ordered field (and at the "
            "reals with Real.sqrt): the augmented (M+N)x(M+N) matrix has the same minimum over perfect assignments as the "
            "sum cost has over all partial matchings (explicit map partial matching <-> finite perfect assignment; the zero block "
            "contributes 0), the diagonal entries are (d-b)/sqrt 2 as written (diag_cost_entry, augEntry_diag; since the /repo fix of the diagonal cost there "
            "is no rotation and no cos(pi/4) parameter any more), the (0,0) placeholder of an empty side never changes the "
            "minimum, points with non-finite death are dropped and flagged, hence for diagrams of every size, multiplicity and scale the "
            "returned value is the min-sum matching cost (wasserstein_eq_spec) - for EVERY assignment solver meeting the contract "
            "'returns a minimum-cost perfect assignment when a finite one exists'. scipy.optimize.linear_sum_assignment's optimality is "
            "that parameter of the theorem: it is not proved, it is certified on every run - the value of the real code is compared with "
            "an optimum certified by exact rational dual potentials that a Lean-proved checker (dual_cert_sound/dualCheck_sound, weak "
            "duality) accepts, and with the model's exhaustive optimum when M+N<=8 (the exhaustive solver is itself proved to meet the "
            "contract, exhLsa_contract, so that value is the specification's by theorem). sqrt is a parameter with "
            "its algebraic contract (sqrt x >= 0, sqrt x * sqrt x = x for x >= 0), instantiated at the reals. The tie also "
            "compares the matrix the real routine hands to scipy ENTRY BY ENTRY with the model's (same infinity pattern; distance entries exact "
            "where the arithmetic is exact, else 1e-9 relative to the entry; diagonal-cost entries 4 eps of the entry), and feeds the arguments in every representation (lists, float and "
            "int32/int16/uint8/int64 arrays, Python ints) — the model is dtype-free.",
    "note": "Trusted: Lean kernel + Mathlib (axioms propext/Classical.choice/Quot.sound); the correspondence harness; scipy's "
            "linear_sum_assignment contract (certified per run, not proved); np.sqrt of the summed squared coordinate differences = "
            "Euclidean distance up to rounding (tolerance 1e-9*scale, and never more than 1e-9*|value| + 32 eps*rows*largest entry of the definition's cost matrix - nothing "
            "relative to the coordinates; a value < 0 on diagrams with b <= d is a failing input; for a failing input, and on every "
            "'large offset, tiny spread' and 'diagonal cost at an offset' pair - offsets up to 2^40, offset/difference ratios 1e7..1e13, exact diagonal points at -5..2^40 "
            "against empty / themselves - additionally 1e-9*|value| + the entrywise rounding "
            "interval [min-sum(c-E), min-sum(c+E)], E = 8 eps relative to each distance entry resp. each diagonal cost, both "
            "ends certified by cert.dual; the matrix handed to scipy is compared ENTRY BY ENTRY with the "
            "model's: same infinity pattern, exact where the arithmetic is exact); IEEE rounding is outside the theorems. [T] lsa_contract: every "
            "matrix the real routine hands to scipy is observed in-process and the assignment scipy returned is compared with that "
            "matrix's optimum, certified by the same Lean-checked dual certificate. A failing input is claimed only inside the statement's "
            "quantifier (finite births, deaths finite or +inf): the call returns, the value is within tolerance of the specification value and "
            "SOME warning is raised when a +inf death is dropped; warning wording and NaN/-inf deaths are compared with the model only.",
    "technique": "Lean 4 theorems over a hand-written model with the solver as a contract parameter + differential correspondence "
                 "with Lean-verified dual certificates",
}
MANIFEST["note"] += " " + py2lean.manifest_note("wasserstein") + " " + py2lean.manifest_note("wasserstein_assign")
