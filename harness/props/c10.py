"""C10 — landscape p-norms and sup-norm equal the integrals they name.

Theorems: lean/PersimVerif/Props/C10.lean about the model lean/PersimVerif/Model/PNorm.lean at the reals
(natural p: `pNormPow p cps = sum over depths of the integral of |evalPL|^p`, `supNorm = max |value|`).
Tie: `_p_norm`, `PersLandscapeExact.p_norm/sup_norm`, `PersLandscapeApprox.p_norm/sup_norm` of the real
code vs the same model executed at Rat (natural p, exact p-th power) and at Float (real p), on landscapes
of generated diagrams, their differences and random linear combinations, and on synthetic piecewise-linear
functions.  [T] on the real code: real p, homogeneity, ||P-P|| = 0, triangle inequality, finiteness, sup-norm
stability vs `persim.bottleneck`, and an independent quadrature oracle (scipy.integrate.quad with breakpoints).
(Homogeneity, P-P, the triangle inequality, stability and real p are also theorems over the reals; what only the
tests cover is float rounding.)
"""
import contextlib, io, math
from fractions import Fraction
import numpy as np
from .. import common
from ..translator import py2lean
from .. import corethm
from ..common import enc, ask, call

LEVEL = "proof"
TRUSTED = [py2lean.trusted_note("pnorm")]
PROP_FILES = ["PersimVerif/Props/C10.lean", py2lean.prop_file("pnorm")]
# the bottleneck clause about what the MODELS return (C10 o C09 o C03 against C01)
PROP_FILES += ["PersimVerif/Props/C10Model.lean"]
# landscape engine (py2lean_landscape.py): p_norm / sup_norm of both classes, base.p_norm, values_to_pairs, _p_norm around its region
PROP_FILES += [f for f in py2lean.prop_files("plnorm") if f not in PROP_FILES]
RULE = ("landscapes built by the real classes from generated diagrams (1-7 bars, one family in twelve 8-30 bars, thorough 8-50; "
        "lattice/half/eighth/decimal/uniform "
        "coordinates, whole diagram rescaled by 2^k, k in {-40,-30,-20,-3,0,3,20,30}; duplicates 15%; diagonal bars in a flagged "
        "sub-stream) as single / negated / difference / P-P / random linear combinations of 2-3 landscapes (exact and "
        "grid, 5-40 grid nodes), plus synthetic piecewise-linear functions with forced zeros and equal neighbours fed "
        "to _p_norm directly; every natural p in 1..20 and real p in [1,20]; a malformed stream (p<0, p=0, p=-1, "
        "0<p<1, vertical segments, empty landscapes); grid landscapes on which no bar is visible (bars shorter than a step: one zero "
        "row); depths of C09's class that are not strictly increasing (repeated points, [[b,0],[b,0],[b,0]], single points); a "
        "large-exponent stream (integer and real p up to 100, scales 2^-21..2^21); non-trivial = the function has a sign-crossing or negative "
        "segment or at least two depths; distinct by digest of (operation, p, critical pairs)")
ASSUMPTIONS = ["critical pairs / grid values are finite floats (no NaN/inf inside a landscape)",
               "np.linspace(start, stop, num_steps) is passed to the model as data (its contract belongs to C08)",
               "natural p: code and Rat model are compared on the p-th power with 1e-9 relative tolerance; sign-crossing "
               "segments add the first-order rounding bound of the code's slope*x+b recomputation (8 eps (|slope x|+|y|) "
               "on each end value); cases where that bound exceeds 1e-9 relative are counted as ill_conditioned",
               "real p: np.float64 ** float is C pow, as Float.pow in the model",
               "stability stream: evaluated on every case; a failure is attributed to the known C03 finding (counted, KNOWN-FINDING "
               "line) BY CONTENT only: each of P1, P2 is the tent-definition landscape or exactly the Lean model's output of the sweep "
               "with the repeated-bar shortcut (at least one the latter), the code's sup norm of P1 - P2 equals the sup of the "
               "difference of the functions P1 and P2 represent, and the definition's landscapes satisfy the clause for the code's "
               "bottleneck value; the guarded trace is read for P1 and P2 only and merely counted; any other failure is a violation",
               "large exponents: p_norm is tested for integer and real p up to 100 at scales 2^-21..2^21 against an independent "
               "oracle (the critical pairs rescaled by powers of two to unit size, adaptive quadrature of |f|^p per segment, the norm "
               "assembled in the log domain; 1e-6 relative); a failure is the known over/underflow finding only in its listed modes: "
               "exactly inf (exponent p*log2(max|value|)+log2(width) > 900), exactly 0.0 (exponent < -900), or - gradual underflow, "
               "which the unchanged tree shows between about -1055 and -1074 - a positive value whose deviation is within what "
               "rounding the p-th power to multiples of 2^-1074 explains; NaN, negative, off by more, or a raise are violations",
               "a norm that raises on a valid landscape with p >= 1 is a failing input; a private helper (_p_norm) that raises under "
               "the harness's call convention is re-evaluated through the public p_norm first; a law case whose landscapes / "
               "differences / bottleneck distance cannot be built is reported as no-failing-input-found (never exit 2)"]
TRUSTED = ["the compiled driver executable is trusted as compiled by Lean's compiler, not checked by the kernel",
           "the guarded trace persim.landscapes.exact._VERIF_TRACE is only counted (for P1 and P2); a failing stability case is attributed to "
           "the known repeated-bar shortcut by content (harness/props/c03.py oracle + the Lean model of the sweep)"]
TRUSTED += [py2lean.trusted_note("pnorm"), py2lean.trusted_note("plnorm")]      # the source translators (DESIGN.md 3.2)
# theorems of Props/C10.lean that carry a clause of the property (closed forms of single branches, helpers, bridges between
# guards, argument validation and the regression witnesses are excluded)
CORE_THEOREMS = ["segment_integral", "pnorm_pow_eq_integral", "pnorm_eq_root", "pnorm_pow_nonneg", "sup_eq_max_abs", "supNormExact_eq",
                 "supNormApprox_eq", "pnorm_homogeneous", "supNorm_homogeneous", "pnorm_self_sub_zero", "supNorm_self_sub_zero",
                 "pnorm_triangle", "segment_integral_real", "pnorm_real_pow_eq_integral", "pNormMethod_real", "pnorm_real_homogeneous",
                 "pnorm_real_triangle", "pnorm_pow_eq_integral_wf", "pnorm_real_pow_eq_integral_wf", "pNormMethod_real_wf",
                 "supNormExact_eq_wf", "pnorm_triangle_wf", "pnorm_real_triangle_wf", "pnorm_homogeneous_wf", "landscape_stability",
                 "landscape_sup_le_bottleneck",
                 # Props/C10Model.lean: the same clause for what the models of PersLandscapeExact, P - Q, sup_norm and bottleneck return
                 "model_sub_landscapes_pointwise", "model_sup_norm_sub_eq_sup", "model_sup_norm_sub_le_model_bottleneck", "model_sup_norm_sub_le_model_bottleneck_of_distinct"]
TOL = 1e-9
EPS = 2.220446049250313e-16


# ----------------------------------------------------------------------------- real code access

def _mods():
    ex = common.pm("landscapes.exact")
    ap = common.pm("landscapes.approximate")
    aux = common.pm("landscapes.auxiliary")
    return ex, ap, aux


def quiet(fn, *a, **k):
    with contextlib.redirect_stdout(io.StringIO()), np.errstate(all="ignore"):
        return fn(*a, **k)


def mk_exact(dgm):
    ex, _, _ = _mods()
    return quiet(ex.PersLandscapeExact, dgms=[np.array(dgm, dtype=float).reshape(-1, 2)], hom_deg=0)


def mk_grid(dgm, start, stop, steps):
    _, ap, _ = _mods()
    return quiet(ap.PersLandscapeApprox, start=start, stop=stop, num_steps=steps,
                 dgms=[np.array(dgm, dtype=float).reshape(-1, 2)], hom_deg=0)


def cps_of(L):
    return [[[float(x), float(y)] for x, y in depth] for depth in L.critical_pairs]


def cps_any(L):
    """critical pairs of an exact landscape / (grid node, value) pairs of a grid landscape, as float lists"""
    if hasattr(L, "values"):
        grid = np.linspace(L.start, L.stop, L.num_steps).tolist()
        return [[[x, float(y)] for x, y in zip(grid, row)] for row in np.asarray(L.values, dtype=float).tolist()]
    return cps_of(L)


def grid_ok(A):
    """numeric values; an array with zero rows is allowed (no depth returned: the zero function)"""
    v = A.values
    return isinstance(v, np.ndarray) and v.dtype.kind == "f" and (v.ndim == 2 or v.size == 0)


# ----------------------------------------------------------------------------- generators

COEFFS = [1.0, -1.0, 2.0, -2.0, 0.5, -0.5, 0.25, 3.0, -3.0, 1.5]


def base_coord(r, mode):
    if mode == "lattice":
        return float(r.randint(0, 6))
    if mode == "half":
        return r.randint(0, 12) / 2.0
    if mode == "eighth":
        return r.randint(-64, 64) / 8.0
    if mode == "dec":
        return round(r.uniform(0, 10), r.choice([1, 2, 3]))
    return r.uniform(-5, 10)


def gen_dgm(ctx, mode, scale, nmax=7, diag_p=0.0, nmin=1):
    r = ctx.rng
    n = r.randint(nmin, nmax)
    bars = []
    for _ in range(n):
        if bars and r.random() < 0.15:
            bars.append(list(r.choice(bars)))
            continue
        b = base_coord(r, mode)
        d = base_coord(r, mode)
        if d < b:
            b, d = d, b
        if d == b and r.random() >= diag_p:
            d = b + r.choice([0.5, 1.0, 2.0])
        bars.append([b * scale, d * scale])
    if all(b[0] == b[1] for b in bars):
        bars.append([0.0, 2.0 * scale])
    return bars


def short_bars(ctx, lo, hi, steps):
    """a diagram whose bars are all shorter than a step of the grid [lo, hi] x steps: no bar is visible on the grid, the
    grid landscape is the zero function with one zero row (/repo fix 357d745; before it: the string placeholder ['empty'],
    on which sup_norm / p_norm / arithmetic raised)"""
    r = ctx.rng
    step = (hi - lo) / (steps - 1)
    out = []
    for _ in range(r.randint(1, 4)):
        b = lo + r.randint(0, 4 * (steps - 1) - 3) * step / 4.0
        out.append([b, b + r.choice([0.25, 0.5, 0.75]) * step])
    return out


def zero_function_check(A):
    """the norms of a grid landscape on which no bar is visible: None if it behaves as the zero function, else what fails"""
    for what, thunk in (("sup_norm()", lambda: A.sup_norm()), ("p_norm(2)", lambda: A.p_norm(2)), ("p_norm(1.5)", lambda: A.p_norm(1.5)),
                        ("(A - A).sup_norm()", lambda: (A - A).sup_norm()), ("(2 * A).p_norm(3)", lambda: (2 * A).p_norm(3))):
        try:
            v = fl(quiet(thunk))
        except Exception as e:
            return "%s raised %s" % (what, type(e).__name__)
        if v != 0.0:
            return "%s = %r instead of 0" % (what, v)
    return None


def gen_family(ctx, k, diag_p=0.0):
    """k diagrams sharing coordinate mode and scale (so that their landscapes overlap and differences change sign); one family
    in twelve has diagrams of up to 30 bars (thorough: 50)"""
    r = ctx.rng
    mode = r.choice(["lattice", "lattice", "half", "eighth", "dec", "unif"])
    scale = 2.0 ** r.choice([-40, -30, -20, -3, 0, 0, 0, 0, 3, 20, 30])
    ctx.count("mode:" + mode)
    ctx.count("scale:2^%d" % int(math.log2(scale)))
    nmax, nmin = 7, 1
    if r.random() < 1.0 / 12:
        nmax, nmin = ctx.n(30, 50), 8
        ctx.count("family:large(8..%d bars)" % nmax)
    return mode, scale, [gen_dgm(ctx, mode, scale, nmax=nmax, diag_p=diag_p, nmin=nmin) for _ in range(k)]


def combine(ctx, Ls):
    """a landscape expression over the given landscapes; returns (kind, coefficients, landscape)"""
    r = ctx.rng
    kind = r.choice(["single", "neg", "diff", "diff", "diff", "selfdiff", "lincomb", "lincomb", "lincomb", "div"])
    if kind == "single":
        return kind, [1.0], Ls[0]
    if kind == "neg":
        return kind, [-1.0], -Ls[0]
    if kind == "diff":
        return kind, [1.0, -1.0], Ls[0] - Ls[1]
    if kind == "selfdiff":
        return kind, [1.0, -1.0], Ls[0] - Ls[0]
    if kind == "div":
        c = r.choice([2.0, -4.0, 0.5, 3.0])
        return kind, [1.0 / c, -1.0 / c], (Ls[0] - Ls[1]) / c
    cs = [r.choice(COEFFS) if r.random() < 0.7 else round(r.uniform(-3, 3), 3) or 1.0 for _ in Ls]
    acc = cs[0] * Ls[0]
    for c, L in zip(cs[1:], Ls[1:]):
        acc = acc + c * L
    return kind, cs, acc


def gen_synthetic(ctx):
    """piecewise-linear functions that need not be landscapes: arbitrary slopes, forced zeros, equal neighbours"""
    r = ctx.rng
    mode = r.choice(["lattice", "half", "eighth", "dec", "unif"])
    scale = 2.0 ** r.choice([-40, -30, -20, -3, 0, 0, 0, 3, 20, 30])
    out = []
    for _ in range(r.randint(1, 3)):
        n = r.randint(2, 8)
        xs = set()
        for _ in range(4 * n):                     # bounded: the lattice has only 7 distinct abscissae
            xs.add(base_coord(r, mode) * scale)
            if len(xs) >= n:
                break
        if len(xs) < 2:
            xs.add(max(xs) + scale)
        xs = sorted(xs)
        n = len(xs)
        ys = []
        for i in range(n):
            u = r.random()
            if u < 0.2:
                y = 0.0
            elif u < 0.4 and ys:
                y = ys[-1]
            elif u < 0.7:
                y = float(r.randint(-3, 3)) * scale
            else:
                y = r.uniform(-4, 4) * scale
            ys.append(y)
        if r.random() < 0.7:
            ys[0] = 0.0
            ys[-1] = 0.0
        out.append([[x, y] for x, y in zip(xs, ys)])
    # depths of C09's class that are not strictly increasing / have fewer than two points: what a bar of zero length
    # produces ([[b,0],[b,0],[b,0]]) and what the sum of two such depths is (the single point [[x,0]]); both are the zero function
    u = r.random()
    if u < 0.08:
        b = base_coord(r, mode) * scale
        out.insert(r.randint(0, len(out)), [[b, 0.0], [b, 0.0], [b, 0.0]])
        ctx.count("synthetic:zero_length_bar_depth")
    elif u < 0.16:
        out.insert(r.randint(0, len(out)), [[base_coord(r, mode) * scale, 0.0]])
        ctx.count("synthetic:single_point_depth")
    elif u < 0.2 and len(out[0]) >= 3:
        i = r.randrange(1, len(out[0]))
        out[0].insert(i, list(out[0][i]))               # a repeated interior / last point: zero-width flat segment
        ctx.count("synthetic:repeated_point")
    return out


def gen_p_nat(ctx, i):
    return 1 + (i % 20) if ctx.rng.random() < 0.5 else ctx.rng.randint(1, 20)


def gen_p_real(ctx):
    r = ctx.rng
    u = r.random()
    if u < 0.15:
        return float(r.randint(1, 20))
    if u < 0.3:
        return r.randint(2, 40) / 2.0
    if u < 0.4:
        return 1.0 + r.random() * 1e-3
    return r.uniform(1.0, 20.0)


# ----------------------------------------------------------------------------- segment statistics, tolerance, oracle

def seg_stats(ctx, cps):
    st = {"flat": 0, "flat_neg": 0, "crossing": 0, "neg": 0, "pos": 0, "zero_width": 0, "near_flat": 0}
    for l in cps:
        for (x0, y0), (x1, y1) in zip(l, l[1:]):
            if x1 <= x0:
                st["zero_width"] += 1
            if y0 == y1:
                st["flat"] += 1
                if y0 < 0:
                    st["flat_neg"] += 1
            elif (y0 < 0 < y1) or (y1 < 0 < y0):
                st["crossing"] += 1
            elif abs(y1 - y0) <= 1e-6 * max(abs(y0), abs(y1)):
                st["near_flat"] += 1
            elif min(y0, y1) < 0:
                st["neg"] += 1
            else:
                st["pos"] += 1
    for k, v in st.items():
        if v:
            ctx.count("segments:" + k, v)
    return st


def rounding_bound(p, cps):
    """first-order forward error (floats) of the only ill-conditioned step left in the code's formula: the
    sign-crossing branch recomputes the end values as slope*x + b with b = y0 - slope*x0, which loses
    |slope*x|/|y| digits.  Flat and one-signed segments (stable since fix b342827) get no allowance."""
    tot = 0.0
    try:
        for l in cps:
            for (x0, y0), (x1, y1) in zip(l, l[1:]):
                if y0 == y1 or not ((y0 < 0 < y1) or (y1 < 0 < y0)):
                    continue
                if x1 == x0:
                    return math.inf
                s = abs((y1 - y0) / (x1 - x0))
                if s == 0.0:
                    return math.inf
                ax = max(abs(x0), abs(x1))
                ay = max(abs(y0), abs(y1))
                dy = 8 * EPS * (s * ax + ay)
                tot += 2 * (abs(y0) ** p + abs(y1) ** p) * dy / s
    except OverflowError:
        return math.inf
    return tot


def pow_close(ctx, v, m, p, cps):
    """code value v (the norm) against the model's p-th power m"""
    v = float(v)
    m = float(m)
    if not math.isfinite(v) or not math.isfinite(m):
        return False
    try:
        vp = v ** p
    except OverflowError:
        return False
    rb = rounding_bound(p, cps)
    if rb > TOL * abs(m):
        ctx.count("ill_conditioned")
    return abs(vp - m) <= TOL * abs(m) + rb + 1e-300


def oracle_pow(p, cps):
    """sum over depths of the integral of |f|^p by adaptive quadrature on each segment (split at the root);
    independent of the code's closed form and of the model"""
    from scipy.integrate import quad
    import warnings
    warnings.filterwarnings("ignore", message=".*bad integrand behavior.*")
    tot = 0.0
    for l in cps:
        for (x0, y0), (x1, y1) in zip(l, l[1:]):
            if x1 <= x0:
                continue
            w = x1 - x0

            def f(t, x0=x0, y0=y0, y1=y1, w=w):
                return abs(y0 + (y1 - y0) * ((t - x0) / w)) ** p
            pts = [x0, x1]
            if (y0 < 0 < y1) or (y1 < 0 < y0):
                z = x0 + (0.0 - y0) * w / (y1 - y0)
                if x0 < z < x1:
                    pts = [x0, z, x1]
            for a, b in zip(pts, pts[1:]):
                tot += quad(f, a, b, epsabs=0.0, epsrel=1e-11, limit=200)[0]
    return tot


def oracle_sup(cps):
    """largest absolute value of the interpolated functions, evaluated on breakpoints and 7 interior points per segment"""
    best = Fraction(0)
    for l in cps:
        for (x0, y0), (x1, y1) in zip(l, l[1:]):
            f0, f1 = Fraction(y0), Fraction(y1)
            for j in range(9):          # exact rationals: the end values are y0 and y1 themselves, no rounding
                best = max(best, abs(f0 + (f1 - f0) * j / 8))
        if len(l) == 1:
            best = max(best, abs(Fraction(l[0][1])))
    return float(best)


def oracle_disagrees(v, p, cps):
    """does the real code's norm differ from the integral it names?  (1e-6 relative on the p-th power)"""
    v = float(v)
    if not math.isfinite(v):
        return True, None
    o = oracle_pow(p, cps)
    try:
        vp = v ** p
    except OverflowError:
        return True, o
    return abs(vp - o) > 1e-6 * abs(o) + 1e3 * rounding_bound(p, cps) + 1e-300, o


# ----------------------------------------------------------------------------- correspondence

def fl(v):
    """float view of a result of the real code; anything that is not a real number (Python's float ** float can
    return a complex for a negative base) counts as NaN, i.e. as a non-finite norm"""
    try:
        return float(v)
    except (TypeError, ValueError):
        return math.nan


def canon(res):
    st, v, _ = res
    if st == "err":
        return "err:" + v
    return fl(v)


def helper_pnorm(ctx, p, cps):
    """`auxiliary._p_norm(p, cps)` called with the harness's own convention (a private helper).  If that call raises, the
    property is evaluated through the PUBLIC entry point `PersLandscapeExact(critical_pairs=cps).p_norm(p)` instead: a changed
    helper signature is not a failing input, a raising public norm is"""
    ex, _, aux = _mods()
    res = canon(quiet(call, aux._p_norm, p, cps))
    if isinstance(res, str):
        if ctx is not None:
            ctx.count("private_helper_raised:public_entry_point_used")
        res = canon(quiet(call, lambda: ex.PersLandscapeExact(critical_pairs=cps, hom_deg=0).p_norm(p)))
    return res


def pre_build(ctx):
    """source translator (DESIGN.md 3.2): regenerate Generated/SrcPNorm.lean from PERSIM_ROOT's source"""
    py2lean.pre_build(ctx, ("pnorm", "plnorm"))


def run(ctx):
    py2lean.report_broken(ctx, PROP_FILES)
    corethm.record(ctx, CORE_THEOREMS, ["PersimVerif/Props/C10.lean", "PersimVerif/Props/C10Model.lean"])
    r = ctx.rng
    ex, ap, aux = _mods()
    ctx.extra["source_digest"] = {
        "auxiliary._p_norm": common.source_digest("persim/landscapes/auxiliary.py", ["_p_norm"]),
        "exact.p_norm/sup_norm": common.source_digest("persim/landscapes/exact.py", ["p_norm", "sup_norm"]),
        "approximate.p_norm/sup_norm/values_to_pairs": common.source_digest(
            "persim/landscapes/approximate.py", ["p_norm", "sup_norm", "values_to_pairs"]),
        "base.p_norm": common.source_digest("persim/landscapes/base.py", ["p_norm"]),
    }
    jobs = []      # (line, kind, payload) ; the code's value is computed when the job is made

    def add_pnorm_jobs(tag, L, cps, i, grid=None):
        """natural p (Rat model, exact power), real p (Float model), sup norm"""
        n0 = len(jobs)
        try:
            _add_pnorm_jobs(tag, L, cps, i, grid)
        finally:
            if grid is not None:
                for j in jobs[n0:]:
                    j[2]["approx"] = {"start": float(L.start), "stop": float(L.stop), "num_steps": int(L.num_steps), "values": grid[1]}

    def _add_pnorm_jobs(tag, L, cps, i, grid=None):
        for _ in range(2):
            p = gen_p_nat(ctx, i + _ * 7)
            code = canon(call(L.p_norm, p))
            if grid is None:
                line = "pl.pnorm %d %s" % (p, enc(cps))
            else:
                line = "pl.gridpnorm %d %s %s" % (p, enc(grid[0]), enc(grid[1]))
            jobs.append((line, "nat", {"src": tag, "p": p, "cps": cps, "code": code}))
            ctx.count("p_nat:%d" % p)
        for _ in range(2):
            p = gen_p_real(ctx)
            code = canon(call(L.p_norm, p))
            if grid is None:
                line = "pl.pnormf %s %s" % (enc(p), enc(cps))
            else:
                line = "pl.gridpnormf %s %s %s" % (enc(p), enc(grid[0]), enc(grid[1]))
            jobs.append((line, "real", {"src": tag, "p": p, "cps": cps, "code": code}))
        code = canon(call(L.sup_norm))
        if grid is None:
            jobs.append(("pl.sup %s" % enc(cps), "sup", {"src": tag, "cps": cps, "code": code}))
        else:
            jobs.append(("pl.gridsup %s" % enc(grid[1]), "sup", {"src": tag, "cps": cps, "code": code}))

    # --- corpus: the regression input of fix 5bfdf8b and the suite's trapezoids, through the public class
    corpus = [
        [[[0.0, 0.0], [1.0, 1.0], [3.0, -1.0], [4.0, 0.0]]],
        [[[0.0, 0.0], [1.0, 1.0], [3.0, 1.0], [4.0, 0.0]]],
        [[[0.0, 0.0], [1.0, -1.0], [3.0, -1.0], [4.0, 0.0]]],
        [[[0.0, 0.0], [2.0, -3.0], [2.5, 0.5], [4.0, 0.0]], [[1.0, 0.0], [2.0, 0.25], [3.0, 0.0]]],
        # nearly flat segments (end values one ulp apart): regression inputs of fix b342827
        [[[0.0, 0.0], [1.0, 0.3], [2.0, 0.30000000000000004], [3.0, 0.0]]],
        [[[0.0, 0.0], [1.0, 1.0], [2.0, 1.0000000000000002], [3.0, 0.0]]],
        [[[0.0, 0.0], [1.0, -0.1], [2.0, -0.10000000000000002], [2.5, -0.1], [3.0, 0.0]]],
    ]
    for cps in corpus:
        L = ex.PersLandscapeExact(critical_pairs=cps, hom_deg=0)
        for p in (1, 2, 3, 20):
            code = canon(call(L.p_norm, p))
            jobs.append(("pl.pnorm %d %s" % (p, enc(cps)), "nat", {"src": "corpus", "p": p, "cps": cps, "code": code}))
        for p in (2.5, 1.0, 19.75):
            code = canon(call(L.p_norm, p))
            jobs.append(("pl.pnormf %s %s" % (enc(p), enc(cps)), "real", {"src": "corpus", "p": p, "cps": cps, "code": code}))
        jobs.append(("pl.sup %s" % enc(cps), "sup", {"src": "corpus", "cps": cps, "code": canon(call(L.sup_norm))}))
        seg_stats(ctx, cps)

    # --- exact landscapes and their combinations
    for i in range(ctx.n(1000, 25000)):
        diag_p = 0.5 if r.random() < 0.1 else 0.0
        mode, scale, dgms = gen_family(ctx, 3, diag_p)
        Ls = [mk_exact(d) for d in dgms]
        kind, cs, L = combine(ctx, Ls)
        ctx.count("exact:" + kind)
        cps = cps_of(L)
        st = seg_stats(ctx, cps)
        if st["zero_width"]:
            ctx.count("nonstrict_abscissae_cases")
        add_pnorm_jobs("exact:" + kind, L, cps, i)

    # --- grid landscapes and their combinations
    for i in range(ctx.n(600, 14000)):
        mode, scale, dgms = gen_family(ctx, 3)
        lo = min(b[0] for d in dgms for b in d)
        hi = max(b[1] for d in dgms for b in d)
        if r.random() < 0.3:                       # grid strictly inside / outside the support
            lo, hi = lo + 0.25 * (hi - lo) * r.choice([-1, 1]), hi + 0.25 * (hi - lo) * r.choice([-1, 1])
        steps = r.choice([5, 9, 13, 17, 24, 33, 40])
        if r.random() < 0.15 and hi > lo:          # a landscape on which no bar is visible: the zero function, one zero row
            dgms[r.randrange(3)] = short_bars(ctx, lo, hi, steps)
        As = [mk_grid(d, lo, hi, steps) for d in dgms]
        bad = None
        for d, A in zip(dgms, As):
            if not grid_ok(A):                     # nothing is skipped: non-numeric values are a failing input
                bad = bad or (d, A)
            elif not np.asarray(A.values).any():
                ctx.count("grid:zero_landscape(no visible bar)")
                z = zero_function_check(A)
                ctx.test("zero_grid_landscape_has_zero_norms", z is None)
                if z is not None:
                    bad = bad or (d, A)
        if bad is not None:
            d, A = bad
            z = zero_function_check(A)
            ctx.violation("the grid landscape of %r on [%r, %r] x %d (no bar visible; values = %r) does not behave as the zero "
                          "function: %s" % (d, lo, hi, steps, np.asarray(A.values).tolist()[:2], z),
                          {"kind": "zero_grid", "dgm": d, "start": lo, "stop": hi, "steps": steps}, found_input=True)
            if len(ctx.violations) > 5:
                return
            continue
        kind, cs, A = combine(ctx, As)
        ctx.count("grid:" + kind)
        if np.asarray(A.values).size == 0:
            # no depth returned (a values array with zero rows): the zero function; its norms were checked above, the model's
            # grid commands want at least one row
            ctx.count("grid:zero_rows(not sent to the model)")
            continue
        grid = np.linspace(A.start, A.stop, A.num_steps).tolist()
        vals = np.asarray(A.values, dtype=float).tolist()
        cps = [[[x, y] for x, y in zip(grid, row)] for row in vals]
        seg_stats(ctx, cps)
        add_pnorm_jobs("grid:" + kind, A, cps, i, grid=(grid, vals))

    # --- _p_norm directly on synthetic piecewise-linear functions
    for i in range(ctx.n(1000, 25000)):
        cps = gen_synthetic(ctx)
        seg_stats(ctx, cps)
        p = gen_p_nat(ctx, i)
        ctx.count("p_nat:%d" % p)
        code = helper_pnorm(ctx, p, cps)
        jobs.append(("pl.pnorm %d %s" % (p, enc(cps)), "nat", {"src": "synthetic", "p": p, "cps": cps, "code": code}))
        p = gen_p_real(ctx)
        code = helper_pnorm(ctx, p, cps)
        jobs.append(("pl.pnormf %s %s" % (enc(p), enc(cps)), "real", {"src": "synthetic", "p": p, "cps": cps, "code": code}))
        L = ex.PersLandscapeExact(critical_pairs=cps, hom_deg=0)
        jobs.append(("pl.sup %s" % enc(cps), "sup", {"src": "synthetic", "cps": cps, "code": canon(call(L.sup_norm))}))

    # --- malformed / edge stream: argument validation of base.py, p = 0, vertical segments
    for i in range(ctx.n(200, 3000)):
        cps = gen_synthetic(ctx)
        p = r.choice([-2.0, -1.5, -1.0000001, -0.5, -1e-9, 0.0, 0.5, 0.999, -3.0, 0.25])
        if r.random() < 0.25 and any(len(l) >= 2 for l in cps):   # a vertical segment (Python floats: ZeroDivisionError)
            l = [l for l in cps if len(l) >= 2][0]
            j = r.randrange(len(l) - 1)
            l[j + 1][0] = l[j][0]
            l[j + 1][1] = l[j][1] + 1.0
            for k in range(j + 2, len(l)):
                l[k][0] = max(l[k][0], l[k - 1][0] + 1.0)
            p = r.choice([1.0, 2.0, 3.5, p])
        L = ex.PersLandscapeExact(critical_pairs=cps, hom_deg=0)
        code = canon(quiet(call, L.p_norm, p))
        jobs.append(("pl.pnormf %s %s" % (enc(p), enc(cps)), "edge", {"src": "malformed", "p": p, "cps": cps, "code": code}))
        jobs.append(("pl.checkp %s" % enc(p), "checkp", {"src": "malformed", "p": p, "cps": cps, "code": code}))

    answers = ask([j[0] for j in jobs])
    checked = 0
    for (line, kind, c), ans in zip(jobs, answers):
        code, cps, p = c["code"], c["cps"], c.get("p")
        st_non = any(len(l) >= 2 for l in cps) and (len(cps) >= 2 or any(
            (y0 < 0 or y1 < 0) for l in cps for (_, y0), (_, y1) in zip(l, l[1:])))
        ctx.case({"op": line.split(" ")[0], "src": c["src"], "p": p, "cps": cps}, st_non, sample_every=211)
        ctx.count("op:" + kind)
        if ans == "bad-op":
            raise common.HarnessError("driver rejected %r" % line[:200])
        if kind == "nat":
            agree = (code == ans) if isinstance(code, str) or isinstance(ans, str) else pow_close(ctx, code, ans, p, cps)
        elif kind == "real":
            if isinstance(code, str) or isinstance(ans, str):
                agree = code == ans
            else:
                agree = math.isfinite(code) and pow_close(ctx, code, float(ans) ** p if math.isfinite(float(ans)) else math.nan, p, cps)
        elif kind == "sup":
            agree = (code == ans) if isinstance(code, str) or isinstance(ans, str) else float(ans) == code
        elif kind == "edge":
            if isinstance(code, str) or isinstance(ans, str):
                agree = code == ans
                ctx.count("edge:" + str(code))
            else:
                ctx.count("edge:value")
                agree = common.close(code, float(ans), TOL, scale=abs(code) if math.isfinite(code) else 1.0)
        else:  # checkp: the enum of base.py against what the call did
            rejected = code == "err:ValueError"
            agree = (ans == "err:ValueError") == rejected
        if agree:
            continue
        # --- correspondence broke: is the *property* violated on the real code?  ask the quadrature oracle
        checked += 1
        ctx.extra["disagreements_checked"] = checked
        if kind in ("nat", "real", "sup") and isinstance(code, str) and not isinstance(ans, str) and (p is None or p >= 1):
            # the landscapes of these streams are valid (finite critical pairs of C09's class) and the model returns a value
            what = "sup_norm()" if kind == "sup" else "p_norm(%r)" % (p,)
            ctx.violation("%s raises %s on a valid landscape (%s); the norm is %r" % (what, code, c["src"], _show(ans, p or 1, kind)),
                          rcase("sup" if kind == "sup" else "pnorm", c), found_input=True,
                          correspondence=line.split(" ")[0], code=code, model=str(ans))
        elif kind in ("nat", "real") and not isinstance(code, str) and p >= 1:
            bad, o = oracle_disagrees(code, p, cps)
            what = ("p_norm(p=%r) of the real code = %r, but (sum over depths of the integral of |f|^p)^(1/p) = %r "
                    "(quadrature oracle; model says %r)" % (p, code, None if o is None else o ** (1.0 / p), _show(ans, p, kind)))
            if not bad:
                what = "p_norm(p=%r): code %r differs from the model %r but agrees with the quadrature oracle" % (p, code, _show(ans, p, kind))
            ctx.violation(what, rcase("pnorm", c), found_input=bad,
                          correspondence=line.split(" ")[0], code=code, model=str(ans))
        elif kind == "sup" and not isinstance(code, str):
            o = oracle_sup(cps)
            bad = o != code
            ctx.violation("sup_norm of the real code = %r, largest |value| of the functions = %r (model %r)" % (code, o, float(ans)),
                          rcase("sup", c), found_input=bad, correspondence="pl.sup",
                          code=code, model=str(ans))
        else:
            ctx.violation("code and model differ on %s: code=%r model=%r" % (line.split(" ")[0], code, ans),
                          {"correspondence": line.split(" ")[0], "line": line[:1500], "code": code, "model": str(ans),
                           "kind": "corr", "p": p, "cps": cps}, found_input=False)
        if len(ctx.violations) > 5:
            return
    laws(ctx)
    if not any(f for _, f in ctx.violations):
        lazy_stream(ctx)


def rcase(kind, c):
    """replayable case of a main-stream job: critical pairs (exact class) or grid + values (grid class)"""
    out = {"kind": kind, "p": c.get("p"), "cps": c["cps"], "src": c["src"]}
    if "approx" in c:
        out["approx"] = c["approx"]
    return out


def public_norm(c, which):
    """the norm of a replayable case through the PUBLIC entry point of its own class -> float | 'err:Kind'"""
    ex, ap, _ = _mods()
    if "approx" in c:
        a = c["approx"]
        mk = lambda: ap.PersLandscapeApprox(start=a["start"], stop=a["stop"], num_steps=a["num_steps"],
                                            values=np.array(a["values"], dtype=float), hom_deg=0)
    else:
        mk = lambda: ex.PersLandscapeExact(critical_pairs=c["cps"], hom_deg=0)
    if which == "sup":
        return canon(quiet(call, lambda: mk().sup_norm()))
    return canon(quiet(call, lambda: mk().p_norm(c["p"])))


def _show(ans, p, kind):
    if isinstance(ans, str):
        return ans
    return float(ans) ** (1.0 / p) if kind == "nat" else float(ans)


# ----------------------------------------------------------------------------- [T] laws on the real code

def rel_close(a, b, tol=TOL, extra=0.0):
    return math.isfinite(a) and math.isfinite(b) and abs(a - b) <= tol * max(abs(a), abs(b)) + extra


def law_case(fam, p, c, use_grid, steps, perturb):
    return {"kind": "law", "dgms": fam, "p": p, "c": c, "grid": use_grid, "steps": steps, "perturb": perturb}


class OperandsFailed(Exception):
    """the landscapes / their combinations / the bottleneck distance of a law case could not be built on the real code: the
    statement of C10 (about the norms of landscapes) cannot be evaluated on this case"""


class NormRaised(Exception):
    """p_norm / sup_norm raised on a valid landscape"""


def eval_laws(case, ctx=None):
    """evaluate every law of the statement on the real code for one case; returns {law: ok}"""
    ex, ap, aux = _mods()
    bn = common.pm("bottleneck").bottleneck
    dg = case["dgms"]
    p, c = case["p"], case["c"]
    res = {}
    try:
        if case["grid"]:
            lo = min(b[0] for d in dg for b in d)
            hi = max(b[1] for d in dg for b in d)
            Ls = [mk_grid(d, lo, hi, case["steps"]) for d in dg]
            if not all(grid_ok(A) for A in Ls):
                # non-numeric values (the former placeholder ['empty']): every law below would raise
                return {"grid_values_numeric": False, "_why": [zero_function_check(A) for A in Ls if not grid_ok(A)][:1]}
            res["grid_values_numeric"] = True
            step = (hi - lo) / (case["steps"] - 1)
            fired = False
        else:
            # the trace is read for P1 and P2 only: the stability clause is about these two
            tr = ex._VERIF_TRACE
            n0 = len(tr) if tr is not None else 0
            Ls = [mk_exact(d) for d in dg[:2]]
            fired = tr is not None and len(tr) > n0
            Ls.append(mk_exact(dg[2]))
            step = 0.0
        P1, P2, P3 = Ls
        with np.errstate(all="ignore"):
            A = P1 - P2
            B = P2 - P3
            AB, cA, z = A + B, c * A, P1 - P1
            G = 1.5 * P1 + (-2.0) * P2 + 0.5 * P3
            BA = P2 - P1
        import warnings
        with warnings.catch_warnings():
            warnings.simplefilter("ignore")
            d12 = float(bn(np.array(dg[0], dtype=float), np.array(dg[1], dtype=float)))
    except Exception as e:
        if isinstance(e, common.HarnessError):
            raise
        raise OperandsFailed("%s: %s" % (type(e).__name__, str(e)[:300]))

    def pn(L, what):
        try:
            return fl(L.p_norm(p))
        except Exception as e:
            raise NormRaised("(%s).p_norm(%r) raised %s: %s" % (what, p, type(e).__name__, str(e)[:200]))

    def sn(L, what):
        try:
            return fl(L.sup_norm())
        except Exception as e:
            raise NormRaised("(%s).sup_norm() raised %s: %s" % (what, type(e).__name__, str(e)[:200]))

    def nrm(L, what):
        """(norm, absolute rounding allowance of the code's own formula for this landscape)"""
        v = pn(L, what)
        cp = cps_any(L)
        rb = rounding_bound(p, cp)
        if not math.isfinite(v) or v <= 0.0:
            return v, (rb ** (1.0 / p) if math.isfinite(rb) else math.inf)
        try:
            return v, min(v, rb / (p * v ** (p - 1))) if v ** (p - 1) > 0 else v
        except OverflowError:
            return v, v

    try:
        with np.errstate(all="ignore"):
            (nA, eA), (nB, eB), (nAB, eAB) = nrm(A, "P1 - P2"), nrm(B, "P2 - P3"), nrm(AB, "(P1 - P2) + (P2 - P3)")
            nP, eP = zip(*[nrm(L, "P%d" % (i + 1)) for i, L in enumerate(Ls)])
            ncA, ecA = nrm(cA, "%r * (P1 - P2)" % c)
            nz, sz = pn(z, "P1 - P1"), sn(z, "P1 - P1")
            nG, eG = nrm(G, "1.5 P1 - 2 P2 + 0.5 P3")
            nBA, eBA = nrm(BA, "P2 - P1")
            sA, scA = sn(A, "P1 - P2"), sn(cA, "%r * (P1 - P2)" % c)
            sAB, sB = sn(AB, "(P1 - P2) + (P2 - P3)"), sn(B, "P2 - P3")
    except NormRaised as e:
        # a norm that raises on a valid landscape with p >= 1 is not equal to the integral it names
        return {"norm_returns_a_value": False, "_why": str(e), "_fired": bool(fired)}
    res["norm_returns_a_value"] = True
    res["_ill"] = max(eA / nA if nA > 0 else 0.0, ecA / ncA if ncA > 0 else 0.0, eAB / nAB if nAB > 0 else 0.0,
                      eB / nB if nB > 0 else 0.0, eG / nG if nG > 0 else 0.0) > TOL
    res["finite"] = all(math.isfinite(v) and v >= 0 for v in [nA, nB, nAB, ncA, nz, nG, sA] + list(nP))
    res["homogeneous"] = rel_close(ncA, abs(c) * nA, extra=ecA + abs(c) * eA) and rel_close(scA, abs(c) * sA)
    res["self_difference_zero"] = nz == 0.0 and sz == 0.0
    res["triangle"] = nAB <= (nA + nB) * (1 + TOL) + eAB + eA + eB and sAB <= (sA + sB) * (1 + TOL) and \
        nG <= (1.5 * nP[0] + 2.0 * nP[1] + 0.5 * nP[2]) * (1 + TOL) + eG + 1.5 * eP[0] + 2.0 * eP[1] + 0.5 * eP[2]
    res["difference_symmetric"] = rel_close(nBA, nA, extra=eA + eBA)
    # the stability clause is evaluated on every case; where it fails the caller decides BY CONTENT (`stability_is_known`)
    # whether the failure is the known C03 finding seen through C10
    scale = max(abs(x) for d in dg for b in d for x in b) or 1.0
    res["stability"] = sA <= d12 + step * (1 + 1e-9) + 1e-9 * scale
    res["_bn"] = d12
    res["_sup"] = sA
    res["_fired"] = bool(fired)
    if not res["stability"] and not case["grid"]:
        res["_cps12"] = [cps_of(P1), cps_of(P2)]
    return res


def stability_is_known(case, res):
    """attribution BY CONTENT of a failing stability case (exact landscapes) to the known C03 repeated-bar shortcut:
    (a) each of P1, P2 either equals the tent-definition landscape of its diagram or is exactly what the Lean model of the
        sweep WITH the shortcut returns (model's shortcut fired), and at least one of them is the latter;
    (b) the code's sup norm of P1 - P2 is the sup of the difference of the functions P1 and P2 themselves represent, so the
        deviation does not come from `-` or from `sup_norm`;
    (c) with the tent-definition landscapes the clause holds for the code's bottleneck value, so it does not come from there.
    Anything else is a different failure of the same clause."""
    from . import c03
    if case["grid"] or "_cps12" not in res:
        return False
    dg, cps = case["dgms"][:2], res["_cps12"]
    scale = max(abs(x) for d in dg for b in d for x in b) or 1.0
    tol = Fraction(1e-9 * scale)
    models = ask(["pl.exact 0 %s" % enc([d]) for d in dg])
    any_known = False
    for d, cp, m in zip(dg, cps, models):
        wrong = c03.py_check(d, cp, tol) if len(d) <= 10 else c03.np_check(d, cp, float(tol))
        if wrong is None:
            continue                                  # this landscape is the definition's
        if not (isinstance(m, list) and len(m) == 2 and int(m[1]) > 0 and c03.same_cps(c03.normalise(cp, d)[0], m[0], float(tol))):
            return False                              # wrong, and not in the known way
        any_known = True
    if not any_known:
        return False
    # (b) sup |f1 - f2| of the represented functions (the difference is piecewise linear with breakpoints in the union)
    xs = np.unique(np.array([q[0] for cp in cps for depth in cp for q in depth], dtype=float))
    K = max(len(cps[0]), len(cps[1]))

    def rows(cp):
        out = np.zeros((K, len(xs)))
        for k, depth in enumerate(cp):
            if len(depth) >= 2:
                out[k] = np.interp(xs, [q[0] for q in depth], [q[1] for q in depth], left=0.0, right=0.0)
        return out
    sup12 = float(np.max(np.abs(rows(cps[0]) - rows(cps[1])))) if len(xs) and K else 0.0
    if abs(sup12 - float(res["_sup"])) > float(tol):
        return False
    # (c) the clause for the tent-definition landscapes against the code's bottleneck value
    Bs = [np.array(d, dtype=float).reshape(-1, 2) for d in dg]
    ev = np.unique(np.concatenate([np.concatenate([B[:, 0], B[:, 1], ((B[:, 0][:, None] + B[:, 1][None, :]) / 2).ravel()]) for B in Bs]))
    Kt = max(len(B) for B in Bs)

    def lam_rows(B):
        T = np.maximum(0.0, np.minimum(ev[None, :] - B[:, 0:1], B[:, 1:2] - ev[None, :]))
        T = -np.sort(-T, axis=0)
        return np.vstack([T, np.zeros((Kt - len(T), len(ev)))])
    true_sup = float(np.max(np.abs(lam_rows(Bs[0]) - lam_rows(Bs[1]))))
    return true_sup <= float(res["_bn"]) + float(tol)


def perturb_dgm(r, d, scale, delta):
    out = []
    for b, e in d:
        nb, ne = b + r.uniform(-delta, delta) * scale, e + r.uniform(-delta, delta) * scale
        if ne > nb:
            out.append([nb, ne])
    for _ in range(r.randint(0, 2)):               # extra short bars (matched to the diagonal)
        b = base_coord(r, "unif") * scale
        out.append([b, b + r.uniform(0, 2 * delta) * scale + 1e-6 * scale])
    return out or [[0.0, delta * scale + 1e-6 * scale]]


# ----------------------------------------------------------------------------- known findings
KNOWN_STAB_KEY = "repeated-bar-shortcut"
KNOWN_STAB_SITE = "site=persim/landscapes/exact.py:repeated-bar-shortcut"
KNOWN_STAB_CASE = {"kind": "law", "dgms": [[[1.0, 5.0], [1.0, 5.0], [3.0, 6.0]], [[1.0, 5.0], [1.0, 5.0001], [3.0, 6.0]],
                                           [[1.0, 5.0], [3.0, 6.0]]], "p": 2, "c": 2.0, "grid": False, "steps": 9, "perturb": True}
KNOWN_OVF_KEY = "_p_norm-overflow-large-p"
KNOWN_OVF_SITE = "site=persim/landscapes/auxiliary.py:_p_norm-overflow-large-p"
KNOWN_OVF_CASES = [{"kind": "bigp", "dgm": [[0.0, 2.0 ** 21]], "p": 60}, {"kind": "bigp", "dgm": [[0.0, 2.0 ** -19]], "p": 60}]
BIGP_EXP = 900.0     # |p*log2(max|value|) + log2(width)| beyond which M**p leaves the double range ("about 1000")


def listed(site):
    return [t for k, t in common.known_findings("C10") if k == "known" and site in t]


def known_stab_text(kf):
    return (KNOWN_STAB_SITE + " still fails (stability clause): D=[(1,5),(1,5),(3,6)], D'=[(1,5),(1,5.0001),(3,6)] gives "
            "sup|L(D)-L(D')| = 0.9999 against bottleneck 1e-4 (the C03 repeated-bar shortcut, seen through C10); listed in "
            "known_findings.txt" + ("" if kf else " [NOT LISTED]"))


def known_ovf_text(kf):
    return (KNOWN_OVF_SITE + " still fails: PersLandscapeExact([[0,2**21]]).p_norm(60) = inf and PersLandscapeExact([[0,2**-19]])"
            ".p_norm(60) = 0.0 although the norm is a finite positive number (M**p is formed in double precision before the "
            "root); listed in known_findings.txt" + ("" if kf else " [NOT LISTED]"))


def bigp_eval(case):
    """p_norm of the exact landscape of one diagram (or of a difference) for a large exponent, against an INDEPENDENT oracle:
    the landscape's critical pairs are rescaled by powers of two to unit height and unit width (exact: nothing is merged or
    rounded), the integral of |f|^p of the rescaled function is computed by adaptive quadrature per segment (`oracle_pow`,
    nowhere near over/underflow at unit scale) and the norm is put together in the log domain:
    ||f|| = M * X**(1/p) * (integral of |f(X .)/M|^p)**(1/p).  The code's own `_p_norm` on the rescaled function is recorded as
    well (homogeneity) but decides nothing.  -> dict(ok, value, expected, exponent, raised)"""
    ex, ap, aux = _mods()
    L = mk_exact(case["dgm"]) if "dgm" in case else None
    if "other" in case:
        L = L - mk_exact(case["other"])
    cps = cps_of(L)
    p = case["p"]
    M = max([abs(q[1]) for l in cps for q in l] + [0.0])
    xs = [q[0] for l in cps for q in l]
    X = (max(xs) - min(xs)) if xs else 0.0
    st, v, _ = call(lambda: quiet(L.p_norm, p))
    if st == "err":
        # a raising norm on a valid landscape with p >= 1: not equal to the integral, and not one of the listed failure modes
        return {"ok": False, "value": "raised " + v, "expected": None, "exponent": (p * math.log2(M) + math.log2(X)) if M > 0 and X > 0 else 0.0,
                "raised": True}
    v = fl(v)
    if M == 0.0 or X == 0.0:
        return {"ok": v == 0.0, "value": v, "expected": 0.0, "exponent": 0.0, "raised": False}
    # rescale by powers of two (exact: no abscissae or ordinates are merged or rounded)
    M2, X2 = 2.0 ** round(math.log2(M)), 2.0 ** round(math.log2(X))
    unit = [[[q[0] / X2, q[1] / M2] for q in l] for l in cps]
    o = oracle_pow(p, unit)                     # in [~2^-p/2 .. ~2^p/2] * O(1): far inside the double range for p <= 100
    want = M2 * X2 ** (1.0 / p) * o ** (1.0 / p)
    expo = p * math.log2(M) + math.log2(X)
    ok = math.isfinite(v) and v > 0.0 and math.isfinite(want) and abs(v - want) <= 1e-6 * want
    try:
        u = fl(quiet(aux._p_norm, p, unit))
        homog = M2 * X2 ** (1.0 / p) * u
    except Exception:
        homog = None
    nseg = sum(max(0, len(l) - 1) for l in cps)
    log2S = p * (math.log2(M2) + math.log2(X2) / p + math.log2(o) / p) if o > 0 else -math.inf      # log2 of the p-th power of the norm
    return {"ok": ok, "value": v, "expected": want, "exponent": expo, "raised": False, "rescaled_code": homog, "segments": nseg, "p": p,
            "log2_pth_power": log2S}


def is_listed_overflow(res):
    """the listed over/underflow finding BY CONTENT.  The p-th power M**p is formed in double precision before the root; the
    failure modes this produces, and nothing else, are attributed:
      * overflow:  the value is exactly inf, with p*log2(max|value|)+log2(width) >  BIGP_EXP;
      * underflow: the value is exactly 0.0, with the same exponent < -BIGP_EXP;
      * gradual underflow: the p-th power of the norm is a subnormal number (below 2^-1022) and the value deviates from the norm by
        no more than rounding every segment term to a multiple of 2^-1074 explains
        (relative error <= (segments + 2) * 2^-1074 / (p-th power) / p) - the quantised form of the 0.0 above;
    and in each case the norm itself is finite and positive.  NaN, a negative value, a value off by more than that, inf / 0.0 on
    the wrong side or nearer to 1, and a raise are different failures."""
    v, want = res["value"], res["expected"]
    if res.get("raised") or not isinstance(v, float) or want is None or not (math.isfinite(want) and want > 0.0):
        return False
    if v == math.inf:
        return res["exponent"] > BIGP_EXP
    if v == 0.0:
        return res["exponent"] < -BIGP_EXP
    if math.isfinite(v) and v > 0.0 and res.get("log2_pth_power", 0.0) < -1022.0 and res["exponent"] < -BIGP_EXP:
        bound = (res["segments"] + 2) * 2.0 ** min(60.0, -1074.0 - res["log2_pth_power"]) / res["p"]
        return abs(v - want) / want <= bound
    return False


def known_replays(ctx):
    """replay the listed inputs of both known findings; print one KNOWN-FINDING line per entry while it still fails"""
    kf_ovf, kf_stab = listed(KNOWN_OVF_SITE), listed(KNOWN_STAB_SITE)
    still = []
    for c in KNOWN_OVF_CASES:
        res = bigp_eval(c)
        still.append(not res["ok"] and is_listed_overflow(res))
        if not res["ok"] and not is_listed_overflow(res):
            ctx.violation("p_norm(%r) of %r = %r (the norm is %r) fails in a way that is not the listed over/underflow (inf or 0.0 "
                          "once M**p leaves the double range)" % (c["p"], c["dgm"], res["value"], res["expected"]), c, found_input=True)
    ctx.extra["known_finding_overflow_still_fails"] = still
    if any(still):
        if kf_ovf:
            ctx.known(KNOWN_OVF_KEY, known_ovf_text(True))
        else:
            ctx.violation("p_norm over/underflows for large p and this is not listed in known_findings.txt", KNOWN_OVF_CASES[0], found_input=True)
    else:
        print("note: the listed known finding of C10 (_p_norm overflow for large p) no longer reproduces on this tree", flush=True)
    res = eval_laws(KNOWN_STAB_CASE)
    fails = res.get("stability") is False
    as_listed = fails and stability_is_known(KNOWN_STAB_CASE, res)
    ctx.extra["known_finding_stability_still_fails"] = fails
    ctx.extra["known_finding_stability_shortcut_fired"] = bool(res.get("_fired"))
    ctx.extra["known_finding_stability_fails_as_listed"] = bool(as_listed)
    if as_listed:
        if kf_stab:
            ctx.known(KNOWN_STAB_KEY, known_stab_text(True))
        else:
            ctx.violation("the stability clause fails where the repeated-bar shortcut fires and this is not listed in known_findings.txt",
                          KNOWN_STAB_CASE, law=True, failed=["stability"])
    elif fails:
        ctx.violation("the listed stability pair fails in a way that is not the listed one (a landscape that is neither the "
                      "definition's nor the shortcut output, or a deviation coming from `-` / sup_norm / bottleneck): sup %r > "
                      "bottleneck %r" % (res.get("_sup"), res.get("_bn")), KNOWN_STAB_CASE, law=True, failed=["stability"])
    else:
        print("note: the listed known finding of C10 (stability where the C03 shortcut fires) no longer reproduces on this tree", flush=True)
    return kf_ovf, kf_stab


def stream_bigp(ctx, kf_ovf):
    """[T] large exponents (integer and real p up to 100) on landscapes at scales 2^-21 .. 2^21: the norm must be finite,
    non-zero and equal to an independent log-domain quadrature at unit scale.  A failure is the known over/underflow finding
    (counted) only when the value is exactly inf or 0.0 and |p*log2(max|value|) + log2(width)| > BIGP_EXP; every other failure
    (NaN, negative, off by a factor, a raise, inf/0.0 nearer to 1) is a violation."""
    r = ctx.rng
    attributed = 0
    for i in range(ctx.n(500, 4000)):
        mode = r.choice(["lattice", "half", "eighth", "dec", "unif"])
        k = r.choice([-21, -20, -12, -8, -3, 0, 0, 0, 3, 8, 12, 20, 21])
        scale = 2.0 ** k
        p = r.choice([r.randint(21, 100), r.randint(1, 100), round(r.uniform(20, 100), 2), float(r.choice([30, 60, 100]))])
        c = {"kind": "bigp", "dgm": gen_dgm(ctx, mode, scale), "p": p}
        if r.random() < 0.4:
            c["other"] = gen_dgm(ctx, mode, scale)
        res = bigp_eval(c)
        far = abs(res["exponent"]) > BIGP_EXP
        ctx.case(c, True, sample_every=97)
        ctx.count("bigp:scale:2^%d" % k)
        ctx.count("bigp:%s" % ("beyond_double_range" if far else "within_double_range"))
        if not res["ok"] and kf_ovf and is_listed_overflow(res):
            attributed += 1
            ctx.known(KNOWN_OVF_KEY, known_ovf_text(True))
            continue
        ctx.test("large_p_finite_nonzero_accurate", res["ok"])
        if not res["ok"]:
            ctx.violation("p_norm(p=%r) = %r but the norm is %r (log-domain quadrature of the landscape rescaled to unit size; "
                          "p*log2(max|value|)+log2(width) = %.0f; not the listed inf / 0.0 over/underflow)"
                          % (p, res["value"], res["expected"], res["exponent"]), c, found_input=True)
            if len(ctx.violations) > 5:
                break
    ctx.extra["bigp_failures_attributed_to_known_overflow"] = attributed


def lazy_eval(c):
    """the norms of a landscape built with compute=False (first use = the norm) against the eagerly built one"""
    ex, ap, _ = _mods()
    D = lambda: [np.array(c["dgm"], dtype=float).reshape(-1, 2)]
    out = {}
    if c["cls"] == "exact":
        mk = lambda lazy: quiet(ex.PersLandscapeExact, dgms=D(), hom_deg=0, **({"compute": False} if lazy else {}))
    else:
        mk = lambda lazy: quiet(ap.PersLandscapeApprox, dgms=D(), hom_deg=0, start=c["start"], stop=c["stop"], num_steps=c["steps"],
                                **({"compute": False} if lazy else {}))
    for name, f in (("p_norm(%r)" % c["p"], lambda L: L.p_norm(c["p"])), ("sup_norm()", lambda L: L.sup_norm())):
        a = canon(call(lambda: quiet(f, mk(False))))
        b = canon(call(lambda: quiet(f, mk(True))))
        out[name] = (a, b)
    bad = [k for k, (a, b) in out.items() if a != b and not (isinstance(a, float) and isinstance(b, float) and a != a and b != b)]
    return not bad, out


def lazy_stream(ctx):
    """[T] `all exact and grid landscapes`: also those built with compute=False, whose first use is the norm itself"""
    r = ctx.rng
    for _ in range(ctx.n(150, 2000)):
        mode, scale, dgms = gen_family(ctx, 1)
        d = dgms[0]
        c = {"kind": "lazy", "cls": r.choice(["exact", "grid"]), "dgm": d, "p": r.choice([1, 2, 3, 2.5, 7])}
        if c["cls"] == "grid":
            lo, hi = min(b[0] for b in d), max(b[1] for b in d)
            if not (lo < hi):
                continue
            c.update(start=lo, stop=hi, steps=r.choice([5, 11, 33]))
        ok, out = lazy_eval(c)
        ctx.test("lazy_landscape_norms_equal_eager", ok)
        if not ok:
            ctx.violation("the norm of a landscape built with compute=False differs from the eagerly computed one: %r" % out, c, found_input=True)
            return


KNOWN_CROSS_SITE = "persim/landscapes/auxiliary.py:_p_norm-sign-crossing-intercept-form"


def known_cross_probe(ctx):
    """the listed finding: on a segment that crosses the axis `_p_norm` re-evaluates the end values through the intercept
    form slope*x + (y0 - slope*x0), which rounds at |slope*x| although the end values y0, y1 are at hand.  Listed input:
    critical pairs [[x0, 3e-5], [x0 + 1e-4, -7e-5]] with x0 = 2^30 + 0.5, p = 1; exact integral of |f| over the segment =
    (x1 - x0) * (y0^2 + y1^2) / (2 |y1 - y0|) in rationals of the float inputs."""
    from fractions import Fraction as F
    x0 = 2.0 ** 30 + 0.5
    x1, y0, y1 = x0 + 1e-4, 3e-5, -7e-5
    def fails():
        from persim.landscapes import PersLandscapeExact
        v = float(PersLandscapeExact(critical_pairs=[[[x0, y0], [x1, y1]]], hom_deg=0).p_norm(1))
        ex = (F(x1) - F(x0)) * (F(y0) ** 2 + F(y1) ** 2) / (2 * abs(F(y1) - F(y0)))
        rel = abs(F(v) - ex) / ex
        return rel > F(1, 10 ** 9), ("PersLandscapeExact(critical_pairs=[[[2^30+0.5, 3e-5], [2^30+0.5+1e-4, -7e-5]]]).p_norm(1) = %r, "
                                     "exact %r (%.1e of the value)" % (v, float(ex), float(rel)))
    common.known_probe(ctx, "C10", KNOWN_CROSS_SITE, fails,
                       {"kind": "known_probe", "critical_pairs": [[[x0, y0], [x1, y1]]], "p": 1})


def laws(ctx):
    r = ctx.rng
    kf_ovf, kf_stab = known_replays(ctx)
    known_cross_probe(ctx)
    if len(ctx.violations) <= 5:
        stream_bigp(ctx, kf_ovf)
    for i in range(ctx.n(800, 18000)):
        mode, scale, dgms = gen_family(ctx, 3)
        perturb = r.random() < 0.6
        if perturb:
            dgms[1] = perturb_dgm(r, dgms[0], scale, r.choice([0.01, 0.1, 0.5]))
        p = gen_p_real(ctx) if r.random() < 0.6 else float(r.randint(1, 20))
        if r.random() < 0.5:
            p = int(p) if float(p).is_integer() else p
        c = r.choice([-1.0, 2.0, -0.5, 3.0, 1024.0, -1.0 / 3.0, round(r.uniform(-5, 5), 2) or 1.0])
        use_grid = r.random() < 0.35
        steps = r.choice([9, 17, 33, 40])
        if use_grid and r.random() < 0.15:
            lo = min(b[0] for d in dgms[:2] for b in d)
            hi = max(b[1] for d in dgms[:2] for b in d)
            if hi > lo:
                # bars shorter than a step, inside the range of the other two diagrams (the family's grid stays [lo, hi])
                dgms[2] = short_bars(ctx, lo, hi, steps)
                ctx.count("laws:grid_with_zero_landscape")
        case = law_case(dgms, p, c, use_grid, steps, perturb)
        try:
            res = eval_laws(case)
        except OperandsFailed as e:
            # constructor / arithmetic / bottleneck raised: C10's statement cannot be evaluated here (not a failing input of C10)
            ctx.count("laws:operands_could_not_be_built")
            if ctx.counters["laws:operands_could_not_be_built"] <= 2:
                ctx.violation("the landscapes, their combinations or the bottleneck distance of a law case could not be built on the "
                              "real code (%s); the norm laws were not evaluated on it" % e,
                              {"correspondence": "laws-operands", "line": repr(case)[:1500], "code": str(e), "model": "operands exist",
                               "kind": "corr"}, found_input=False)
            continue
        ctx.count("laws:" + ("grid" if use_grid else "exact"))
        if res.get("_ill"):
            ctx.count("laws:ill_conditioned")
        failed = []
        if res.get("_fired"):
            ctx.count("laws:stability_cases_with_c03_shortcut_fired")
        for k, ok in res.items():
            if k.startswith("_"):
                continue
            if k == "stability" and not ok and kf_stab and stability_is_known(case, res):
                # the known finding seen through C10: counted, not reported
                ctx.count("laws:stability_failures_attributed_to_c03_shortcut")
                ctx.known(KNOWN_STAB_KEY, known_stab_text(True))
                continue
            ctx.test(k, ok)
            if not ok:
                failed.append(k)
        if res.get("stability") and res["_bn"] > 0 and res["_sup"] >= 0.5 * res["_bn"]:
            ctx.count("laws:stability_tight_cases")
        if failed:
            ctx.violation("law(s) %s fail on the real code (p=%r, c=%r, %s landscapes): %r"
                          % (failed, p, c, "grid" if use_grid else "exact", {k: v for k, v in res.items() if k != "_cps12"}),
                          case, law=True, failed=failed)
            if len(ctx.violations) > 5:
                return
    # oracle stream: the real code against adaptive quadrature (natural and real p)
    ex, ap, aux = _mods()
    for i in range(ctx.n(400, 8000)):
        if r.random() < 0.5:
            cps = gen_synthetic(ctx)
        else:
            mode, scale, dgms = gen_family(ctx, 2)
            cps = cps_of(mk_exact(dgms[0]) - mk_exact(dgms[1]))
        p = gen_p_real(ctx) if r.random() < 0.5 else r.randint(1, 20)
        v = helper_pnorm(ctx, p, cps)
        if isinstance(v, str):
            bad, o = True, None
        else:
            bad, o = oracle_disagrees(v, p, cps)
        ctx.test("quadrature_oracle", not bad)
        so = oracle_sup(cps)
        sv = canon(call(lambda: ex.PersLandscapeExact(critical_pairs=cps, hom_deg=0).sup_norm()))
        ctx.test("sup_oracle", so == sv)
        if bad:
            ctx.violation("p_norm(p=%r) = %r but the integral gives %r (quadrature oracle)"
                          % (p, v, None if o is None else o ** (1.0 / p)), {"kind": "pnorm", "p": p, "cps": cps, "src": "oracle"})
        if so != sv:
            ctx.violation("sup_norm = %r but the largest |value| is %r" % (sv, so), {"kind": "sup", "cps": cps, "src": "oracle"})
        if len(ctx.violations) > 5:
            return


# ----------------------------------------------------------------------------- replay

def replay(ctx, rep):
    c = rep["case"]
    ex, ap, aux = _mods()
    kind = c.get("kind")
    if kind == "lazy":
        ok, out = lazy_eval(c)
        print("(eager, compute=False):", out)
        return ok
    if kind == "pnorm":
        v = public_norm(c, "p")
        print("%s.p_norm(%r) = %r   (critical pairs / grid values: %s)" % ("PersLandscapeApprox" if "approx" in c else "PersLandscapeExact",
                                                                      c["p"], v, repr(c["cps"])[:1500]))
        if isinstance(v, str):
            return c["p"] < 1          # a raising norm on a valid landscape with p >= 1 fails the property
        if c["p"] < 1:
            return True
        bad, o = oracle_disagrees(v, c["p"], c["cps"])
        print("integral (quadrature, split at breakpoints and roots): %r" % (None if o is None else o ** (1.0 / c["p"])))
        return not bad
    if kind == "sup":
        v, o = public_norm(c, "sup"), oracle_sup(c["cps"])
        print("sup_norm = %r, largest |value| = %r" % (v, o))
        return v == o
    if kind == "zero_grid":
        A = mk_grid(c["dgm"], c["start"], c["stop"], c["steps"])
        z = zero_function_check(A)
        print("values:", np.asarray(A.values).tolist()[:2], "->", z or "behaves as the zero function")
        return z is None
    if kind == "bigp":
        res = bigp_eval(c)
        print("p_norm(%r) = %r, the norm (log-domain quadrature at unit scale) %r, p*log2(max|value|)+log2(width) = %.0f; the listed "
              "over/underflow mode: %s" % (c["p"], res["value"], res["expected"], res["exponent"], is_listed_overflow(res)))
        return res["ok"]
    if kind == "law":
        try:
            res = eval_laws(c)
        except OperandsFailed as e:
            print("the operands of this law case cannot be built on this tree (%s): the norm laws are not evaluated" % e)
            return True
        print("laws:", res)
        return res is not None and all(v for k, v in res.items() if not k.startswith("_") and v is not None)
    print("correspondence-only replay (no failing input was found): %s" % {k: c.get(k) for k in ("correspondence", "code", "model")})
    if c.get("cps") is not None and c.get("p") is not None:
        print("code now:", canon(quiet(call, ex.PersLandscapeExact(critical_pairs=c["cps"], hom_deg=0).p_norm, c["p"])))
    return True


MANIFEST = {
    "text": "Proof for natural and real p >= 1: 48 Lean theorems in Props/C10.lean, of which 26 core (the rest: closed forms of single "
            "branches, helpers, bridges between guards, argument validation, regression witnesses; the generated source-translation "
            "file adds its own obligations) about the model of _p_norm / p_norm / sup_norm at the reals. Each "
            "segment term of the model (flat, sign-crossing, one-signed of either sign in the cancellation-free form of fix "
            "b342827, with the code's own -expm1((p+1) log r) for real p) equals the interval integral of |line|^p; the "
            "accumulated value equals the sum over depths of the integral of |evalPL|^p over the support and over the real "
            "line, so the returned norm is its p-th root (pNormMethod_real: validation passes, no error, value = root of the "
            "integral); the sup norm of both classes equals the greatest value of |evalPL| over all depths (attained at a "
            "breakpoint); the value is non-negative, absolutely homogeneous, zero on P - P, and satisfies the triangle "
            "inequality (Minkowski in L^p per depth via Mathlib's lintegral_Lp_add_le, then in l^p over depths) whenever h "
            "represents f + g; base.py rejects exactly p < -1 and -1 < p < 0; the pre-fix formula is refuted by norm_num on "
            "[(0,0),(1,1),(3,-1),(4,0)] (2/3 instead of 4/3). Stability is proved for the mathematical landscape: a partial "
            "matching of cost <= eps gives |lambda_k(t) - lambda'_k(t)| <= eps for all k, t, hence sup-norm distance <= "
            "bottleneck distance. Props/C10Model.lean (12 theorems, 3 core) composes this with C03, C09 and C01 into the clause about what the "
            "models return: if the model of PersLandscapeExact returns on dgms[h] and dgms'[h] (positive-length finite bars, a trailing "
            "infinite bar allowed) with the repeated-bar shortcut fired on neither, the model of P - Q returns R, the model of sup_norm on R "
            "returns m and the model of bottleneck(dgms[h], dgms'[h]) returns d (any oracle returning maximum matchings), then m <= d "
            "(model_sup_norm_sub_le_model_bottleneck; R's depth-k function is lambda_k - lambda'_k and m is the supremum of its absolute value). Guards: the statements are proved for strictly increasing abscissae and again (`..._wf`) for the "
            "class C09's operations produce and preserve (wfDepth: zero end ordinates, a zero-width step only between two copies of "
            "one point) - this includes the depth [[b,0],[b,0],[b,0]] of a zero-length bar and the single point [(x,0)], where a "
            "zero-width flat segment contributes 0 and the sup norm needs no '2 <= length' hypothesis. "
            "The model is tied to the code on every run at Rat (exact p-th power, natural p in 1..20, 1e-9 "
            "relative) and at Float (real p in [1,20]) on exact and grid landscapes (incl. grid landscapes on which no bar is visible: "
            "one zero row, all norms 0), their differences and linear combinations and on synthetic functions with forced zeros, "
            "equal and nearly equal neighbours, repeated points and single-point depths. Tested exponent range: the correspondence "
            "uses p <= 20; a separate [T] stream uses integer and real p up to 100 at scales 2^-21..2^21 and requires a finite, "
            "non-zero value equal (1e-6) to an independent oracle: adaptive quadrature of the landscape rescaled to unit size, "
            "assembled in the log domain. Two known findings are replayed on every run (KNOWN-FINDING lines "
            "while they fail) and recognised by content: (a) M**p is formed in double precision before the root, so p_norm is inf / "
            "0.0 once |p*log2(max|value|) + log2(width)| exceeds about 1000 - attributed only when the value is exactly inf (exponent "
            "> 900), exactly 0.0 (< -900) or, in the gradual-underflow window, off by no more than the 2^-1074 quantisation of the "
            "p-th power explains; NaN, negative, off-by-a-factor values and raises are VIOLATIONs; (b) the stability clause fails "
            "where the C03 repeated-bar shortcut fires - attributed only when P1 and P2 are each the definition's landscape or exactly "
            "the model's shortcut output, `-` and sup_norm are faithful on them and the definition's landscapes satisfy the clause. "
            "A norm that raises on a valid landscape (p >= 1) is a failing input.",
    "note": "Theorems are exact-arithmetic (reals). [T] only: behaviour under float rounding — finiteness, accuracy and the laws "
            "on the real code (law stream + quadrature oracle; this is what exposed the near-flat cancellation repaired by "
            "b342827); the Float model's expm1 is Kahan's exp/log formula (core Lean has no expm1), np.expm1/np.log/C pow are "
            "trusted to agree with it to 1e-9. The stability theorem is about PL.landscape; its transfer to the models of the code's sweep, arithmetic, "
            "sup norm and bottleneck routine is the theorem model_sup_norm_sub_le_model_bottleneck (hypothesis: shortcut not fired) and it is additionally tested against persim.bottleneck on every case (failures where the C03 repeated-bar "
            "shortcut produced the landscape's wrong critical pairs - recognised by content - are the known finding: counted and reported as KNOWN-FINDING, not skipped). Grid landscapes: np.linspace is passed to the model as data (strictly increasing "
            "grid is C08's contract). Trusted: Lean kernel + Mathlib, axioms propext/Classical.choice/Quot.sound; the "
            "correspondence harness and the compiled driver executable (compiled by Lean's compiler, not checked by the kernel). Observation outside the property (p >= 1): p_norm(-1) returns NaN instead of the sup norm, "
            "because both subclasses discard the value of super().p_norm — modelled as is (pNormMethod).",
    "technique": "Lean 4 theorems (Mathlib interval/Bochner integrals, rpow, Minkowski) over a hand-written model + differential correspondence at Rat/Float + quadrature oracle",
}
MANIFEST["note"] += " " + py2lean.manifest_note("pnorm")
MANIFEST["note"] += " " + py2lean.manifest_note("plnorm")
MANIFEST["note"] += ' A third known finding is replayed on every run (common.known_probe): the sign-crossing branch of _p_norm re-evaluates end values through the intercept form and rounds at |slope*x| (2.7e-3 of the value at x0 = 2^30+0.5 for a segment 1e-4 long; DESIGN 10.13).'
