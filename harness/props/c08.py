"""C08 — grid landscapes stay within half a step of the true landscape.

Theorems: lean/PersimVerif/Props/C08.lean (model lean/PersimVerif/Model/Approx.lean over a linear ordered field).
Tie: `PersLandscapeApprox(...).values`, `vectorize`, `death_vector`, `PersistenceLandscaper.fit_transform/transform`
of the real code vs the same model executed at Rat (driver ops `pl.approx`, `pl.transform`, `pl.vectorize`, `pl.death`).
[T]: the half-step bound itself, evaluated on the real code against the exact landscape at the grid nodes
(an independent Fraction oracle, cross-checked against the driver's `pl.lambda.grid`), transformer = approx values
(code against code, diagrams with infinite bars included), vectorize = evalPL of the code's own critical pairs AND
vectorize(PersLandscapeExact(diagram)) against the true landscape at the grid nodes, death vector sorted + permutation
(of the finite deaths: the statement is about finite diagrams).

Known finding `site=persim/landscapes/exact.py:repeated-bar-shortcut`, recognised BY CONTENT: a failing
vectorize(PersLandscapeExact(diagram)) case is attributed to it only if the call returned, vectorize reproduces the
landscape object's OWN critical pairs at the nodes (so the error is upstream, in the landscape) and those critical pairs are
exactly what the Lean model of the sweep with the shortcut returns for the diagram (model's shortcut fired).  A raise, an
unfaithful sampling, or critical pairs wrong in another way are VIOLATIONs even when the trace fired.

What the statement leaves free is not judged (a difference from the model there is a correspondence break, found_input=False):
the DEFAULT grid and default num_steps (the bound is judged on the grid the object itself reports for whatever the caller
left out; it must cover the bars to be judged at all), what `transform` does on a never-fitted transformer (NotFittedError is
scikit-learn's convention), a values array with zero rows (depths not returned count as zero), infinite deaths in
`death_vector`.

A grid on which no bar is visible gives ONE ZERO ROW (np.zeros((1, num_steps)), /repo fix 357d745): the model returns the
same row and arrays are compared as they are; a non-numeric `values` (the former string placeholder ['empty']) on a covering
grid is a violation (it is not a sampled function).

Tolerances (why):
* exact stream — start, step, bar endpoints are small dyadic numbers, `num_steps-1` a power of two or the step given
  directly, so every float operation of the code (linspace, |grid-x|, argmin incl. ties at midpoints, j*step) is
  exact: arrays are compared with `==`.  The harness re-checks that np.linspace really produced the exact grid.
* generic stream — |code-model| <= 1e-9*max(|start|,|stop|,|coordinates|) (no floor: small scales are not vacuous).  Rounding in np.linspace / |grid-x| can flip the snap of
  an endpoint that lies (within rounding) on the midpoint between two nodes; the model then snaps to the other node and
  the arrays differ by up to one step although both are within the bound.  Such cases (some endpoint within
  1e-7 index units, scaled by |coordinates|/step, of a half-integer grid position) are counted as `razor` and only the
  bound is checked on them.
* the bound itself is checked on every covered case as |values[k][i] - lambda_k(g_i)| <= step/2 + 1e-9*max(|start|,|stop|,|coordinates|)
  (on-grid: 0 + that slack, i.e. rounding level relative to the case's own scale):
  a flipped tie still leaves the endpoint step/2 (+rounding) from its node, so no extra allowance is needed.
"""
import contextlib, io, math
from fractions import Fraction as F
import numpy as np
from .. import common
from ..translator import py2lean
from ..common import enc, ask, call
from .. import corethm

LEVEL = "proof"
RULE = ("cases from one PRNG: 1-3 homology degrees of 0-10 bars (thorough: 0-40), coordinates from lattice/half/dyadic/"
        "decimal/uniform modes incl. duplicates, diagonal points and infinite deaths; grids: default (from the diagram), "
        "exactly covering, over-covering, on-grid endpoints, partial (not covering), degenerate start=stop and start>stop; "
        "num_steps 2..40 (thorough ..300) plus 0 and 1; 2 of 9 grid landscapes built with compute=False and computed by "
        "compute_landscape() / compute_landscape(verbose=True); an exact stream on dyadic grids with forced midpoint ties; "
        "vectorize on computed and synthetic critical pairs; transformer with/without flatten, fit_transform and transform; "
        "(both with infinite bars in the diagrams); vectorize of PersLandscapeExact(diagram) against the true landscape "
        "(0-8 bars with duplicates, default/covering/over-covering/partial grids); "
        "death vectors with ties and inf; a malformed stream (empty diagram, missing degree, no diagrams, num_steps=0). "
        "non-trivial = selected degree has >=2 finite bars and the values array is numeric "
        "(vectorize: >=1 depth with >=3 points; death: >=2 deaths); distinct by digest of the whole case")
ASSUMPTIONS = [
    "np.linspace(start, stop, n, retstep=True) returns step=(stop-start)/(n-1) and nodes i*step+start up to rounding (re-checked per case)",
    "np.argmin returns the first minimum; dict(zip(grid, range(n))) keeps the last index of equal keys (both compared through the values on the exact stream)",
    "np.interp(x, xp, fp) is clamped linear interpolation for increasing xp (compared on every vectorize case)",
    "sklearn TransformerMixin.fit_transform(X) = fit(X).transform(X) (compared on every transformer case)",
    "coordinates are finite or +inf; -inf/NaN inputs are outside the model",
]
TRUSTED = ["harness/props/c08.py Fraction oracle for the true landscape (cross-checked against the driver's pl.lambda.grid on every run)",
           "the guarded trace persim.landscapes.exact._VERIF_TRACE is only counted; the known finding is recognised by content (faithful "
           "sampling of critical pairs that equal the Lean model's shortcut output)",
           "the compiled driver executable is trusted as compiled by Lean's compiler, not checked by the kernel"]
# theorems that carry a clause of the property (helpers, concrete instances and definitional restatements excluded)
CORE_THEOREMS = ["kth_lipschitz", "snap_error", "tent_lipschitz", "ramps_are_snapped_tents", "approx_shape", "approx_rows",
                 "approx_half_step", "approx_half_step_default", "transformer_flat_entry", "fit_transform_eq_transform",
                 "vectorize_samples_evalPL", "death_vector_sorted",
                 # composed with the C03 model (Props/C08Model.lean): vectorize(PersLandscapeExact(...)) samples the landscape
                 "model_vectorize_of_exact_not_fired", "model_vectorize_of_exact_returns", "model_vectorize_of_exact_is_landscape",
                 "model_vectorize_of_exact_is_landscape_of_distinct_deaths", "npInterp_linearInterp"]
KNOWN_KEY = "repeated-bar-shortcut"
KNOWN_SITE = "site=persim/landscapes/exact.py:repeated-bar-shortcut"
KNOWN_CASE = {"op": "vectorize_true", "bars": [[1.0, 5.0], [1.0, 5.0], [3.0, 6.0]], "start": 1.0, "stop": 6.0, "n": 11}
TOL = 1e-9
DEFAULT_STEPS = 500


# ----------------------------------------------------------------------------- real code

def _quiet(fn, *a, **k):
    with contextlib.redirect_stdout(io.StringIO()):
        return call(fn, *a, **k)


def arr(d):
    return np.array(d, dtype=float).reshape(-1, 2)


def canon_values(v):
    """the code's `values` as a list of rows of floats; a non-numeric array (the string placeholder ['empty'] of the code
    before /repo fix 357d745) becomes the tag 'str:[...]', which equals no model answer"""
    v = np.asarray(v)
    if v.dtype.kind not in "fiub":
        return "str:%r" % (v.tolist(),)
    return v.astype(float).tolist()


def route_of(idx):
    """how the grid landscape of the idx-th case of a stream is obtained (a fixed schedule, no random draw): on construction
    (7 of 9), or built with compute=False and computed by the public `compute_landscape()` / `compute_landscape(verbose=True)`
    (progress messages on stdout, discarded) - the same object either way, so the same bound applies"""
    return {4: "lazy_verbose", 7: "lazy"}.get(idx % 9, "eager")


def code_approx(dgms, hd, start, stop, n, grid_out=None, route="eager"):
    PLA = common.pm("landscapes.approximate").PersLandscapeApprox
    kw = {} if n == DEFAULT_STEPS else {"num_steps": n}      # 500 is the default: leave it to the code
    if route not in (None, "eager"):
        kw["compute"] = False
    st, v, _ = _quiet(lambda: PLA(dgms=[arr(d) for d in dgms], hom_deg=hd, start=start, stop=stop, **kw))
    if st == "err":
        return "err:" + v
    if route not in (None, "eager"):
        st, e, _ = _quiet(lambda: v.compute_landscape(verbose=True) if route == "lazy_verbose" else v.compute_landscape())
        if st == "err":
            return "err:" + e
    if grid_out is not None:
        grid_out.extend([v.start, v.stop, v.num_steps])
    return canon_values(v.values)


def code_transform(dgms, hd, start, stop, n, flatten, fit, grid_out=None):
    """-> values | 'err:Kind'; grid_out receives the transformer's own (start, stop, num_steps) after the call"""
    T = common.pm("landscapes.transformer").PersistenceLandscaper
    X = [arr(d) for d in dgms]

    kw = {} if n == DEFAULT_STEPS else {"num_steps": n}
    box = []

    def go():
        t = T(hom_deg=hd, start=start, stop=stop, flatten=flatten, **kw)
        box.append(t)
        if fit == "fit_transform":
            return t.fit_transform(X)
        if fit == "fit+transform":
            return t.fit(X).transform(X)
        return t.transform(X)
    st, v, _ = _quiet(go)
    if grid_out is not None and box:
        try:
            grid_out.extend([box[0].start, box[0].stop, box[0].num_steps])
        except Exception:
            pass
    return "err:" + v if st == "err" else canon_values(v)


def code_vectorize(cps, start, stop, n, grid_out=None):
    PLE = common.pm("landscapes.exact").PersLandscapeExact
    vec = common.pm("landscapes.tools").vectorize
    kw = {} if n == DEFAULT_STEPS else {"num_steps": n}
    st, v, _ = _quiet(lambda: vec(PLE(critical_pairs=[[list(p) for p in d] for d in cps], hom_deg=0),
                                  start=start, stop=stop, **kw))
    if st == "err":
        return "err:" + v
    if grid_out is not None:
        grid_out.extend([v.start, v.stop, v.num_steps])
    return canon_values(v.values)


def code_death(dgms, hd):
    dv = common.pm("landscapes.tools").death_vector
    st, v, _ = call(dv, [arr(d) for d in dgms], hd)
    return "err:" + v if st == "err" else [float(x) for x in v]


# ----------------------------------------------------------------------------- independent oracle (Fractions)

def fr(x):
    return F(*float(x).as_integer_ratio())


def finite_bars(d):
    return [b for b in d if not (b[0] == math.inf or b[1] == math.inf)]


def tent(b, d, t):
    return max(F(0), min(t - b, d - t))


def true_landscape(bars, nodes):
    """rows k = 0..len(bars)-1 of lambda_k at the given nodes (Fractions)"""
    bs = [(fr(b), fr(d)) for b, d in bars]
    cols = [sorted((tent(b, d, t) for b, d in bs), reverse=True) for t in nodes]
    return [[c[k] for c in cols] for k in range(len(bs))]


def exact_grid(start, stop, n):
    s, e = fr(start), fr(stop)
    step = (e - s) / (n - 1)
    return step, [s + i * step for i in range(n)]


def eval_pl(cps, t):
    """linear interpolation of critical pairs, 0 outside (Fractions)"""
    if len(cps) < 2 or t < cps[0][0] or t > cps[-1][0]:
        return F(0)
    for (x0, y0), (x1, y1) in zip(cps, cps[1:]):
        if x0 <= t <= x1:
            return y0 + (y1 - y0) * (t - x0) / (x1 - x0)
    return F(0)


def judged_grid(c, used):
    """the grid on which the statement is judged: what the caller gave; for what the caller left to the code (start / stop
    None, num_steps omitted) the value the object itself reports.  The statement quantifies over grids that contain every
    birth and death; it does not fix the default.  -> (start, stop, n) or None"""
    try:
        s = float(c["start"]) if c["start"] is not None else float(used[0])
        e = float(c["stop"]) if c["stop"] is not None else float(used[1])
        n = int(c["n"]) if c["n"] != DEFAULT_STEPS else int(used[2])
    except (TypeError, ValueError, IndexError):
        return None
    if not (math.isfinite(s) and math.isfinite(e)):
        return None
    return s, e, n


def nat_scale(start, stop, bars=()):
    """natural scale of a case: the largest |coordinate| of grid and bars (no floor: a grid in units of 2^-20 is judged in
    those units)"""
    return max([abs(float(start)), abs(float(stop))] + [abs(float(x)) for b in bars for x in b if math.isfinite(float(x))])


def covers(bars, start, stop):
    return all(start <= b <= stop and start <= d <= stop for b, d in bars)


def bound_check(vals, bars, start, stop, n):
    """the statement of C08 on the real code's output.  Returns (ok, detail, on_grid)."""
    scale = nat_scale(start, stop, bars)
    step, nodes = exact_grid(start, stop, n)
    lam = true_landscape(bars, nodes)
    rows = vals
    # zero rows are allowed: depths beyond those returned count as zero
    if not isinstance(rows, list) or any(not isinstance(r, list) or len(r) != n for r in rows):
        return False, "values is not a depth x num_steps array", False
    nodeset = set(nodes)
    on_grid = all(fr(b) in nodeset and fr(d) in nodeset for b, d in bars)
    worst = F(0)
    where = None
    for k in range(max(len(rows), len(lam))):
        for i in range(n):
            v = fr(rows[k][i]) if k < len(rows) else F(0)
            t = lam[k][i] if k < len(lam) else F(0)
            if abs(v - t) > worst:
                worst, where = abs(v - t), (k, i, float(v), float(t))
    lim = (F(0) if on_grid else step / 2)
    ok = float(worst - lim) <= TOL * scale
    return ok, {"worst": float(worst), "half_step": float(step / 2), "where": where, "on_grid": on_grid}, on_grid


def razor(bars, start, stop, n):
    """some endpoint sits (within rounding) on a midpoint between two nodes"""
    if n < 2 or start == stop:
        return False
    step, _ = exact_grid(start, stop, n)
    scale = nat_scale(start, stop)
    thr = 1e-7 * max(1.0, scale / abs(float(step)))
    for b in bars:
        for x in b:
            q = (fr(x) - fr(start)) / step
            if abs(float(q - math.floor(q)) - 0.5) <= thr:
                return True
    return False


def eqx(a, m):
    """exact equality of a float of the code and a decoded model number"""
    if isinstance(m, str) or isinstance(a, str):
        return a == m
    if math.isinf(a) or (isinstance(m, float) and math.isinf(m)):
        return a == m
    return fr(a) == m


def same(code, model, exact, scale):
    if isinstance(code, str) or isinstance(model, str):
        return code == model
    if exact:
        return len(code) == len(model) and all(
            (isinstance(m, list) and len(r) == len(m) and all(eqx(a, b) for a, b in zip(r, m))) if isinstance(r, list)
            else (not isinstance(m, list) and eqx(r, m))
            for r, m in zip(code, model))
    return close_rel(code, model, TOL * scale)


def close_rel(a, b, slack):
    """nested comparison with an absolute slack the caller derives from the natural scale (no max(1, .) floor)"""
    if isinstance(a, (list, tuple)) or isinstance(b, (list, tuple)):
        return isinstance(a, (list, tuple)) and isinstance(b, (list, tuple)) and len(a) == len(b) and \
            all(close_rel(x, y, slack) for x, y in zip(a, b))
    if isinstance(a, str) or isinstance(b, str) or a is None or b is None:
        return a == b
    a, b = float(a), float(b)
    if math.isnan(a) or math.isnan(b):
        return math.isnan(a) and math.isnan(b)
    if math.isinf(a) or math.isinf(b):
        return a == b
    return abs(a - b) <= slack


# ----------------------------------------------------------------------------- generators

def gen_dgms(ctx, nmax, inf_p=0.15):
    g, r = ctx.gen, ctx.rng
    mode = g.mode()
    out = []
    for _ in range(r.randint(1, 3)):
        d = g.diagram(nmax, mode=mode, allow_diag=r.random() < 0.3, allow_empty=r.random() < 0.15)
        if d and r.random() < inf_p:
            d.insert(r.randint(0, len(d)), [d[0][0], math.inf])
        out.append(d)
    return out


def gen_generic(ctx):
    """generic stream: grid chosen relative to the diagram"""
    r = ctx.rng
    nmax = ctx.n(10, 40) if r.random() < 0.8 else 3
    dgms = gen_dgms(ctx, nmax)
    hd = r.randrange(len(dgms))
    bars = finite_bars(dgms[hd])
    n = r.choice([2, 2, 3, 3, 4, 5, 6, 7, 8, 9, 10, 12, 16, 17, 25, 33, 40] + ([64, 100, 129, 300] if ctx.thorough else []))
    if r.random() < 0.04:
        n = r.choice([129, DEFAULT_STEPS])
    kind = r.choice(["default", "default", "cover", "over", "over", "partial", "integer"])
    if not bars and kind == "default" and r.random() < 0.8:
        kind = "over"
    lo = min([b[0] for b in bars] + [b[1] for b in bars]) if bars else 0.0
    hi = max([b[0] for b in bars] + [b[1] for b in bars]) if bars else 1.0
    span = (hi - lo) or 1.0
    if kind == "default":
        start = stop = None
    elif kind == "cover":
        start, stop = lo, hi
    elif kind == "over":
        start, stop = lo - span * r.choice([0.0, 0.25, 0.3, 1.0]), hi + span * r.choice([0.0, 0.125, 0.7, 2.0])
    elif kind == "integer":
        start, stop = float(math.floor(lo) - r.randint(0, 2)), float(math.ceil(hi) + r.randint(0, 2))
        if r.random() < 0.5:
            n = int(stop - start) * r.choice([1, 2]) + 1
            if n < 2 or n > ctx.n(60, 300):
                n = 5
    else:
        start, stop = lo + span * r.choice([0.0, 0.25, 0.4]), hi - span * r.choice([0.1, 0.25, 0.4])
    return {"op": "approx", "dgms": dgms, "hom_deg": hd, "start": start, "stop": stop, "n": n, "kind": kind, "exact": False}


def gen_exact(ctx):
    """exact stream: dyadic grid, endpoints on nodes / midpoints / quarter points (ties forced)"""
    r = ctx.rng
    u = 2.0 ** r.choice([-20, -3, 0, 0, 0, 3, 20])
    if r.random() < 0.5:
        m = r.randint(0, 6 if not ctx.thorough else 8)
        n = 2 ** m + 1
        step = r.randint(1, 64) * u / 2 ** m
    else:
        n = r.randint(2, ctx.n(40, 200))
        step = r.randint(1, 8) * u / 2 ** r.randint(0, 3)
    start = r.randint(-40, 40) * u / 8
    stop = start + (n - 1) * step
    kind = r.choice(["ongrid", "ongrid", "half", "quarter", "quarter", "beyond", "descending", "degenerate"])
    den = {"ongrid": 1, "half": 2}.get(kind, 4)
    lo_i, hi_i = (0, (n - 1) * den) if kind != "beyond" else (-2 * den, (n + 1) * den)
    dgms = []
    for _ in range(r.randint(1, 3)):
        d = []
        for _ in range(r.randint(0, ctx.n(8, 30))):
            if d and r.random() < 0.2:
                d.append(list(r.choice(d)))
                continue
            a, b = r.randint(lo_i, hi_i), r.randint(lo_i, hi_i)
            if a > b:
                a, b = b, a
            if a == b and r.random() < 0.7:
                b = min(hi_i, a + r.randint(1, 3 * den))
            d.append([start + a * step / den, start + b * step / den])
        if d and r.random() < 0.1:
            d.append([d[0][0], math.inf])
        dgms.append(d)
    hd = r.randrange(len(dgms))
    s, e = start, stop
    if kind == "descending":
        s, e = stop, start
    elif kind == "degenerate":
        e = s
    elif kind == "ongrid" and finite_bars(dgms[hd]) and r.random() < 0.3:
        s = e = None         # defaults: min birth / max death are nodes, but the grid changes: not on-grid any more
    return {"op": "approx", "dgms": dgms, "hom_deg": hd, "start": s, "stop": e, "n": n, "kind": "x-" + kind, "exact": True}


def gen_stress(ctx):
    """float-stress: decimal grids (step 0.1, 0.05, 0.3/7 ...) with endpoints on decimal nodes and midpoints, where
    np.linspace / |grid-x| round and an argmin tie can flip either way; only the bound is asserted on razor cases"""
    r = ctx.rng
    n = r.choice([4, 6, 8, 11, 21, 31, 41, 101])
    unit = r.choice([0.1, 0.7, 1.0 / 3.0, 0.3, 1e-3, 187 * 0.2])
    start = r.choice([0.0, 0.1, -0.3, 1.0 / 3.0, 0.7])
    stop = start + unit * (n - 1)
    gv = np.linspace(start, stop, n)
    dgms = [[]]
    for _ in range(r.randint(1, ctx.n(8, 25))):
        i, j = sorted(r.sample(range(n), 2))
        where = r.choice(["node", "mid", "mid", "near"])
        if where == "node":
            b, d = float(gv[i]), float(gv[j])
        elif where == "mid":
            b, d = (float(gv[i]) + float(gv[min(i + 1, n - 1)])) / 2, (float(gv[j - 1]) + float(gv[j])) / 2
        else:
            b, d = start + unit * (i + 0.5), start + unit * (j - 0.5)       # the midpoint computed another way
        if b > d:
            b, d = d, b
        dgms[0].append([min(max(b, start), stop), min(max(d, start), stop)])
    return {"op": "approx", "dgms": dgms, "hom_deg": 0, "start": start, "stop": stop, "n": n, "kind": "stress", "exact": False}


def gen_malformed(ctx):
    r = ctx.rng
    k = r.choice(["empty-default", "all-inf", "missing-degree", "no-diagrams", "zero-steps", "zero-steps-empty", "one-step"])
    c = {"op": "approx", "dgms": [[[0.0, 3.0], [1.0, 4.0]]], "hom_deg": 0, "start": None, "stop": None, "n": 5, "kind": "bad-" + k, "exact": True}
    if k == "empty-default":
        c["dgms"] = [[]]
        if r.random() < 0.5:
            c["start"] = 0.0
    elif k == "all-inf":
        c["dgms"] = [[[0.0, math.inf]]]
    elif k == "missing-degree":
        c["hom_deg"] = r.randint(1, 3)
    elif k == "no-diagrams":
        c["dgms"] = []
    elif k == "zero-steps":
        c["n"] = 0
    elif k == "zero-steps-empty":
        c["n"], c["dgms"], c["start"], c["stop"] = 0, [[]], 0.0, 1.0
    else:
        c["n"] = 1
    return c


def resolved_grid(c):
    """(start, stop) the constructor ends up with, or None when it raises / is not applicable"""
    if not c["dgms"] or c["hom_deg"] >= len(c["dgms"]):
        return None
    bars = finite_bars(c["dgms"][c["hom_deg"]])
    s, e = c["start"], c["stop"]
    if (s is None or e is None) and not bars:
        return None
    if s is None:
        s = min(b[0] for b in bars)
    if e is None:
        e = max(b[1] for b in bars)
    return s, e


# ----------------------------------------------------------------------------- streams

def approx_line(c):
    return "pl.approx %s %d %s %s %d" % (enc(c["dgms"]), c["hom_deg"], enc(c["start"]), enc(c["stop"]), c["n"])


def check_approx_case(ctx, c, model, corr_failures):
    """one PersLandscapeApprox case: the property on the real code, then code against model"""
    used = []
    code = code_approx(c["dgms"], c["hom_deg"], c["start"], c["stop"], c["n"], used, route=c.get("route"))
    ctx.count("approx-route:" + (c.get("route") or "eager"))
    grid = resolved_grid(c)                        # the model's grid: the one given, else [min birth, max death]
    valid = bool(c["dgms"]) and 0 <= c["hom_deg"] < len(c["dgms"])
    bars = finite_bars(c["dgms"][c["hom_deg"]]) if valid else []
    jg = judged_grid(c, used) if used else None    # the grid the statement is judged on: given values, else the object's own
    grid_differs = False
    if used and grid is not None and jg is not None:
        # which default the code picks (and what its attributes report) is not fixed by the statement: correspondence only
        try:
            grid_differs = not (float(used[0]) == grid[0] and float(used[1]) == grid[1] and int(used[2]) == c["n"])
        except (TypeError, ValueError):
            grid_differs = True
        ctx.test("grid_is_given_or_models_default(correspondence)", not grid_differs)
    nontriv = len(bars) >= 2 and isinstance(code, list)
    ctx.case({k: c[k] for k in ("op", "dgms", "hom_deg", "start", "stop", "n")}, nontriv, sample_every=211)
    ctx.count("approx:" + c["kind"])
    ctx.count("approx-result:" + (code if isinstance(code, str) else "rows"))
    if isinstance(code, list) and bars and len(code) == 1 and not any(code[0]):
        ctx.count("approx-result:one-zero-row-with-%s" % ("bars-shorter-than-a-step" if c["n"] >= 3 else "2-node-grid"))
    prop_ok = True
    if isinstance(code, str) and valid and grid is not None and c["n"] >= 2 and grid[0] <= grid[1] and covers(bars, grid[0], grid[1]):
        # a covering grid (given, or - all defaults - whatever the code would pick) and no numeric result
        prop_ok = False
        ctx.test("half_step_bound", False)
        ctx.violation("PersLandscapeApprox returns no numeric values on a covering grid: %s" % code, dict(c, code=code),
                      found_input=True, law="half_step_bound")
    elif not isinstance(code, str) and valid and jg is not None and jg[2] >= 2 and jg[0] <= jg[1] and covers(bars, jg[0], jg[1]):
        s, e, n = jg
        ok, detail, on_grid = bound_check(code, bars, s, e, n)
        ctx.test("half_step_bound", ok)
        if on_grid:
            ctx.test("exact_on_grid", ok)
        if not ok:
            prop_ok = False
            ctx.violation("PersLandscapeApprox values are farther than %s from the true landscape on the grid [%r, %r] x %d: %r"
                          % ("0 (all endpoints are nodes)" if on_grid else "step/2", s, e, n, detail),
                          dict(c, code=code), found_input=True, law="half_step_bound", detail=detail, judged_grid=[s, e, n])
    elif not isinstance(code, str) and valid and jg is not None and (c["start"] is None or c["stop"] is None) and bars \
            and jg[2] >= 2 and jg[0] <= jg[1]:
        ctx.count("default-grid-of-the-code-does-not-cover-the-bars(not judged)")
    if grid_differs:
        corr_failures.append((dict(c, grid_reported=[_short(x, 40) for x in used]), code, model, prop_ok))
        return prop_ok
    # exactness of the code's own grid on the exact stream (harness self-check; falls back to the tolerance)
    exact = c["exact"]
    scale = 1.0
    if grid:
        s, e = grid
        scale = nat_scale(s, e, bars)
        if exact and c["n"] >= 2:
            gv, st = np.linspace(s, e, c["n"], retstep=True)
            stepx, nodes = exact_grid(s, e, c["n"])
            if fr(st) != stepx or any(fr(a) != b for a, b in zip(gv, nodes)):
                exact = False
                ctx.count("exact-stream-grid-not-exact")
    rz = (not exact) and grid is not None and razor(bars, grid[0], grid[1], c["n"])
    if rz:
        ctx.count("razor")
        return prop_ok
    if not same(code, model, exact, scale):
        corr_failures.append((c, code, model, prop_ok))
    return prop_ok


def stream_approx(ctx, corr_failures):
    r = ctx.rng
    corpus = [
        {"op": "approx", "dgms": [[[0.0, 3.0], [1.0, 4.0]]], "hom_deg": 0, "start": None, "stop": None, "n": 5, "kind": "corpus", "exact": True},
        {"op": "approx", "dgms": [[[0.0, 3.0], [1.0, 4.0]]], "hom_deg": 0, "start": 1.0, "stop": 2.0, "n": 5, "kind": "corpus", "exact": True},
        {"op": "approx", "dgms": [[[0.0, 3.0], [1.0, 4.0]]], "hom_deg": 0, "start": None, "stop": None, "n": 2, "kind": "corpus", "exact": True},
        {"op": "approx", "dgms": [[[2.0, 2.0]]], "hom_deg": 0, "start": None, "stop": None, "n": 4, "kind": "corpus", "exact": True},
        {"op": "approx", "dgms": [[[0.0, 0.5], [0.5, 1.5], [1.5, 3.0]]], "hom_deg": 0, "start": 0.0, "stop": 3.0, "n": 4, "kind": "corpus", "exact": True},
        {"op": "approx", "dgms": [[[0.0, 7.0]], [[1.0, 6.0], [1.0, 6.0], [2.0, 5.0]]], "hom_deg": 1, "start": 0.0, "stop": 7.0, "n": 8, "kind": "corpus", "exact": True},
        {"op": "approx", "dgms": [[[0.1, 0.7], [0.2, 0.9]]], "hom_deg": 0, "start": 0.0, "stop": 1.0, "n": 11, "kind": "corpus", "exact": False},
    ]
    cases = list(corpus)
    for _ in range(ctx.n(1500, 9000)):
        cases.append(gen_generic(ctx))
    for _ in range(ctx.n(1500, 9000)):
        cases.append(gen_exact(ctx))
    for _ in range(ctx.n(40, 200)):
        cases.append(gen_malformed(ctx))
    for _ in range(ctx.n(300, 3000)):
        cases.append(gen_stress(ctx))
    answers = ask([approx_line(c) for c in cases])
    for idx, (c, ans) in enumerate(zip(cases, answers)):
        c["route"] = route_of(idx)
        check_approx_case(ctx, c, ans, corr_failures)
        if len(ctx.violations) > 5:
            return
    # oracle cross-check: the Fraction oracle against the driver's exact landscape at the nodes
    sub = [c for c in cases if resolved_grid(c) and c["n"] >= 2][:: max(1, len(cases) // ctx.n(150, 1500))]
    lines = []
    for c in sub:
        s, e = resolved_grid(c)
        lines.append("pl.lambda.grid %s %s %s %d" % (enc(finite_bars(c["dgms"][c["hom_deg"]])), enc(s), enc(e), c["n"]))
    for c, ans in zip(sub, ask(lines)):
        s, e = resolved_grid(c)
        mine = true_landscape(finite_bars(c["dgms"][c["hom_deg"]]), exact_grid(s, e, c["n"])[1])
        ctx.test("oracle_vs_driver_lambda", mine == ans)
        if mine != ans:
            raise common.HarnessError("Fraction oracle and driver pl.lambda.grid disagree on %r" % (c,))


def stream_transform(ctx, corr_failures):
    r = ctx.rng
    cases = []
    for i in range(ctx.n(600, 4000)):
        c = gen_exact(ctx) if i % 2 else gen_generic(ctx)
        # infinite bars stay in the diagrams: `fit` must ignore them exactly as the constructor does (/repo fix b209c93)
        if c["hom_deg"] < len(c["dgms"]) and finite_bars(c["dgms"][c["hom_deg"]]) and r.random() < 0.25:
            d = c["dgms"][c["hom_deg"]]
            for _ in range(r.randint(1, 2)):
                d.insert(r.randint(0, len(d)), [r.choice(finite_bars(d))[0], math.inf])
        if r.random() < 0.05:
            c["hom_deg"] = len(c["dgms"]) + r.randint(0, 1)
        if c["start"] is not None and c["stop"] is not None and r.random() < 0.15:
            # exactly ONE end of the grid fixed by the user (start=0 for an H1 diagram, stop=the filtration threshold),
            # the other left to be learned: fit must keep the given end
            c["start" if r.random() < 0.5 else "stop"] = None
            ctx.count("transform:half_fixed_grid")
        c["op"] = "transform"
        c["flatten"] = r.random() < 0.6
        c["fit"] = r.choice(["fit_transform", "fit+transform", "transform"])
        if c["fit"] == "transform" and (c["start"] is None or c["stop"] is None) and r.random() < 0.8:
            g = resolved_grid(c)
            if g:
                c["start"], c["stop"] = g
        cases.append(c)
    lines = ["pl.transform %s %d %s %s %d %s %s" % (enc(c["dgms"]), c["hom_deg"], enc(c["start"]), enc(c["stop"]), c["n"],
                                                     enc(c["flatten"]), enc(c["fit"] != "transform")) for c in cases]
    for c, model in zip(cases, ask(lines)):
        ok, code, direct, tg = transform_eval(c)
        full = c["dgms"][c["hom_deg"]] if c["hom_deg"] < len(c["dgms"]) else []
        bars = finite_bars(full)
        ctx.case({k: c[k] for k in ("op", "dgms", "hom_deg", "start", "stop", "n", "flatten", "fit")},
                 len(bars) >= 2 and isinstance(code, list), sample_every=173)
        ctx.count("transform:%s:%s" % (c["fit"], "flat" if c["flatten"] else "2d"))
        if len(full) > len(bars):
            ctx.count("transform:with-infinite-bars:" + c["fit"])
        if ok is None:
            # `transform` on a transformer that was never fitted raised: the statement is about fitted transformers
            # (scikit-learn's convention is NotFittedError); only the model comparison below sees it
            ctx.count("transform:unfitted-transform-raised(not judged):" + code)
        else:
            ctx.test("transformer_is_approx", ok)
        if ok is False:
            ctx.violation("PersistenceLandscaper.%s does not return the values of PersLandscapeApprox on the transformer's grid %r%s: "
                          "transformer=%s approx=%s" % (c["fit"], tg, " flattened row-major" if c["flatten"] else "",
                                                        _short(code), _short(direct)),
                          dict(c), found_input=True, law="transformer_is_approx")
            if len(ctx.violations) > 5:
                return
        g = resolved_grid(c)
        exact, scale = c["exact"], 1.0
        if g:
            scale = nat_scale(g[0], g[1], bars)
            if exact and c["n"] >= 2:
                gv, st = np.linspace(g[0], g[1], c["n"], retstep=True)
                stepx, nodes = exact_grid(g[0], g[1], c["n"])
                exact = fr(st) == stepx and all(fr(a) == b for a, b in zip(gv, nodes))
            if not exact and razor(bars, g[0], g[1], c["n"]):
                ctx.count("razor")
                continue
        if not same(code, model, exact, scale):
            corr_failures.append((c, code, model, ok is not False))


def transform_eval(c):
    """the transformer clause on one case, code against code: the output must be exactly the values of PersLandscapeApprox on
    the grid the TRANSFORMER ends up with (what the caller gave; what `fit` learned for the rest - the statement does not fix
    that default), row-major when flattened.  -> (ok | None = not judged, transformer output, approx values, grid)"""
    tg = []
    code = code_transform(c["dgms"], c["hom_deg"], c["start"], c["stop"], c["n"], c["flatten"], c["fit"], tg)
    is_err = lambda v: isinstance(v, str) and v.startswith("err:")
    s, e, n = c["start"], c["stop"], c["n"]
    if len(tg) == 3 and not is_err(code):
        s = tg[0] if s is None else s
        e = tg[1] if e is None else e
        n = tg[2] if n == DEFAULT_STEPS and isinstance(tg[2], (int, np.integer)) else n
    direct = code_approx(c["dgms"], c["hom_deg"], s, e, n)
    want = direct
    if isinstance(direct, list) and c["flatten"]:
        want = [x for row in direct for x in row]
    if is_err(code) and c["fit"] == "transform" and not is_err(direct):
        return None, code, direct, (s, e, n)
    # both raise: the kinds are compared with the model (fit may raise before the constructor does)
    ok = (is_err(code) and is_err(direct)) or code == want
    return ok, code, direct, (s, e, n)


def fit_other_eval(c):
    """fit on one collection, transform ANOTHER one lying inside the fitted grid (fit on train, transform on test): the
    output must be the approximate landscape of the transformed diagram on the grid learned by fit"""
    T = common.pm("landscapes.transformer").PersistenceLandscaper
    A = common.pm("landscapes.approximate").PersLandscapeApprox
    X, Y = [arr(d) for d in c["train"]], [arr(d) for d in c["test"]]

    def go():
        t = T(hom_deg=c["hom_deg"], flatten=c["flatten"], num_steps=c["n"])
        t.fit(X)
        out = t.transform(Y)
        ref = A(dgms=[np.array(y, copy=True) for y in Y], hom_deg=c["hom_deg"], start=t.start, stop=t.stop, num_steps=c["n"]).values
        return out, ref, (float(t.start), float(t.stop))
    st, v, _ = _quiet(go)
    if st == "err":
        return False, "raised " + str(v)
    out, ref, grid = v
    want = np.asarray(ref, dtype=float)
    want = want.flatten() if c["flatten"] else want
    got = np.asarray(out, dtype=float)
    if got.shape != want.shape or not np.array_equal(got, want):
        return False, "transform(test) after fit(train) on grid %r: %r, approximate landscape of the test diagram on that grid: %r" % (
            grid, got.tolist(), want.tolist())
    return True, ""


def stream_fit_other(ctx):
    r = ctx.rng
    for _ in range(ctx.n(300, 3000)):
        c0 = gen_exact(ctx) if r.random() < 0.5 else gen_generic(ctx)
        hd = c0["hom_deg"]
        if hd >= len(c0["dgms"]):
            continue
        bars = finite_bars(c0["dgms"][hd])
        if len(bars) < 2:
            continue
        lo, hi = min(b for b, _ in bars), max(d for _, d in bars)
        test = []
        for _ in range(r.randint(1, 4)):                 # bars inside the fitted range, not the fitted bars themselves
            b, d = r.choice(bars)
            b2 = r.choice([b, (b + d) / 2, (lo + b) / 2, lo])
            d2 = r.choice([d, (b2 + d) / 2 if (b2 + d) / 2 > b2 else d, (d + hi) / 2, hi])
            if b2 < d2:
                test.append([b2, d2])
        if not test:
            continue
        tdg = [list(map(list, d)) for d in c0["dgms"]]
        tdg[hd] = test
        c = {"op": "fit_other", "train": c0["dgms"], "test": tdg, "hom_deg": hd, "n": c0["n"], "flatten": r.random() < 0.5}
        ok, why = fit_other_eval(c)
        ctx.test("transformer_fit_train_transform_test_is_approx", ok)
        if not ok:
            ctx.violation("PersistenceLandscaper: " + why[:600], c, found_input=True, law="fit_other")
            return


def synth_cps(ctx):
    """synthetic critical pairs: increasing abscissae, mostly zero end values"""
    r = ctx.rng
    out = []
    for _ in range(r.randint(1, 4)):
        m = r.randint(1, 7)
        xs = sorted(set(r.randint(-16, 48) / 4.0 for _ in range(m + 1)))
        ys = [r.randint(-8, 16) / 2.0 for _ in xs]
        if r.random() < 0.8:
            ys[0] = ys[-1] = 0.0
        out.append([[x, y] for x, y in zip(xs, ys)])
    return out


def stream_vectorize(ctx, corr_failures):
    r = ctx.rng
    PLE = common.pm("landscapes.exact").PersLandscapeExact
    cases = []
    for i in range(ctx.n(600, 4000)):
        if i % 3 == 2:
            cps, src = synth_cps(ctx), "synthetic"
        else:
            mode = ctx.gen.mode()
            bars = [b for b in ctx.gen.diagram(ctx.n(8, 25), mode=mode, allow_diag=False, allow_empty=False) if b[1] > b[0]]
            if not bars:
                continue
            st, L, _ = call(lambda: PLE(dgms=[arr(bars)], hom_deg=0).critical_pairs)
            if st == "err":
                continue
            cps, src = [[[float(x), float(y)] for x, y in d] for d in L], "exact-landscape"
        xs0 = [p[0] for p in cps[0]]
        lo, hi = min(xs0), max(xs0)
        span = (hi - lo) or 1.0
        kind = r.choice(["default", "cover", "over", "partial", "bad"]) if r.random() < 0.9 else "default"
        n = r.choice([1, 2, 3, 5, 8, 9, 17, 33, 40] + ([129, 300] if ctx.thorough else []))
        if r.random() < 0.04:
            n = DEFAULT_STEPS
        if kind == "default":
            s = e = None
        elif kind == "cover":
            s, e = lo, hi
        elif kind == "over":
            s, e = lo - span * r.choice([0.25, 1.0]), hi + span * r.choice([0.5, 2.0])
        elif kind == "partial":
            s, e = lo + span * 0.25, hi - span * 0.125
        else:
            s, e = hi, lo
            if r.random() < 0.3:
                n = 0
        cases.append({"op": "vectorize", "cps": cps, "start": s, "stop": e, "n": n, "src": src, "kind": kind})
    lines = ["pl.vectorize %s %s %s %d" % (enc(c["cps"]), enc(c["start"]), enc(c["stop"]), c["n"]) for c in cases]
    for c, model in zip(cases, ask(lines)):
        ok, code, scale, jg = vectorize_eval(c)
        ctx.case({k: c[k] for k in ("op", "cps", "start", "stop", "n")}, any(len(d) >= 3 for d in c["cps"]) and isinstance(code, list),
                 sample_every=131)
        ctx.count("vectorize:%s:%s" % (c["src"], c["kind"]))
        if ok is not None:
            ctx.test("vectorize_samples_evalPL", ok)
            if not ok:
                ctx.violation("vectorize does not reproduce the exact landscape's values at the grid points of [%r, %r] x %r" % jg,
                              dict(c, code=code), found_input=True, law="vectorize_samples_evalPL")
                if len(ctx.violations) > 5:
                    return
        if not same(code, model, False, scale):
            corr_failures.append((c, code, model, ok is not False))


def vectorize_eval(c):
    """the vectorize clause on synthetic / computed critical pairs: the values must be the linear interpolation of the landscape's
    own critical pairs at the nodes of the grid (given values; for start / stop / num_steps left to the code, what the returned
    object reports).  -> (ok | None = not judged, values, scale, judged grid)"""
    used = []
    code = code_vectorize(c["cps"], c["start"], c["stop"], c["n"], used)
    xs0 = [p[0] for p in c["cps"][0]]
    ms = min(xs0) if c["start"] is None else c["start"]          # the model's defaults (correspondence)
    me = max(xs0) if c["stop"] is None else c["stop"]
    scale = max([abs(ms), abs(me)] + [abs(p[1]) for d in c["cps"] for p in d])
    jg = judged_grid(c, used) if used else None
    wellformed = all(len(d) >= 2 and d[0][1] == 0 and d[-1][1] == 0 for d in c["cps"])
    if not (isinstance(code, list) and wellformed and jg is not None and jg[2] >= 1):
        return None, code, scale, jg
    s, e, n = jg
    if any(not isinstance(r, list) or len(r) != n for r in code) or len(code) > len(c["cps"]):
        return False, code, scale, jg
    gv = np.linspace(s, e, n)
    sc = max([abs(s), abs(e)] + [abs(p[1]) for d in c["cps"] for p in d] + [abs(p[0]) for d in c["cps"] for p in d])
    for k, d in enumerate(c["cps"]):
        dd = [(fr(x), fr(y)) for x, y in d]
        for i, t in enumerate(gv):
            if k < len(code) and not math.isfinite(code[k][i]):
                return False, code, scale, jg
            v = fr(code[k][i]) if k < len(code) else F(0)        # depths beyond those returned count as zero
            if abs(float(v - eval_pl(dd, fr(t)))) > TOL * sc:
                return False, code, scale, jg
    return True, code, scale, jg


def code_vectorize_true(bars, start, stop, n, cps_out=None):
    """vectorize(PersLandscapeExact(dgms=[bars])) -> (values | 'err:Kind', shortcut firings, (start, stop, num_steps) the result
    reports); cps_out receives the critical pairs of the landscape object that was vectorized"""
    mod = common.pm("landscapes.exact")
    vec = common.pm("landscapes.tools").vectorize
    trace = mod._VERIF_TRACE
    if trace is None:
        raise common.HarnessError("persim.landscapes.exact._VERIF_TRACE is None: the PERSIM_VERIF hook is off")
    del trace[:]
    kw = {} if n == DEFAULT_STEPS else {"num_steps": n}
    box = []

    def go():
        P = mod.PersLandscapeExact(dgms=[arr(bars)], hom_deg=0)
        box.append(P)
        return vec(P, start=start, stop=stop, **kw)
    with np.errstate(all="ignore"):
        st, v, _ = _quiet(go)
    fired = sum(1 for x in trace if x[0] == "repeated-bar-shortcut")
    del trace[:]
    if cps_out is not None and box:
        try:
            cps_out.extend([[float(x), float(y)] for x, y in d] for d in box[0].critical_pairs)
        except Exception:
            pass
    if st == "err":
        return "err:" + v, fired, None
    try:
        return canon_values(v.values), fired, (float(v.start), float(v.stop), int(v.num_steps))
    except (TypeError, ValueError):
        return canon_values(v.values), fired, None


def vectorize_true_check(code, bars, grid, n):
    """`vectorize(P, ...).values` against the TRUE landscape of the diagram at the nodes of the judged grid
    (rows beyond those returned count as zero).  -> (ok, detail)"""
    s, e = grid[0], grid[1]
    scale = nat_scale(s, e, bars)
    if not isinstance(code, list) or any(not isinstance(r, list) or len(r) != n for r in code):
        return False, {"why": "values is not a depth x num_steps array", "code": _short(code)}
    nodes = [fr(t) for t in np.linspace(s, e, n)]
    lam = true_landscape(bars, nodes)
    worst, where = F(0), None
    for k in range(max(len(code), len(lam))):
        for i in range(n):
            if k < len(code) and not math.isfinite(code[k][i]):
                return False, {"why": "non-finite value", "where": (k, i)}
            v = fr(code[k][i]) if k < len(code) else F(0)
            t = lam[k][i] if k < len(lam) else F(0)
            if abs(v - t) > worst:
                worst, where = abs(v - t), (k, i, float(v), float(t))
    return float(worst) <= TOL * scale, {"worst": float(worst), "where(depth,node,code,true)": where}


def faithful_sampling(code, cps, grid, n, bars):
    """does `vectorize` reproduce the landscape object's OWN critical pairs at the nodes (so that a wrong value comes from the
    landscape, i.e. from upstream of what C08 is about)?"""
    if not isinstance(code, list) or not cps or len(code) != len(cps) or any(not isinstance(r, list) or len(r) != n for r in code):
        return False
    scale = nat_scale(grid[0], grid[1], bars)
    gv = np.linspace(grid[0], grid[1], n)
    for row, d in zip(code, cps):
        if len(d) < 2:
            return False
        want = np.interp(gv, [p[0] for p in d], [p[1] for p in d])
        if not np.all(np.abs(np.asarray(row, dtype=float) - want) <= TOL * scale):
            return False
    return True


def vectorize_true_eval(c):
    """one case of the `vectorize(PersLandscapeExact(diagram))` clause.  -> dict(ok, detail, code, fired, grid, cps, faithful);
    ok is None when nothing is judged (the defaults the code picked are not a grid with >= 1 node)"""
    cps = []
    code, fired, rg = code_vectorize_true(c["bars"], c["start"], c["stop"], c["n"], cps)
    out = {"code": code, "fired": fired, "cps": cps, "grid": rg, "faithful": False, "raised": isinstance(code, str)}
    if isinstance(code, str):
        out.update(ok=False, detail={"why": "vectorize raised %s on the landscape of a diagram" % code})
        return out
    jg = judged_grid(c, rg) if rg else None
    if jg is None or jg[2] < 1:
        if c["start"] is not None and c["stop"] is not None and c["n"] != DEFAULT_STEPS:
            out.update(ok=False, detail={"why": "the result reports no usable grid", "grid": _short(rg)})
        else:
            out.update(ok=None, detail={"why": "defaults of the code give no usable grid", "grid": _short(rg)})
        return out
    out["grid"] = jg
    ok, detail = vectorize_true_check(code, c["bars"], jg, jg[2])
    out.update(ok=ok, detail=detail)
    if not ok:
        out["faithful"] = faithful_sampling(code, cps, jg, jg[2], c["bars"])
    return out


def is_known_shortcut_output(cps, bars, model):
    """attribution by content: the landscape object's critical pairs are exactly what the model of the current sweep - repeated-bar
    shortcut included - returns for this diagram, and the model's shortcut fired (without a firing the model is proved correct)"""
    if not (isinstance(model, list) and len(model) == 2 and int(model[1]) > 0):
        return False
    mc = model[0]
    if len(mc) != len(cps):
        return False
    exact = all(float(x) == round(float(x) * 2 ** 30) / 2 ** 30 for b in bars for x in b)
    slack = F(0) if exact else fr(TOL * nat_scale(0.0, 0.0, bars))
    return all(len(a) == len(b) and all(abs(fr(p[0]) - q[0]) <= slack and abs(fr(p[1]) - q[1]) <= slack for p, q in zip(a, b))
               for a, b in zip(cps, mc))


def known_text(kf):
    return (KNOWN_SITE + " still fails: vectorize(PersLandscapeExact([(1,5),(1,5),(3,6)]),1,6,11).values[1][7] = 1.5, "
            "true value 0.5 (the C03 repeated-bar shortcut, seen through C08); listed in known_findings.txt"
            + ("" if kf else " [NOT LISTED]"))


def known_listed():
    return [t for k, t in common.known_findings("C08") if k == "known" and KNOWN_SITE in t]


def attributable(res, bars):
    """a failing vectorize_true case is the known finding only if (a) the call returned, (b) vectorize faithfully samples the
    landscape object's own critical pairs at the nodes, and (c) those critical pairs are the known shortcut output"""
    if res["raised"] or not res["faithful"]:
        return False
    model = ask(["pl.exact 0 %s" % enc([bars])])[0]
    return is_known_shortcut_output(res["cps"], bars, model)


def known_replay(ctx):
    """replay the listed finding on the real code; while it still fails in the listed way print the KNOWN-FINDING line"""
    kf = known_listed()
    c = KNOWN_CASE
    res = vectorize_true_eval(c)
    ok = res["ok"] is True
    ctx.extra["known_finding_still_fails"] = not ok
    ctx.extra["known_finding_shortcut_fired"] = res["fired"]
    if not ok and attributable(res, c["bars"]):
        if not kf:
            ctx.violation("vectorize is wrong where the repeated-bar shortcut fires and this is not listed in known_findings.txt",
                          dict(c, code=res["code"], detail=res["detail"]), found_input=True, law="vectorize_true_landscape")
        else:
            ctx.known(KNOWN_KEY, known_text(kf))
    elif not ok:
        ctx.violation("vectorize(PersLandscapeExact([(1,5),(1,5),(3,6)]),1,6,11) fails in a way that is not the listed one (the "
                      "landscape's critical pairs are not the shortcut output, or vectorize does not sample them faithfully, or "
                      "the call raised): %r" % (res["detail"],), dict(c, code=res["code"], detail=res["detail"]), found_input=True,
                      law="vectorize_true_landscape")
    else:
        print("note: the listed known finding of C08 no longer reproduces on this tree", flush=True)
    return kf


def stream_vectorize_true(ctx):
    """[T] vectorize of the exact landscape OF A DIAGRAM against the true landscape lambda_k at the grid nodes.  The theorem
    `vectorize_samples_evalPL` is about the landscape's own critical pairs; "true values" needs C03 on top.  A failure is the
    known finding (counted) only when `attributable` says so - by content, never because the call raised or because the trace
    fired; any other failure is a violation."""
    r = ctx.rng
    kf = known_replay(ctx)
    attributed = fired_cases = 0
    for i in range(ctx.n(500, 4000)):
        mode = ctx.gen.mode()
        nmax = ctx.n(8, 20) if r.random() < 0.8 else 3
        bars = [b for b in ctx.gen.diagram(nmax, mode=mode, allow_diag=False, allow_empty=False, dup=0.25) if b[1] > b[0]]
        if not bars:
            continue
        lo, hi = min(b[0] for b in bars), max(b[1] for b in bars)
        span = hi - lo
        kind = r.choice(["default", "default", "cover", "over", "partial"])
        n = r.choice([2, 3, 5, 8, 9, 11, 17, 33, 40] + ([129, 300] if ctx.thorough else []))
        if kind == "default":
            s = e = None
        elif kind == "cover":
            s, e = lo, hi
        elif kind == "over":
            s, e = lo - span * r.choice([0.25, 1.0]), hi + span * r.choice([0.5, 2.0])
        else:
            s, e = lo + span * 0.25, hi - span * 0.125
        c = {"op": "vectorize_true", "bars": bars, "start": s, "stop": e, "n": n}
        res = vectorize_true_eval(c)
        code, fired, ok, detail = res["code"], res["fired"], res["ok"], res["detail"]
        ctx.case(c, len(bars) >= 2 and isinstance(code, list), sample_every=97)
        ctx.count("vectorize_true:%s:%s" % (kind, "shortcut-fired" if fired else "no-shortcut"))
        fired_cases += 1 if fired else 0
        if ok is None:
            ctx.count("vectorize_true:not-judged(defaults give no grid)")
            continue
        if not ok and kf and attributable(res, bars):
            attributed += 1          # the known finding: counted, not reported
            ctx.known(KNOWN_KEY, known_text(kf))
            continue
        ctx.test("vectorize_true_landscape", ok)
        if not ok:
            ctx.violation("vectorize(PersLandscapeExact(diagram)) differs from the true landscape at the grid nodes and this is not "
                          "the known shortcut output sampled faithfully (trace fired: %d, raised: %s, samples the landscape's own "
                          "critical pairs: %s): %r" % (fired, res["raised"], res["faithful"], detail),
                          dict(c, code=code, fired=fired, detail=detail), found_input=True, law="vectorize_true_landscape")
            if len(ctx.violations) > 5:
                break
    ctx.extra["vectorize_true_shortcut_fired_cases"] = fired_cases
    ctx.extra["vectorize_true_attributed_to_known_finding"] = attributed


def death_ok(code, dgm):
    """the death-vector clause: the deaths in non-increasing order.  The statement is about finite diagrams: what happens to an
    infinite death (kept in front, or dropped) is not judged - the finite entries must be the finite deaths, sorted"""
    fin = [x for x in code if x != math.inf]
    return all(a >= b for a, b in zip(fin, fin[1:])) and sorted(fin) == sorted(float(b[1]) for b in dgm if b[1] != math.inf)


def stream_death(ctx, corr_failures):
    r = ctx.rng
    cases = []
    for _ in range(ctx.n(400, 3000)):
        dgms = gen_dgms(ctx, ctx.n(10, 40), inf_p=0.5)
        hd = 0 if r.random() < 0.9 else r.randint(1, 2)
        cases.append({"op": "death", "dgms": dgms, "hom_deg": hd})
    cases.append({"op": "death", "dgms": [], "hom_deg": 0})
    lines = ["pl.death %s %d" % (enc(c["dgms"]), c["hom_deg"]) for c in cases]
    for c, model in zip(cases, ask(lines)):
        code = code_death(c["dgms"], c["hom_deg"])
        ctx.case(c, isinstance(code, list) and len(code) >= 2, sample_every=101)
        ctx.count("death:" + (code if isinstance(code, str) else "ok"))
        ok = True
        if isinstance(code, list):
            ok = death_ok(code, c["dgms"][0])
            if any(b[1] == math.inf for b in c["dgms"][0]):
                ctx.count("death:diagram-with-infinite-deaths(judged on the finite ones)")
            ctx.test("death_vector_sorted", ok)
            if not ok:
                ctx.violation("death_vector is not the deaths in non-increasing order: %r" % (code,), dict(c), found_input=True,
                              law="death_vector_sorted")
                if len(ctx.violations) > 5:
                    return
        elif c["hom_deg"] != 0:
            ctx.test("death_vector_rejects_higher_degree", isinstance(code, str) and code.startswith("err:"))
        if not same(code, model, True, 1.0):
            corr_failures.append((c, code, model, ok))


# source translator (DESIGN.md 3.2): part of the model is regenerated from the source text on every run
TRUSTED = list(TRUSTED) + [py2lean.trusted_note("approx")]
PROP_FILES = ["PersimVerif/Props/C08.lean", "PersimVerif/Props/C08Model.lean"] + py2lean.prop_files("approx")
# landscape engine (py2lean_landscape.py): tools.vectorize, PersistenceLandscaper.transform
TRUSTED += [py2lean.trusted_note("plvec"), py2lean.trusted_note("pltransform")]
PROP_FILES += [f for k in ("plvec", "pltransform") for f in py2lean.prop_files(k) if f not in PROP_FILES]
PROP_FILES = list(dict.fromkeys(PROP_FILES))


def large_case_check(c):
    """the statement on one large on-grid case (thousands of bars, hundreds of nodes): every endpoint is a node, so the
    sampled values must EQUAL the k-th largest tent at every node (exact in floating point: small integers and halves)"""
    D = np.array(c["bars"], dtype=float).reshape(-1, 2)
    n, start, stop = c["n"], c["start"], c["stop"]
    A = common.pm("landscapes.approximate").PersLandscapeApprox
    with np.errstate(all="ignore"), contextlib.redirect_stdout(io.StringIO()):
        st, P, _ = common.call(lambda: A(dgms=[D.copy()], hom_deg=0, start=start, stop=stop, num_steps=n))
    if st == "err":
        return False, "raised %s" % P
    vals = np.asarray(P.values, dtype=float)
    nodes = start + (stop - start) / (n - 1) * np.arange(n)
    T = np.maximum(0.0, np.minimum(nodes[None, :] - D[:, 0:1], D[:, 1:2] - nodes[None, :]))
    T = -np.sort(-T, axis=0)
    k = vals.shape[0]
    if vals.ndim != 2 or vals.shape[1] != n or k > len(T) + 1:
        return False, "values has shape %r" % (vals.shape,)
    Tk = np.vstack([T, np.zeros((max(0, k - len(T)), n))])
    if not np.array_equal(Tk[:k], vals):
        j = np.argwhere(Tk[:k] != vals)[0]
        return False, "depth %d at node %d: code %r, true landscape %r" % (j[0], j[1], float(vals[j[0], j[1]]), float(Tk[j[0], j[1]]))
    if np.any(T[k:] != 0):
        return False, "depth %d and beyond are not returned although the true landscape is non-zero there" % k
    return True, ""


def stream_large(ctx):
    """[T] thousands of bars on hundreds of nodes (bars x nodes above 2**20): size-dependent paths of the snapping and
    of the per-node sort, which the small generated cases cannot reach"""
    r = ctx.rng
    for _ in range(ctx.n(2, 8)):
        n = r.choice([420, 500, 512, 640])
        m = r.randint((2 ** 20) // n + 50, (2 ** 20) // n + 900)
        unit = r.choice([1.0, 0.5, 2.0])
        bars = []
        for _ in range(m):
            i = r.randrange(0, n - 1)
            j = min(n - 1, i + r.randint(1, 80))
            bars.append([i * unit, j * unit])
        c = {"op": "approx_large", "bars": bars, "n": n, "start": 0.0, "stop": (n - 1) * unit}
        ok, why = large_case_check(c)
        ctx.test("large_on_grid_exact", ok)
        ctx.count("large:bars_x_nodes>2^20")
        if not ok:
            ctx.violation("grid landscape of %d on-grid bars on %d nodes is not the true landscape: %s" % (m, n, why), c, found_input=True)
            return


def pre_build(ctx):
    """source translator: regenerate Generated/Src*.lean from PERSIM_ROOT's source"""
    py2lean.pre_build(ctx, ("approx", "plvec", "pltransform"))


def run(ctx):
    py2lean.report_broken(ctx, PROP_FILES)
    corr_failures = []
    cov = common.LineCov(["persim/landscapes/approximate.py", "persim/landscapes/auxiliary.py", "persim/landscapes/tools.py",
                          "persim/landscapes/transformer.py"])
    corethm.record(ctx, CORE_THEOREMS, ["PersimVerif/Props/C08.lean", "PersimVerif/Props/C08Model.lean"])
    for stream in (stream_approx, stream_transform, stream_vectorize, stream_death):
        stream(ctx, corr_failures)
        if len(ctx.violations) > 5:
            break
    if len(ctx.violations) <= 5:
        stream_vectorize_true(ctx)
    if not any(f for _, f in ctx.violations):
        stream_large(ctx)
    if not any(f for _, f in ctx.violations):
        stream_fit_other(ctx)
    # line coverage of the anchored functions on a small slice (tracing is slow)
    with cov:
        for c in [gen_generic(ctx) for _ in range(10)] + [gen_exact(ctx) for _ in range(10)] + [gen_malformed(ctx) for _ in range(14)]:
            code_approx(c["dgms"], c["hom_deg"], c["start"], c["stop"], c["n"])
            code_transform(c["dgms"], c["hom_deg"], c["start"], c["stop"], c["n"], True, "fit_transform")
            code_death(c["dgms"], 0)
        code_vectorize([[[0.0, 0.0], [1.5, 1.5], [3.0, 0.0]]], None, None, 7)
    ctx.extra["anchored_line_coverage"] = {
        k: v for k, v in cov.summary().items()}
    ctx.extra["anchored_digest"] = {
        "approximate.py": common.source_digest("persim/landscapes/approximate.py", ["__init__", "compute_landscape"]),
        "auxiliary.py": common.source_digest("persim/landscapes/auxiliary.py", ["ndsnap_regular"]),
        "tools.py": common.source_digest("persim/landscapes/tools.py", ["vectorize", "death_vector"]),
        "transformer.py": common.source_digest("persim/landscapes/transformer.py", ["PersistenceLandscaper"]),
    }
    # correspondence failures: a failing input of the property itself was searched on every case above
    # (bound / transformer / vectorize / death checks run on the real code); report what is left
    found = any(f for _, f in ctx.violations)
    for c, code, model, prop_ok in ([] if found else corr_failures[:3]):
        ctx.violation("code and model differ on %s (the property itself held on this input): code=%s model=%s"
                      % (c["op"], _short(code), _short(model)),
                      {"correspondence": "pl." + c["op"], "line": _short(c, 1200), "code": _short(code), "model": _short(model),
                       "input": c},
                      found_input=False)
    ctx.extra["correspondence_failures"] = len(corr_failures)


def _short(v, n=400):
    s = repr(v)
    return s if len(s) <= n else s[:n] + "…"


def replay(ctx, rep):
    if rep["case"].get("op") == "fit_other":
        ok, why = fit_other_eval(rep["case"])
        print("fit(train); transform(test):", "holds" if ok else why[:1500])
        return ok
    if rep["case"].get("op") == "approx_large":
        ok, why = large_case_check(rep["case"])
        print("large on-grid case:", "holds" if ok else why)
        return ok
    c = rep["case"]
    if "input" in c:
        c = c["input"]
    op = c.get("op")
    if op == "approx":
        try:        # the record is strict JSON: an infinite death was written as the string 'inf'
            c = dict(c, dgms=[[[float(x) for x in b] for b in d] for d in c["dgms"]])
        except (TypeError, ValueError):
            pass    # a malformed-input case: replayed as recorded
        used = []
        code = code_approx(c["dgms"], c["hom_deg"], c["start"], c["stop"], c["n"], used, route=c.get("route"))
        print("route:", c.get("route") or "eager", "code:", _short(code, 2000), "grid reported by the object:", used)
        g = resolved_grid(c)
        valid = bool(c["dgms"]) and 0 <= c["hom_deg"] < len(c["dgms"])
        if not valid:
            return True
        bars = finite_bars(c["dgms"][c["hom_deg"]])
        if isinstance(code, str):
            # no numeric result: fails if the grid (given, or the tight default) covers the bars
            return not (g is not None and c["n"] >= 2 and g[0] <= g[1] and covers(bars, g[0], g[1]))
        jg = judged_grid(c, used) if used else None
        print("judged on the grid (given values, else the object's own):", jg)
        if jg is not None and jg[2] >= 2 and jg[0] <= jg[1] and covers(bars, jg[0], jg[1]):
            ok, detail, _ = bound_check(code, bars, jg[0], jg[1], jg[2])
            print("bound:", detail)
            return ok
        return True
    if op == "transform":
        ok, code, direct, tg = transform_eval(c)
        print("transformer:", _short(code, 1500), "\napprox values on the transformer's grid %r:" % (tg,), _short(direct, 1500))
        return ok is not False
    if op == "vectorize":
        ok, code, scale, jg = vectorize_eval(c)
        print("code:", _short(code, 2000), "judged grid:", jg)
        return ok is not False
    if op == "vectorize_true":
        res = vectorize_true_eval(c)
        print("code:", _short(res["code"], 2000), "shortcut fired:", res["fired"], "grid:", res["grid"])
        print("against the true landscape:", res["detail"], "| samples the landscape's own critical pairs faithfully:", res["faithful"])
        return res["ok"] is not False
    if op == "death":
        code = code_death(c["dgms"], c["hom_deg"])
        print("code:", code)
        if not isinstance(code, list):
            return True
        return death_ok(code, c["dgms"][0])
    print("nothing to replay on the real code: %s" % _short(c))
    return True


MANIFEST = {
    "text": "Proof: 21 Lean theorems in Props/C08.lean plus 12 in Props/C08Model.lean (C08 composed with C03: the model of vectorize(PersLandscapeExact(dgms, hom_deg), start, stop, num_steps) returns exactly the landscape at every node and depth whenever the births or the deaths are pairwise distinct - model_vectorize_of_exact_is_landscape - with np.interp as a LinearInterp contract), of which 17 core (carrying a clause of the property; the rest are helpers, error paths, concrete "
            "instances, the tightness witness, the regression witness `old_fit_inf_counterexample` and `transformer_is_approx`, which "
            "only restates the definition of the model of `transform` and is tied to the real transformer by the correspondence) "
            "about the model of PersLandscapeApprox / ndsnap_regular / vectorize / PersistenceLandscaper / death_vector over every "
            "linear ordered field: the k-th largest value is 1-Lipschitz in the sup norm, the nearest grid node is within step/2 "
            "(an on-grid point is fixed), the two ramp loops write exactly the positive tent values of the snapped bars, hence for "
            "every diagram, every num_steps >= 2 and every covering grid each sampled value is within step/2 of the true landscape "
            "(rows beyond those returned counting as zero; at least one row is always returned, exactly one zero row when no bar is "
            "visible on the grid; exact when all endpoints are nodes); fit_transform = transform on diagrams with or without infinite "
            "bars, flattening is row-major; death vector sorted and a permutation.  `vectorize_samples_evalPL` says that vectorize "
            "samples the landscape's OWN critical pairs (given the np.interp contract); that these samples are the TRUE landscape "
            "values transfers through C03 (critical pairs = landscape) and is tested here directly on the real code against the exact "
            "landscape at the grid nodes - it fails where the C03 repeated-bar shortcut fires, which is replayed on every run and "
            "reported as KNOWN-FINDING; a failing case is attributed to it only when the call returned, vectorize samples the "
            "landscape object's own critical pairs faithfully and those are exactly the output of the Lean model of the sweep with "
            "the shortcut - anything else (a raise, an unfaithful sampling, another wrong landscape) is a VIOLATION.  Defaults the "
            "statement does not fix (default grid, default num_steps, transform on an unfitted transformer, zero-row values, infinite "
            "deaths in death_vector) are compared with the model as correspondence only; the bound is judged on the grid the object "
            "reports.  The model is tied to the code on "
            "every run by executing it at Rat against the real classes (exactly on dyadic grids, 1e-9 otherwise) and the bound is "
            "also evaluated on the real code.",
    "note": "Trusted: Lean kernel + Mathlib (axioms propext/Classical.choice/Quot.sound); the correspondence harness and the compiled "
            "driver executable (compiled by Lean's compiler, not checked by the kernel); np.linspace, np.argmin (first minimum), dict "
            "overwrite order, sorted, np.interp and sklearn's fit_transform as modelled contracts. "
            "Theorems are exact-arithmetic; float rounding (tie flips at midpoints) is covered only by the [T] bound stream. "
            "[T] only: vectorize against the true landscape (known finding where the C03 shortcut fires).",
    "technique": "Lean 4 theorems over a hand-written model + differential correspondence with the real code",
}
MANIFEST["note"] += " " + py2lean.manifest_note("approx")
MANIFEST["note"] += " " + py2lean.manifest_note("plvec") + " " + py2lean.manifest_note("pltransform")
