"""C20 — plots draw exactly the data and matchings they are given.

Theorems: lean/PersimVerif/Props/C20.lean about lean/PersimVerif/Model/Plot.lean (a pure function from the
arguments of plot_diagrams / bottleneck_matching / wasserstein_matching to a list of abstract artists).
Tie: the real functions are called on an Agg figure with TWO axes (ax given with the OTHER axes current, ax given
and itself current, or ax=None with the target current); every artist, limit, label, title and legend text is read back from BOTH axes
and compared with the model executed at Rat (driver ops `plot.dgms`, `plot.match`, `plot.land.*`).
On a disagreement the clauses of the statement are evaluated directly on the read-back artists (independent
Python, no model) — that is the failing-input search.  The clauses judge only what the statement fixes: scatter
coordinates to single precision RELATIVE TO EACH COORDINATE, infinite deaths on one drawn horizontal line inside the
limits (recognised by position, not by label), limits, title, the labels the caller supplied, legend drawn iff requested
and containing the supplied labels in order; matching plots: every row that is not (-1,-1) has its own line with the
right end points, no further line joins a point to a point of the other diagram or to its own foot (other lines -
diagonal, infinity line, decoration - are ignored whatever their style), SOME row of maximal cost is styled differently
from all rows of smaller cost (ties at the maximum: any or all may be marked).  Correspondence only (compared with the
model, never a claimed failing input): the literal texts the code chooses ($H_i$, the infinity entry, Birth / Death /
Lifetime, lambda_k), success on requests outside the quantifier (plot_only or rows outside the diagrams), the exact
styles, and everything about the 2-D landscape plots, which the statement does not mention.
"""
import math
import warnings
import numpy as np
from .. import common
from ..common import enc, ask
from ..translator import py2lean

LEVEL = "proof"
RULE = ("diagram plots: 1-4 diagrams (single array or list) of 0-6 points from lattice/half/dyadic(2^-20..2^20)/decimal/"
        "uniform modes, infinite deaths p=0.2, empty diagrams, every combination of plot_only (None, [], in-range, "
        "negative, out-of-range), labels (None, string incl. strings shorter than the indices, list of equal/shorter/"
        "longer length), title, xy_range (None, [], proper, degenerate, inverted), diagonal, lifetime, legend, ax given "
        "(other axes current 55%, the given axes itself current 17%) or None; integer-valued diagrams travel as int64 arrays half of the time; matching plots: "
        "diagram pairs of 0-6 points (either side empty), in 45% of the pairs with 1-3 points of infinite death inserted anywhere "
        "(also a diagram of infinite points only), the "
        "matching RETURNED by the real bottleneck/wasserstein(matching=True) for exactly these diagrams, optionally with added (-1,-1), i=-1, "
        "j=-1 rows, tied distances, out-of-range indices, an empty matching; 2-D landscape plots from diagrams and "
        "from explicit critical pairs/values with depth_range None / [] / a list of depths / a `range` object. Non-trivial = no error and (>=2 finite points drawn | "
        ">=1 segment drawn | >=1 landscape line); distinct by digest of the full case")
ASSUMPTIONS = [
    "diagrams are (n,2) float arrays with finite births and deaths finite or +inf (the non-finite value the routine treats); "
    "NaN/-inf/extra columns are outside the model",
    "the rows of a matching index the points with FINITE death of each diagram, in order (what bottleneck/wasserstein return: "
    "both drop the other points before numbering; C06 owns that); plot_only / matching indices are Python ints",
    "label lists shorter than the number of plotted diagrams make `zip` drop diagrams (modelled; outside the statement's "
    "quantifier: one label per diagram is the documented contract)",
    "comparison with the MODEL: 1e-6 relative to the largest magnitude in the figure (the code works in float32), scatter "
    "coordinates that are pure float32 casts exactly against the model's round-to-nearest-even cast; the statement's CLAUSES: "
    "1e-6 relative to the coordinate itself (|b|; |d|; |b|+|d| for a lifetime or a segment end), the figure's scale only for "
    "figure-level quantities (limits, height of the infinity line)",
    "matplotlib contract: an artist added to an Axes is drawn on it; Axes.legend lists labelled artists in insertion order; "
    "set_xlim/set_ylim store what they are given unless both ends coincide (then matplotlib widens them: checked as containment)",
    "fresh axes (no pre-existing artists); `show`, `size`, `ax_color`, `colormap` only checked as read-back style, not modelled",
]
TOL = 1e-6
# theorems that carry a clause of the statement (helper lemmas, rfl restatements such as landscape_simple_instances,
# drawPt_cases, finitePart_cons, and the concrete counterexamples for the pre-fix code are not in this list)
CORE_THEOREMS = ["selected_spec", "scatters_eq", "one_scatter_per_diagram", "inf_line_inside", "limits_contain_points",
                 "xy_range_respected", "labels_title_legend", "diagram_plot_on_given_axes", "segments_match_rows",
                 "segments_match_rows_wasserstein", "landscape_lines_spec", "plotDiagrams_succeeds",
                 "bottleneckMatching_succeeds", "wassersteinMatching_succeeds"]
LABEL_POOL = ["dgm1", "dgm2", "X", "Y", "abc", "H0", "noise", "signal_2", "Zq", "p", "LongerLabel"]
TITLE_POOL = ["mytitle", "Persistence", "A", "diagram_7"]


def _plt():
    import matplotlib
    import matplotlib.pyplot as plt
    return matplotlib, plt


# ----------------------------------------------------------------------------- reading artists back

def hexcol(c):
    import matplotlib.colors as mc
    try:
        return mc.to_hex(c, keep_alpha=False)
    except Exception:
        return repr(c)


def read_axes(ax):
    """everything the statement talks about, read from one Axes"""
    lines = []
    for l in ax.lines:
        lab = l.get_label()
        lines.append({"xs": [float(v) for v in np.asarray(l.get_xdata(), dtype=float)],
                      "ys": [float(v) for v in np.asarray(l.get_ydata(), dtype=float)],
                      "ls": l.get_linestyle(), "lw": float(l.get_linewidth()), "color": hexcol(l.get_color()),
                      "alpha": l.get_alpha(),
                      "label": None if (not isinstance(lab, str) or lab.startswith("_")) else lab})
    scat = []
    for c in ax.collections:
        off = np.asarray(np.ma.filled(c.get_offsets(), np.nan), dtype=float).reshape(-1, 2)
        scat.append({"kind": type(c).__name__, "pts": off.tolist(), "label": c.get_label(),
                     "sizes": [float(s) for s in np.atleast_1d(c.get_sizes())]})
    lg = ax.get_legend()
    return {"lines": lines, "scatters": scat, "xlim": [float(v) for v in ax.get_xlim()],
            "ylim": [float(v) for v in ax.get_ylim()], "xlabel": ax.get_xlabel(), "ylabel": ax.get_ylabel(),
            "title": ax.get_title(), "legend": None if lg is None else [t.get_text() for t in lg.get_texts()],
            "n_other": len(ax.patches) + len(ax.texts) + len(ax.images)}


def pristine(rb):
    return (not rb["lines"] and not rb["scatters"] and rb["xlim"] == [0.0, 1.0] and rb["ylim"] == [0.0, 1.0]
            and rb["xlabel"] == "" and rb["ylabel"] == "" and rb["title"] == "" and rb["legend"] is None
            and rb["n_other"] == 0)


def with_axes(given, fn):
    """figure with two axes; call fn(ax_argument); read both back.
    given=True: ax=target, the OTHER axes is pyplot's current one; given="current": ax=target and target IS pyplot's
    current axes; given=False: ax=None (target = pyplot's current axes)"""
    matplotlib, plt = _plt()
    fig, (a, b) = plt.subplots(1, 2)
    try:
        plt.sca(a if given == "current" else b)
        target, other = (a, b) if given else (b, a)
        with warnings.catch_warnings(record=True) as w, np.errstate(all="ignore"):
            warnings.simplefilter("always")
            try:
                fn(a if given else None)
                status = "ok"
            except Exception as e:
                status = "err:" + type(e).__name__
        sty = {"lw": float(matplotlib.rcParams["lines.linewidth"]), "C2": hexcol("C2"), "C3": hexcol("C3"),
               "g": hexcol("g"), "k": hexcol("k")}
        return status, read_axes(target), read_axes(other), sty, [x.category.__name__ for x in w]
    finally:
        plt.close("all")


# ----------------------------------------------------------------------------- comparison with the model

def scale_of(v):
    return common.maxabs(v)


def near(a, b, S):
    a = float(a); b = float(b)
    if math.isnan(a) or math.isnan(b) or math.isinf(a) or math.isinf(b):
        return a == b
    return abs(a - b) <= TOL * S + 1e-300


def near_list(a, b, S):
    return len(a) == len(b) and all(near(x, y, S) for x, y in zip(a, b))


def style_ok(style, ln, sty, ax_color, alpha):
    exp = {"horizon": ("-", sty["lw"], hexcol(ax_color)), "diagonal": ("--", sty["lw"], hexcol(ax_color)),
           "infline": ("--", sty["lw"], sty["k"]), "matchmax": ("-", 2.0, sty["C3"]),
           "matchother": ("--", 1.0, sty["C2"]), "wass": ("-", sty["lw"], sty["g"]),
           "landscape": ("-", sty["lw"], None)}[style]
    if ln["ls"] != exp[0] or abs(ln["lw"] - exp[1]) > 1e-12:
        return False
    if exp[2] is not None and ln["color"] != exp[2]:
        return False
    if style == "landscape" and alpha is not None and ln["alpha"] != alpha:
        return False
    return True


def match_lines(mlines, clines, S, sty, ax_color, alpha=None):
    """the order of lines on an axes is free: every model line must be matched by a distinct read-back line"""
    if len(mlines) != len(clines):
        return "line count: model %d, code %d" % (len(mlines), len(clines))
    used = [False] * len(clines)
    for m in mlines:
        hit = None
        for k, c in enumerate(clines):
            if used[k]:
                continue
            if near_list(m[2], c["xs"], S) and near_list(m[3], c["ys"], S) and m[5] == c["label"] \
                    and style_ok(m[4], c, sty, ax_color, alpha):
                hit = k
                break
        if hit is None:
            return "no read-back line for model line %r" % (tofloat(m),)
        used[hit] = True
    return None


def tofloat(v):
    if isinstance(v, list):
        return [tofloat(x) for x in v]
    if isinstance(v, (str, bool)) or v is None:
        return v
    return float(v)


def split_model(artists, given):
    """model artists -> (on target, on other); `current` is the other axes iff an ax was given"""
    tgt, oth = [], []
    for a in artists:
        (tgt if (a[1] == "given" or given is not True) else oth).append(a)      # given == "current": current IS the given axes
    return tgt, oth


def compare_fig(model, status, tgt, oth, given, sty, ax_color="k", size=None, exact_pts=None):
    """None if code and model agree, else a description of the first difference"""
    if isinstance(model, str):
        if model == "bad-op":
            raise common.HarnessError("driver rejected a plot operation")
        return None if status == model else "status: code %s, model %s" % (status, model)
    if status != "ok":
        return "status: code %s, model ok" % status
    artists, xlim, ylim, xlabel, ylabel, title, legend = model
    S = max(scale_of(tofloat([a[2:4] for a in artists])), scale_of(tofloat([xlim, ylim])), 1e-300)
    mt, mo = split_model(artists, given)
    for side, mm, rb in (("target", mt, tgt), ("other", mo, oth)):
        msc = [a for a in mm if a[0] == "scatter"]
        if len(msc) != len(rb["scatters"]):
            return "%s: scatter count model %d, code %d" % (side, len(msc), len(rb["scatters"]))
        for k, (m, c) in enumerate(zip(msc, rb["scatters"])):
            if c["kind"] != "PathCollection" or m[3] != c["label"]:
                return "%s: scatter %d label/kind: model %r code %r" % (side, k, m[3], c["label"])
            if len(m[2]) != len(c["pts"]) or not all(near_list(p, q, S) for p, q in zip(m[2], c["pts"])):
                return "%s: scatter %d points: model %r code %r" % (side, k, tofloat(m[2]), c["pts"])
            if exact_pts is not None and exact_pts(k) is not None:
                for (p, q, ex) in zip(m[2], c["pts"], exact_pts(k)):
                    for u in (0, 1):
                        if ex[u] and float(p[u]) != q[u]:
                            return "%s: scatter %d float32 cast differs: model %r code %r" % (side, k, float(p[u]), q[u])
            if size is not None and c["sizes"] != [float(size)]:
                return "%s: scatter %d size %r, requested %r" % (side, k, c["sizes"], size)
        d = match_lines([a for a in mm if a[0] == "line"], rb["lines"], S, sty, ax_color)
        if d:
            return side + ": " + d
    if not mo and given and not pristine(oth):
        return "other axes touched"
    for nm, m, c in (("xlim", xlim, tgt["xlim"]), ("ylim", ylim, tgt["ylim"])):
        if m[0] == m[1]:
            if not (min(c) <= float(m[0]) <= max(c)):
                return "%s degenerate %r not inside %r" % (nm, float(m[0]), c)
        elif not near_list(m, c, S):
            return "%s: model %r code %r" % (nm, tofloat(m), c)
    if (xlabel or "") != tgt["xlabel"] or (ylabel or "") != tgt["ylabel"]:
        return "axis labels: model %r code %r" % ((xlabel, ylabel), (tgt["xlabel"], tgt["ylabel"]))
    if (title or "") != tgt["title"]:
        return "title: model %r code %r" % (title, tgt["title"])
    exp_leg = [a[3] if a[0] == "scatter" else a[5] for a in mt if (a[0] == "scatter" or a[5] is not None)] \
        if legend else None
    if exp_leg != tgt["legend"]:
        return "legend: model %r code %r" % (exp_leg, tgt["legend"])
    return None


# ----------------------------------------------------------------------------- statement clauses, evaluated in Python

def f32(x):
    return float(np.float32(x))


def py_index(seq, i):
    n = len(seq)
    if -n <= i < n:
        return seq[i]
    raise IndexError


def clauses_dgms(case, status, tgt, oth):
    """the statement's clauses for a diagram plot, evaluated on the read-back artists (no model).
    Returns a list of failed clauses; [] = the statement holds on this input (or does not speak about it).
    Only what the statement fixes is judged here: the texts the code chooses by itself (default legend labels H_i, the
    infinity entry, the axis labels Birth / Death / Lifetime) and what happens on requests outside the quantifier
    (plot_only outside the diagrams, fewer labels than diagrams) are compared with the model only."""
    dg = case["dgms"]
    po = case["plot_only"]
    if status != "ok":
        # a plot that is not produced does not contain the data: a VALID request must succeed.  Valid = indices in
        # range, labels None / a string / a list with an entry for every plotted diagram, and a range to draw in
        # (some finite value among the plotted diagrams, or an explicit xy_range)
        n = len(dg)
        lab = case["labels"]
        if n == 0 or (po and any(not (-n <= i < n) for i in po)):
            return []
        idx = [i % n for i in po] if po else list(range(n))
        if isinstance(lab, list) and (len(lab) < n or (po and any(not (-len(lab) <= i < len(lab)) for i in po))):
            return []
        if case["xy_range"] is None and not any(True for i in idx for p in dg[i]):
            return []
        return ["the call raised %s on a valid request" % status]
    try:
        idx = [i % len(dg) if -len(dg) <= i < len(dg) else None for i in po] if po else list(range(len(dg)))
    except Exception:
        return []
    if None in idx:
        return []          # plot_only outside the diagrams: outside the quantifier, handling it gracefully is no failure
    lab = case["labels"]
    if lab is None:
        labs = None        # the default texts are the code's own choice, not "as requested"
    elif isinstance(lab, str):
        labs = [lab] * len(idx)
    else:
        if (po and any(not (-len(lab) <= i < len(lab)) for i in po)) or (not po and len(lab) < len(dg)):
            return []      # fewer labels than diagrams: outside the quantifier
        labs = [lab[i] for i in po] if po else list(lab)[:len(dg)]      # Python indexing into the list that was supplied
    sel = [dg[i] for i in idx]
    bad = []
    life = case["lifetime"]
    if len(tgt["scatters"]) != len(sel):
        bad.append("scatter collections on the axes: %d, plotted diagrams: %d" % (len(tgt["scatters"]), len(sel)))
        return bad
    (xlo, xhi), (ylo, yhi) = sorted(tgt["xlim"]), sorted(tgt["ylim"])
    allv = [abs(v) for d in sel for p in d for v in p if math.isfinite(v)]
    S = max(allv + [abs(v) for v in tgt["xlim"] + tgt["ylim"]] + [1e-300])      # the figure's scale: limits, infinity line
    # infinite deaths: all drawn at ONE height, on a horizontal line that is drawn, strictly inside the y limits (the line
    # is recognised by where it is, not by its label or style)
    inf_ys = [q[1] for d, sc in zip(sel, tgt["scatters"]) if len(sc["pts"]) == len(d)
              for p, q in zip(d, sc["pts"]) if math.isinf(p[1])]
    binf = None
    if inf_ys:
        binf = inf_ys[0]
        if any(not near(y, binf, S) for y in inf_ys):
            bad.append("infinite deaths are drawn at different heights %r" % sorted(set(inf_ys)))
        elif not any(len(l["ys"]) >= 2 and all(near(y, binf, S) for y in l["ys"])
                     for l in tgt["lines"]):
            bad.append("infinite deaths are drawn at height %r but no horizontal line is drawn there" % binf)
        # "drawn inside the axes" is a statement about the LINE (its own ordinate, as matplotlib holds it); the points sit on it
        # to single precision (they live in a float32 array), which at magnitudes where float32 resolves coarser than the
        # axes' height may round onto an edge - a matter of "to single precision", not of where the line is
        line_ys = [l["ys"][0] for l in tgt["lines"] if len(l["ys"]) >= 2 and all(near(y, binf, S) for y in l["ys"])]
        yline = min(line_ys, key=lambda y: abs(y - binf)) if line_ys else binf
        if yhi > ylo and not (ylo < yline < yhi):
            bad.append("infinity line y=%r not strictly inside the y limits %r" % (yline, tgt["ylim"]))
    for k, (d, sc) in enumerate(zip(sel, tgt["scatters"])):
        if len(sc["pts"]) != len(d):
            bad.append("scatter %d has %d points, diagram has %d" % (k, len(sc["pts"]), len(d)))
            continue
        for p, q in zip(d, sc["pts"]):
            # "to single precision": relative to the size of the coordinate itself (birth; death; in lifetime mode the
            # difference of two single-precision numbers, so relative to |birth| + |death|), not to the figure's scale
            okx = near(f32(p[0]), q[0], abs(p[0]))
            if math.isinf(p[1]):
                ex1, oky = binf, near(binf, q[1], S)
            elif life:
                ex1 = f32(p[1]) - f32(p[0]); oky = near(ex1, q[1], abs(p[0]) + abs(p[1]))
            else:
                ex1 = f32(p[1]); oky = near(ex1, q[1], abs(p[1]))
            if not (okx and oky):
                bad.append("scatter %d draws %r for the point %r (expected %r)" % (k, q, p, [f32(p[0]), ex1]))
            elif case["xy_range"] is None and math.isfinite(p[1]) and (not life or p[0] <= p[1]):
                eps = TOL * S
                if not (xlo - eps <= q[0] <= xhi + eps and ylo - eps <= q[1] <= yhi + eps):
                    bad.append("finite point %r drawn at %r outside the limits %r %r" % (p, q, tgt["xlim"], tgt["ylim"]))
            elif case["xy_range"] is None and math.isinf(p[1]):
                # "infinite deaths placed on a horizontal infinity line drawn inside the axes": the point itself has to
                # be inside them, so its birth lies within the x limits (its height is the line's, judged above)
                eps = TOL * S
                if not (xlo - eps <= q[0] <= xhi + eps and ylo - eps <= q[1] <= yhi + eps):
                    bad.append("point of infinite death %r drawn at %r outside the limits %r %r"
                               % (p, q, tgt["xlim"], tgt["ylim"]))
        if labs is not None and sc["label"] != labs[k]:
            bad.append("scatter %d is labelled %r, requested %r" % (k, sc["label"], labs[k]))
    if case["xy_range"] is not None:
        a, b, c, d = case["xy_range"]
        if a != b and not near_list([a, b], tgt["xlim"], S):
            bad.append("x limits %r, requested %r" % (tgt["xlim"], [a, b]))
        if c != d and not life and not near_list([c, d], tgt["ylim"], S):
            bad.append("y limits %r, requested %r" % (tgt["ylim"], [c, d]))
    if tgt["title"] != (case["title"] or ""):
        bad.append("title %r, requested %r" % (tgt["title"], case["title"]))
    # legend "as requested": drawn iff requested; with labels supplied by the caller, one entry per scatter with the
    # requested text, in the order of the scatters.  Further entries (the infinity line's), their text and where they
    # stand are not part of the statement (the correspondence compares the whole legend exactly).
    if (tgt["legend"] is not None) != bool(case["legend"]):
        bad.append("legend %s, requested legend=%r" % ("absent" if tgt["legend"] is None else "drawn", case["legend"]))
    elif tgt["legend"] is not None and labs is not None:
        it = iter(tgt["legend"])
        if not all(any(e == want for e in it) for want in labs):
            bad.append("legend entries %r do not contain the requested labels %r in order" % (tgt["legend"], labs))
    elif tgt["legend"] is not None and len(tgt["legend"]) < len(sel):
        bad.append("legend has %d entries for %d plotted diagrams" % (len(tgt["legend"]), len(sel)))
    if case["given"] and not pristine(oth):
        bad.append("artists or settings landed on the axes that was NOT given")
    return bad


def expected_segments(case):
    """the statement's segments: one per row that is not (-1,-1), computed independently of code and model"""
    # the rows index the points with FINITE death (what bottleneck / wasserstein number); (0,0) if there is none
    d1 = [p for p in case["d1"] if math.isfinite(p[1])] or [[0.0, 0.0]]
    d2 = [p for p in case["d2"] if math.isfinite(p[1])] or [[0.0, 0.0]]
    segs = []
    for k, (i, j, _) in enumerate(case["rows"]):
        i, j = int(i), int(j)
        if i == -1 and j == -1:
            continue
        if i == -1:
            q = py_index(d2, j); m = (q[0] + q[1]) / 2.0
            segs.append((k, [q[0], m], [q[1], m]))
        elif j == -1:
            p = py_index(d1, i); m = (p[0] + p[1]) / 2.0
            segs.append((k, [p[0], m], [p[1], m]))
        else:
            p = py_index(d1, i); q = py_index(d2, j)
            segs.append((k, [p[0], q[0]], [p[1], q[1]]))
    return segs


def seg_is(l, xs, ys):
    """the read-back line `l` joins (xs[0], ys[0]) and (xs[1], ys[1]), in either direction"""
    if len(l["xs"]) != 2 or len(l["ys"]) != 2:
        return False
    a, b = (l["xs"][0], l["ys"][0]), (l["xs"][1], l["ys"][1])
    p, q = (xs[0], ys[0]), (xs[1], ys[1])
    # the foot's size is that of the point it belongs to: use the larger of the two end points' sizes for both ends
    sc = max(abs(p[0]) + abs(p[1]), abs(q[0]) + abs(q[1]))
    eq = lambda u, v: near(u[0], v[0], sc) and near(u[1], v[1], sc)
    return (eq(a, p) and eq(b, q)) or (eq(a, q) and eq(b, p))


def clauses_match(case, status, tgt, oth):
    """the statement's clauses for a matching plot on the read-back artists.  Segments are recognised by WHERE they are:
    every row that is not (-1,-1) needs its own line with the right end points, and no further line may join a point of
    one diagram to a point of the other or to its own foot on the diagonal.  Any other line on the axes (diagonal, infinity
    line, decoration) is not counted, whatever its style."""
    if status != "ok":
        try:
            expected_segments(case)
        except IndexError:
            return []
        if (case["kind"] == "bn" and (not case["rows"] or not (case["d1"] or case["d2"]))):
            return []      # argmax of no rows / no finite value to compute a range from: rejected, modelled
        return ["the call raised %s on a valid request" % status]
    try:
        segs = expected_segments(case)
    except IndexError:
        return []          # a row indexes outside the diagrams: outside the quantifier, graceful handling is no failure
    bad = []
    if case["given"] and not pristine(oth):
        bad.append("artists landed on the axes that was NOT given (%d lines there)" % len(oth["lines"]))
    lines = tgt["lines"]
    used = [False] * len(lines)
    found = {}
    for (k, xs, ys) in segs:
        for n, l in enumerate(lines):
            if not used[n] and seg_is(l, xs, ys):
                used[n] = True
                found[k] = l
                break
        else:
            bad.append("no segment joins %r-%r for row %d" % (list(zip(xs, ys))[0], list(zip(xs, ys))[1], k))
    # "ONE segment per matched pair": an unclaimed line that looks like a matching segment belongs to no row
    f1 = [p for p in case["d1"] if math.isfinite(p[1])]
    f2 = [p for p in case["d2"] if math.isfinite(p[1])]
    cands = [([p[0], q[0]], [p[1], q[1]]) for p in f1 for q in f2] + \
            [([p[0], (p[0] + p[1]) / 2.0], [p[1], (p[0] + p[1]) / 2.0]) for p in f1 + f2 if p[0] != p[1]]
    for n, l in enumerate(lines):
        if used[n] or len(l["xs"]) != 2 or l["xs"] == l["ys"]:
            continue                       # claimed by a row / not a segment / lies on the diagonal (the diagonal itself)
        if any(seg_is(l, xs, ys) for xs, ys in cands):
            bad.append("a segment %r-%r is drawn that belongs to no row of the matching (or to a row twice)"
                       % ((l["xs"][0], l["ys"][0]), (l["xs"][1], l["ys"][1])))
    if case["kind"] == "bn" and case["rows"] and not bad:
        # "marks the bottleneck pair distinctly": SOME row of maximal cost carries a style that no row of smaller cost has.
        # Which of several rows tied at the maximum is marked - one, some or all - is not fixed by the statement.
        dcol = [r[2] for r in case["rows"]]
        top = [k for k in range(len(dcol)) if dcol[k] == max(dcol)]
        sty = lambda l: (l["ls"], l["lw"], l["color"])
        if all(k in found for k in top):         # (a maximal row (-1,-1) draws nothing: it may be the marked one)
            lower = [k for k in found if dcol[k] < max(dcol)]
            if lower and not any(all(sty(found[t]) != sty(found[k]) for k in lower) for t in top):
                bad.append("no row of maximal cost (rows %r) is styled distinctly from the rows of smaller cost" % (top,))
    if len(tgt["scatters"]) != 2:
        bad.append("%d scatter collections, expected the two diagrams" % len(tgt["scatters"]))
    else:
        # the scatter plot still shows ALL points of a non-empty diagram, infinite deaths on the infinity line
        inf_ys = []
        for k, d in enumerate((case["d1"], case["d2"])):
            if d and len(tgt["scatters"][k]["pts"]) != len(d):
                bad.append("scatter %d shows %d points, the diagram has %d" % (k, len(tgt["scatters"][k]["pts"]), len(d)))
            elif d:
                inf_ys += [q[1] for p, q in zip(d, tgt["scatters"][k]["pts"]) if math.isinf(p[1])]
        if inf_ys:
            S = max([abs(v) for v in tgt["xlim"] + tgt["ylim"]] + [1e-300])
            if any(not near(y, inf_ys[0], S) for y in inf_ys) or not any(
                    len(l["ys"]) >= 2 and all(near(y, inf_ys[0], S) for y in l["ys"]) for l in lines):
                bad.append("infinite deaths are not drawn on one horizontal line that is itself drawn (heights %r)" % sorted(set(inf_ys)))
    return bad


# ----------------------------------------------------------------------------- generators

def gen_given(r):
    """how the target axes is supplied: True = ax given, the OTHER axes is pyplot's current one; "current" = ax given and
    it IS pyplot's current axes; False = ax=None (pyplot's current axes is the target)"""
    u = r.random()
    return True if u < 0.55 else ("current" if u < 0.72 else False)


def gen_dgm(ctx, nmax=6, inf_p=0.2, mode=None):
    d = ctx.gen.diagram(nmax, mode=mode)
    r = ctx.rng
    return [[b, (math.inf if r.random() < inf_p else e)] for b, e in d]


def gen_dgms_case(ctx):
    r = ctx.rng
    n = r.choice([1, 1, 2, 2, 3, 4])
    mode = r.choice(["lattice", "half", "dyadic", "dec", "unif"])
    inf_p = r.choice([0.0, 0.2, 0.5])
    dgms = [gen_dgm(ctx, inf_p=inf_p, mode=mode) for _ in range(n)]
    if r.random() < 0.03:
        dgms = [[] for _ in dgms]
    u = r.random()
    if u < 0.45:
        po = None
    elif u < 0.5:
        po = []
    else:
        po = [r.randint(0, n - 1) for _ in range(r.randint(1, 3))]
        if r.random() < 0.2:
            po = [i - n for i in po]
        if r.random() < 0.1:
            po[r.randrange(len(po))] = r.choice([n, n + 1, -n - 1])
    u = r.random()
    if u < 0.3:
        labels = None
    elif u < 0.55:
        labels = r.choice(LABEL_POOL)
    else:
        m = n if r.random() < 0.8 else max(0, n + r.choice([-1, 1, 2]))
        labels = [r.choice(LABEL_POOL) for _ in range(m)]
    title = r.choice(TITLE_POOL) if r.random() < 0.4 else None
    u = r.random()
    xy, xy_empty = None, False
    if u < 0.3:
        a = ctx.gen.coord(mode); c = ctx.gen.coord(mode)
        w = abs(ctx.gen.coord(mode)) + r.choice([0.5, 1.0, 3.0]); h = abs(ctx.gen.coord(mode)) + r.choice([0.5, 2.0])
        xy = [a, a + w, c, c + h]
        v = r.random()
        if v < 0.08:
            xy = [a, a, c, c + h]
        elif v < 0.16:
            xy = [a, a + w, c, c]
        elif v < 0.24:
            xy = [a + w, a, c + h, c]
    elif u < 0.35:
        xy_empty = True
    single = n == 1 and r.random() < 0.5
    return {"op": "dgms", "dgms": dgms, "single": single, "plot_only": po, "labels": labels, "title": title,
            "xy_range": xy, "xy_empty": xy_empty, "diagonal": r.random() < 0.6, "lifetime": r.random() < 0.4,
            "legend": r.random() < 0.6, "given": gen_given(r),
            "ax_color": r.choice(["k", "k", "r", [0.2, 0.4, 0.6]]), "size": r.choice([20, 20, 5, 40]),
            "colormap": r.choice(["default"] * 8 + ["classic", "ggplot"])}


def arr(d):
    return np.array(d, dtype=float).reshape(-1, 2)


def arr_any(d):
    """like `arr`, but diagrams whose coordinates are all integers travel as an INTEGER array in half of the cases
    (decided by the content, so a replay rebuilds the same representation): plots must not depend on the dtype"""
    a = arr(d)
    if a.size and np.all(np.isfinite(a)) and np.all(a == np.round(a)) and (int(abs(a).sum()) + len(d)) % 2 == 0:
        return a.astype(np.int64)
    return a


def run_dgms(case):
    vis = common.pm("visuals")
    _, plt = _plt()
    dg = [arr_any(d) for d in case["dgms"]]         # integer-valued diagrams travel as int64 arrays half of the time
    arg = dg[0] if case["single"] else dg
    kw = dict(plot_only=case["plot_only"], title=case["title"],
              xy_range=([] if case.get("xy_empty") else case["xy_range"]), labels=case["labels"],
              colormap=case.get("colormap", "default"), size=case.get("size", 20),
              ax_color=(np.array(case["ax_color"]) if isinstance(case.get("ax_color"), list) else case.get("ax_color", "k")),
              diagonal=case["diagonal"], lifetime=case["lifetime"], legend=case["legend"], show=False)
    try:
        return with_axes(case["given"], lambda ax: vis.plot_diagrams(arg, ax=ax, **kw))
    finally:
        if case.get("colormap", "default") != "default":
            plt.style.use("default")


def line_dgms(case, old=False):
    lab = case["labels"]
    return "plot.dgms %s %s %s %s %s %s %s %s %s%s" % (
        enc(case["single"]), enc(case["dgms"]), enc(case["plot_only"]), enc(case["title"]),
        enc(case["xy_range"]), enc(lab), enc(case["diagonal"]), enc(case["lifetime"]), enc(case["legend"]),
        " old" if old else "")


def exact_pts_fn(case, model):
    """which scatter coordinates are pure float32 casts of an input (compared exactly)"""
    if isinstance(model, str):
        return None
    dg, po = case["dgms"], case["plot_only"]
    try:
        sel = [py_index(dg, i) for i in po] if po else dg
    except IndexError:
        return None
    def g(k):
        if k >= len(sel):
            return None
        return [(True, (not case["lifetime"]) and math.isfinite(p[1])) for p in sel[k]]
    return g


def gen_fdgm(ctx, mode, nmax=6):
    d = ctx.gen.diagram(nmax, mode=mode)
    return [[float(b), float(e)] for b, e in d]


def gen_match_case(ctx):
    r = ctx.rng
    mode = r.choice(["lattice", "half", "dyadic", "dec", "unif"])
    d1 = gen_fdgm(ctx, mode); d2 = gen_fdgm(ctx, mode)
    u = r.random()
    if u < 0.08:
        d1 = []
    elif u < 0.16:
        d2 = []
    elif u < 0.19:
        d1, d2 = [], []
    # points with infinite death in 45% of the pairs: anywhere in the diagram (so that the finite sub-diagram's numbering
    # differs from the diagram's), also a diagram made of infinite points only
    v = r.random()
    if v < 0.45:
        for d in (d1, d2):
            if r.random() < 0.75:
                for _ in range(r.randint(1, 3)):
                    d.insert(r.randint(0, len(d)), [float(ctx.gen.coord(mode)), math.inf])
        if r.random() < 0.1:
            d1 = [[float(ctx.gen.coord(mode)), math.inf] for _ in range(r.randint(1, 2))]
    kind = r.choice(["bn", "ws"])
    src = r.choice(["bn", "ws"]) if r.random() < 0.25 else kind
    with warnings.catch_warnings():
        warnings.simplefilter("ignore")
        if src == "bn":
            _, m = common.pm("bottleneck").bottleneck(arr(d1), arr(d2), matching=True)
        else:
            _, m = common.pm("wasserstein").wasserstein(arr(d1), arr(d2), matching=True)
    rows = [[int(a), int(b), float(c)] for a, b, c in np.asarray(m, dtype=float).reshape(-1, 3).tolist()]
    n1 = max(1, sum(1 for p in d1 if math.isfinite(p[1])))
    n2 = max(1, sum(1 for p in d2 if math.isfinite(p[1])))
    edits = []
    if r.random() < 0.35:
        for _ in range(r.randint(1, 3)):
            v = r.random()
            if v < 0.3:
                row = [-1, -1, r.choice([0.0, 0.0, 5.0, 1e9])]
            elif v < 0.6:
                row = [-1, r.randint(0, n2 - 1), abs(ctx.gen.coord(mode))]
            elif v < 0.85:
                row = [r.randint(0, n1 - 1), -1, abs(ctx.gen.coord(mode))]
            else:
                row = [r.randint(0, n1 - 1), r.randint(0, n2 - 1), abs(ctx.gen.coord(mode))]
            rows.insert(r.randint(0, len(rows)), row)
        edits.append("added")
    if rows and r.random() < 0.15:
        mx = max(x[2] for x in rows)
        rows[r.randrange(len(rows))][2] = mx           # tie for the arg-max
        edits.append("tie")
    if rows and r.random() < 0.04:
        k = r.randrange(len(rows))
        rows[k][r.choice([0, 1])] = r.choice([7, 9, -9])
        edits.append("oob")
    if r.random() < 0.03:
        rows = []
        edits.append("empty")
    labels = r.choice([None, None, [r.choice(LABEL_POOL), r.choice(LABEL_POOL)]])
    return {"op": "match", "kind": kind, "src": src, "d1": d1, "d2": d2, "rows": rows, "labels": labels,
            "given": gen_given(r), "edits": edits}


def run_match(case):
    vis = common.pm("visuals")
    fn = vis.bottleneck_matching if case["kind"] == "bn" else vis.wasserstein_matching
    m = np.array(case["rows"], dtype=float).reshape(-1, 3)
    kw = {} if case["labels"] is None else {"labels": list(case["labels"])}
    return with_axes(case["given"], lambda ax: fn(arr_any(case["d1"]), arr_any(case["d2"]), m, ax=ax, **kw))


C45, S45 = float(np.cos(np.pi / 4)), float(np.sin(np.pi / 4))


def line_match(case, old=False):
    return "plot.match %s %s %s %s %s %s %s" % (
        case["kind"] + ("old" if old else ""), enc(C45), enc(S45), enc(case["d1"]), enc(case["d2"]),
        enc(case["rows"]), enc(case["labels"] or ["dgm1", "dgm2"]))


# ----------------------------------------------------------------------------- landscapes (2-D)

def gen_land_case(ctx):
    r = ctx.rng
    kind = r.choice(["exact", "approx"])
    from_dgms = r.random() < 0.6
    case = {"op": "land", "kind": kind, "from_dgms": from_dgms, "given": gen_given(r),
            "title": r.choice([None, "LS"]), "labels": r.choice([None, ["t", "value"]]),
            "alpha": r.choice([1, 0.5]), "padding": r.choice([0.1, 0.0, 0.3])}
    if from_dgms:
        mode = r.choice(["lattice", "half", "dec"])
        d = [b for b in gen_fdgm(ctx, mode, nmax=5) if b[1] > b[0]] or [[0.0, 2.0]]
        case["dgm"] = d
        if kind == "approx":
            case["num_steps"] = r.choice([2, 3, 7, 20])
    elif kind == "exact":
        case["crit"] = [[[float(x), float(abs(ctx.gen.coord("half")))] for x in sorted(r.sample(range(0, 20), r.randint(2, 5)))]
                        for _ in range(r.randint(1, 4))]
    else:
        k = r.choice([1, 2, 5])
        case["start"], case["stop"] = 0.5, 0.5 + r.choice([0.0, 1.0, 3.25])
        case["values"] = [[float(abs(ctx.gen.coord("half"))) for _ in range(k)] for _ in range(r.randint(1, 3))]
    case["depth_range"] = r.choice([None, None, [0], [1, 2], [0, 5], [], {"range": [0, 2]}, {"range": [1, 4]}, {"range": [2, 2]}])
    return case


def depth_list(dr):
    """the depths a depth_range selects, as the list the model takes (a `range` object is passed to the code as such)"""
    if isinstance(dr, dict):
        return list(range(*dr["range"]))
    return dr


def depth_arg(dr):
    return range(*dr["range"]) if isinstance(dr, dict) else dr


def build_landscape(case):
    import contextlib, io
    with contextlib.redirect_stdout(io.StringIO()):      # "Bad choice of grid, values is empty"
        return _build_landscape(case)


def _build_landscape(case):
    L = common.pm("landscapes")
    if case["kind"] == "exact":
        if case["from_dgms"]:
            return L.PersLandscapeExact(dgms=[arr(case["dgm"])], hom_deg=0)
        return L.PersLandscapeExact(critical_pairs=[list(map(list, c)) for c in case["crit"]], hom_deg=0)
    if case["from_dgms"]:
        return L.PersLandscapeApprox(dgms=[arr(case["dgm"])], hom_deg=0, num_steps=case["num_steps"])
    return L.PersLandscapeApprox(start=case["start"], stop=case["stop"], values=np.array(case["values"], dtype=float),
                                 num_steps=len(case["values"][0]))


def run_land(case):
    L = common.pm("landscapes")
    land = build_landscape(case)
    land.compute_landscape()
    if case["kind"] == "exact":
        data = [[[float(a), float(b)] for a, b in c] for c in land.critical_pairs]
        line = "plot.land.exact %s %s" % (enc(data), enc(depth_list(case["depth_range"])))
    else:
        if np.asarray(land.values).dtype.kind not in "fiu":
            return None                       # "Bad choice of grid, values is empty": nothing to plot
        data = [[float(v) for v in row] for row in np.asarray(land.values, dtype=float)]
        line = "plot.land.approx %s %s %s %s" % (enc(float(land.start)), enc(float(land.stop)), enc(data),
                                                  enc(depth_list(case["depth_range"])))
    dr = depth_arg(case["depth_range"])
    res = with_axes(case["given"], lambda ax: L.plot_landscape_simple(
        land, alpha=case["alpha"], padding=case["padding"], title=case["title"], ax=ax, labels=case["labels"],
        depth_range=dr))
    return line, data, (float(land.start), float(land.stop)) if case["kind"] == "approx" else None, res


def clauses_land(case, data, startstop, status, tgt, oth):
    if status != "ok":
        return []
    dr = depth_list(case["depth_range"])
    keep = [k for k in range(len(data)) if (not dr) or k in dr]
    bad = []
    if len(tgt["lines"]) != len(keep):
        bad.append("%d lines for %d depths" % (len(tgt["lines"]), len(keep)))
        return bad
    S = max(common.maxabs(data), 1e-300)
    for l, k in zip(tgt["lines"], keep):
        if case["kind"] == "exact":
            xs, ys = [p[0] for p in data[k]], [p[1] for p in data[k]]
        else:
            ys = data[k]
            xs = [float(v) for v in np.linspace(startstop[0], startstop[1], num=len(ys))]
            S = max(S, abs(startstop[0]), abs(startstop[1]))
        if not (near_list(xs, l["xs"], S) and near_list(ys, l["ys"], S)):
            bad.append("depth %d is not drawn through its data" % k)
        if l["label"] != "$\\lambda_{%d}$" % k:
            bad.append("depth %d labelled %r" % (k, l["label"]))
    if tgt["title"] != (case["title"] or ""):
        bad.append("title %r" % tgt["title"])
    if case["labels"] and (tgt["xlabel"], tgt["ylabel"]) != tuple(case["labels"]):
        bad.append("axis labels %r" % ((tgt["xlabel"], tgt["ylabel"]),))
    if case["given"] and not pristine(oth):
        bad.append("artists landed on the axes that was NOT given")
    return bad


def compare_land(model, status, tgt, oth, given, sty, case):
    if model == "bad-op":
        raise common.HarnessError("driver rejected a landscape plot operation")
    if status != "ok":
        return "status: code %s (model has no error path here)" % status
    S = max(scale_of(tofloat([a[2:4] for a in model])), 1e-300)
    lines = [a for a in model]
    if len(lines) != len(tgt["lines"]):
        return "line count: model %d, code %d" % (len(lines), len(tgt["lines"]))
    for m, c in zip(lines, tgt["lines"]):          # legend/colour order = depth order: compared in order
        if not (near_list(m[2], c["xs"], S) and near_list(m[3], c["ys"], S) and m[5] == c["label"]
                and style_ok("landscape", c, sty, None, case["alpha"])):
            return "line for %r differs: model %r code %r" % (m[5], tofloat(m), c)
    if tgt["legend"] != [m[5] for m in lines]:
        return "legend %r" % (tgt["legend"],)
    if tgt["scatters"] or (given and not pristine(oth)):
        return "unexpected artists"
    if tgt["title"] != (case["title"] or ""):
        return "title"
    if (tgt["xlabel"], tgt["ylabel"]) != (tuple(case["labels"]) if case["labels"] else ("", "")):
        return "axis labels"
    return None


# ----------------------------------------------------------------------------- corpus

def corpus():
    base = {"op": "dgms", "single": False, "plot_only": None, "labels": None, "title": None, "xy_range": None,
            "xy_empty": False, "diagonal": True, "lifetime": False, "legend": True, "given": True,
            "ax_color": "k", "size": 20, "colormap": "default"}
    D = [[[0.0, 1.0], [1.0, 1.0], [2.0, 4.0], [3.0, 5.0]], [[0.5, 3.0], [2.0, 4.0], [4.0, 5.0], [10.0, 15.0]]]
    I = [[[0.0, math.inf], [1.0, 1.0], [2.0, 4.0]], [[0.5, 3.0], [0.1, math.inf]]]
    out = [dict(base, dgms=D), dict(base, dgms=D, lifetime=True), dict(base, dgms=I), dict(base, dgms=I, lifetime=True),
           dict(base, dgms=I, plot_only=[1], labels="abc"),            # 59a7acc: was labelled 'b'
           dict(base, dgms=I, plot_only=[1], labels="a"),              # 59a7acc: was IndexError
           dict(base, dgms=I, plot_only=[-1, 0], labels=["X", "Y"], title="mytitle", legend=True),
           dict(base, dgms=[[[1.0, 1.0]]], single=True),               # one value: degenerate limits
           dict(base, dgms=[[], []]),                                  # ValueError (np.min of nothing)
           dict(base, dgms=[]),                                        # ValueError (np.concatenate([]))
           dict(base, dgms=D, plot_only=[2]),                          # IndexError
           dict(base, dgms=D, xy_range=[-1.0, 20.0, -2.0, 18.0], lifetime=True),
           dict(base, dgms=I, xy_range=[-1.0, 20.0, -2.0, 18.0], given=False),
           dict(base, dgms=D, labels=["X"]),                           # zip drops the second diagram
           dict(base, dgms=[[[1.0, 0.25]]], lifetime=True, single=True)]   # death < birth: below the y range
    mb = {"op": "match", "labels": None, "given": True, "edits": [], "src": "hand"}
    out += [dict(mb, kind="bn", d1=[[0.1, 0.2], [0.2, 0.4]], d2=[[0.1, 0.2], [0.3, 0.45]],
                 rows=[[0, 0, 0.0], [1, 1, 0.1], [-1, -1, 0.0]]),
            dict(mb, kind="bn", d1=[[0.0, 1.0]], d2=[[1.0, 3.0]], rows=[[0, -1, 0.5], [-1, 0, 1.0]]),   # 64802c3
            dict(mb, kind="ws", d1=[[0.0, 1.0]], d2=[[1.0, 3.0]], rows=[[0, -1, 0.5], [-1, 0, 1.0]]),   # 64802c3
            dict(mb, kind="bn", d1=[], d2=[[1.0, 3.0]], rows=[[0, -1, 0.0], [-1, 0, 1.0]]),
            dict(mb, kind="ws", d1=[], d2=[], rows=[[0, 0, 0.0]]),
            dict(mb, kind="bn", d1=[], d2=[], rows=[[0, 0, 0.0]]),
            dict(mb, kind="bn", d1=[[0.0, 1.0]], d2=[[1.0, 3.0]], rows=[]),
            dict(mb, kind="bn", d1=[[0.0, 2.0], [1.0, 3.0]], d2=[[1.0, 3.0]], rows=[[0, -1, 1.0], [1, 0, 1.0]], given=False),
            # 3ef18e2: the row (0,0) returned for these diagrams must be drawn from (1,2), not from (0,inf)
            dict(mb, kind="bn", d1=[[0.0, math.inf], [1.0, 2.0]], d2=[[1.0, 2.1]], rows=[[0, 0, 0.1]]),
            dict(mb, kind="ws", d1=[[0.0, math.inf], [1.0, 2.0]], d2=[[1.0, 2.1]], rows=[[0, 0, 0.1]]),
            dict(mb, kind="ws", d1=[[0.0, math.inf]], d2=[[1.0, 2.0], [3.0, math.inf]], rows=[[-1, 0, 0.5]]),
            dict(mb, kind="bn", d1=[[0.0, math.inf]], d2=[], rows=[[-1, -1, 0.0]])]
    return out


# ----------------------------------------------------------------------------- run

def nontrivial(case, model):
    if isinstance(model, str):
        return False
    if case["op"] == "dgms":
        return sum(len(a[2]) for a in model[0] if a[0] == "scatter") >= 2
    return any(a[0] == "line" and a[4] in ("matchmax", "matchother", "wass") for a in model[0])


def run(ctx):
    py2lean.report_broken(ctx, PROP_FILES)          # generated obligations (Generated/SrcPlot.lean) that no longer check
    r = ctx.rng
    ctx.extra["source_digest"] = {
        "visuals": common.source_digest("persim/visuals.py", ["plot_diagrams", "bottleneck_matching", "wasserstein_matching"]),
        "landscapes/visuals": common.source_digest("persim/landscapes/visuals.py",
                                                   ["plot_landscape_exact_simple", "plot_landscape_approx_simple"])}
    cases = corpus()
    for _ in range(ctx.n(450, 9000)):
        cases.append(gen_dgms_case(ctx) if r.random() < 0.55 else gen_match_case(ctx))
    lines = [line_dgms(c) if c["op"] == "dgms" else line_match(c) for c in cases]
    answers = ask(lines)
    cov = common.LineCov(["persim/visuals.py"])
    rs = {"found": 0, "nofound": 0, "silent": 0}
    for k, (case, model) in enumerate(zip(cases, answers)):
        if k < 250:
            with cov:
                res = run_dgms(case) if case["op"] == "dgms" else run_match(case)
        else:
            res = run_dgms(case) if case["op"] == "dgms" else run_match(case)
        status, tgt, oth, sty, _w = res
        ctx.case(case, nontrivial(case, model), sample_every=131)
        ctx.count("%s:%s" % (case["op"] if case["op"] == "dgms" else case["kind"], status if status != "ok" else "ok"))
        ctx.count("ax:" + ("given-not-current" if case["given"] is True else "given-and-current" if case["given"] else "none-current"))
        if case["op"] == "dgms":
            for key in ("lifetime", "diagonal", "legend"):
                ctx.count("%s=%s" % (key, case[key]))
            ctx.count("plot_only:" + ("none" if case["plot_only"] is None else "empty" if not case["plot_only"] else "list"))
            ctx.count("labels:" + ("none" if case["labels"] is None else "str" if isinstance(case["labels"], str) else "list"))
            if isinstance(case["labels"], str) and case["plot_only"]:
                ctx.count("labels:str+plot_only")
            ctx.count("xy_range:" + ("given" if case["xy_range"] else "auto"))
            if any(math.isinf(p[1]) for d in case["dgms"] for p in d):
                ctx.count("has_inf")
            if any(arr_any(d).dtype.kind == "i" for d in case["dgms"]):
                ctx.count("dgms:integer_dtype_array")
            if isinstance(case["labels"], list) and not case["plot_only"] and len(case["labels"]) < len(case["dgms"]):
                ctx.count("labels_shorter_than_diagrams(outside quantifier)")
            if not isinstance(model, str) and (model[1][0] == model[1][1] or model[2][0] == model[2][1]):
                ctx.count("degenerate_limits(containment only)")
            diff = compare_fig(model, status, tgt, oth, case["given"], sty, case["ax_color"], case["size"],
                               exact_pts_fn(case, model))
        else:
            for e in case["edits"]:
                ctx.count("rows:" + e)
            ctx.count("rows:src=" + case["src"])
            if not case["d1"] or not case["d2"]:
                ctx.count("empty_diagram")
            if any(math.isinf(p[1]) for d in (case["d1"], case["d2"]) for p in d):
                ctx.count("match:has_inf")
                if any(d and math.isinf(d[0][1]) for d in (case["d1"], case["d2"])):
                    ctx.count("match:inf_point_before_finite_ones")
            if any(x[0] == -1 and x[1] != -1 for x in case["rows"]):
                ctx.count("rows:has_i=-1")
            diff = compare_fig(model, status, tgt, oth, case["given"], sty)
        # [T] the statement's clauses, evaluated on the read-back artists of EVERY case (independent of the model)
        failed = (clauses_dgms if case["op"] == "dgms" else clauses_match)(case, status, tgt, oth)
        ctx.test("statement_clauses:" + case["op"], not failed)
        if diff or failed:
            if not report(ctx, rs, "%s: %s; statement clauses failing on the read-back artists: %s"
                          % (case["op"], ("code and model differ (%s)" % diff) if diff else "code and model agree",
                             failed or "none"), case, failed, lines[k], diff):
                break
    ctx.extra["line_coverage"] = cov.summary()
    ctx.extra["core_theorems"] = CORE_THEOREMS
    if rs["found"] < 3:
        landscapes(ctx, rs)
    if rs["silent"]:
        ctx.count("disagreements without a failing clause beyond the first two (searched, not reported)", rs["silent"])


def report(ctx, rs, what, case, failed, line, diff):
    """a disagreement is reported with `found_input` iff a clause of the statement fails on the real code's artists.
    The search goes on through the rest of the stream: only the first two disagreements WITHOUT a failing input are
    written out, and the run stops after three failing inputs.  Returns False when the run should stop."""
    if failed:
        rs["found"] += 1
        ctx.violation(what, case, found_input=True, correspondence=line, difference=diff, clauses=failed)
    elif rs["nofound"] < 2:
        rs["nofound"] += 1
        ctx.violation(what, case, found_input=False, correspondence=line, difference=diff, clauses=[])
    else:
        rs["silent"] += 1
    return rs["found"] < 3


def slice_probe(ctx):
    """DOCUMENTED LIMIT, shown on the real code: the docstrings of the landscape plots give `depth_range: slice`, but the
    code tests `depth not in depth_range`, which a slice does not support - a `slice` raises TypeError, a `range` or a
    list of depths is what works (and what the generator uses).  Recorded, not a violation of this statement."""
    L = common.pm("landscapes")
    land = L.PersLandscapeExact(dgms=[arr([[0.0, 4.0], [1.0, 3.0], [1.5, 2.5]])], hom_deg=0)
    out = {}
    for name, dr in (("slice(0, 2)", slice(0, 2)), ("range(0, 2)", range(0, 2)), ("[0, 1]", [0, 1])):
        status, tgt, oth, _, _ = with_axes(True, lambda ax: L.plot_landscape_simple(land, ax=ax, depth_range=dr))
        out[name] = status if status != "ok" else "ok: %d lines" % len(tgt["lines"])
    ctx.extra["documented_limit_depth_range_forms"] = out
    ctx.count("land:depth_range=slice -> " + out["slice(0, 2)"])


def landscapes(ctx, rs):
    slice_probe(ctx)
    cases = [gen_land_case(ctx) for _ in range(ctx.n(50, 800))]
    done = []
    for case in cases:
        got = run_land(case)
        if got is None:
            ctx.count("land:skipped(empty grid values)")
            continue
        line, data, ss, res = got
        done.append((case, line, data, ss, res))
    answers = ask([d[1] for d in done])
    for (case, line, data, ss, (status, tgt, oth, sty, _w)), model in zip(done, answers):
        ctx.case(case, status == "ok" and isinstance(model, list) and len(model) >= 1, sample_every=53)
        ctx.count("land:%s:%s" % (case["kind"], status))
        ctx.count("land:depth_range:" + ("none" if case["depth_range"] is None else "range" if isinstance(case["depth_range"], dict) else "list"))
        diff = compare_land(model, status, tgt, oth, case["given"], sty, case)
        # C20's statement speaks of diagram plots and matching plots; the 2-D landscape plots are tied to their model
        # (landscape_lines_spec) and their clauses are evaluated, but a failure there is never a claimed failing input
        failed = clauses_land(case, data, ss, status, tgt, oth)
        ctx.test("landscape_clauses(not in the statement):land", not failed)
        if diff or failed:
            if not report(ctx, rs, "landscape plot (not part of C20's statement: correspondence only): %s; landscape clauses failing: %s"
                          % (("code and model differ (%s)" % diff) if diff else "code and model agree", failed or "none"),
                          case, [], line, diff or "; ".join(failed)):
                return


def replay(ctx, rep):
    case = rep["case"]
    if "op" not in case:
        print("nothing to replay on the code:", rep.get("what"))
        return True
    if case["op"] == "dgms":
        for d in case["dgms"]:
            for p in d:
                p[1] = math.inf if p[1] in ("inf", "Infinity") else p[1]
        status, tgt, oth, _, _ = run_dgms(case)
        failed = clauses_dgms(case, status, tgt, oth)
    elif case["op"] == "match":
        for d in (case["d1"], case["d2"]):
            for p in d:
                p[1] = math.inf if p[1] in ("inf", "Infinity") else p[1]
        status, tgt, oth, _, _ = run_match(case)
        failed = clauses_match(case, status, tgt, oth)
    else:
        line, data, ss, (status, tgt, oth, _, _) = run_land(case)
        print("landscape clauses (not part of C20's statement, correspondence only):",
              clauses_land(case, data, ss, status, tgt, oth) or "none failing")
        failed = []
    print("status:", status)
    print("target axes:", {k: v for k, v in tgt.items()})
    print("other axes pristine:", pristine(oth), "" if pristine(oth) else oth)
    print("failed clauses:", failed or "none")
    return not failed


MANIFEST = {
    "text": "Proof: 28 Lean theorems (14 of them core: each carries a clause of the statement; the rest are helpers, rfl "
            "restatements and three decide-proved counterexamples for the code before its repairs) about a pure model of "
            "plot_diagrams / bottleneck_matching / wasserstein_matching / the 2-D landscape plots (arguments -> "
            "list of abstract artists tagged with the axes they land on, limits, labels, title, legend flag) over any linear ordered "
            "field and any float32 cast, for diagrams and matchings of every size and every option combination: scatters_eq / "
            "one_scatter_per_diagram (one collection per plotted diagram, in order, coordinates (b,d) or (b,d-b), infinite deaths at "
            "b_inf; guard: one label per diagram), inf_line_inside (y_down < b_inf < y_up for positive height; the infinity line is "
            "drawn exactly once iff some plotted death is infinite), limits_contain_points (no xy_range; lifetime mode under b <= d, "
            "with lifetime_guard_needed showing the guard is necessary), xy_range_respected (x exactly; y exactly, in lifetime mode "
            "only its height), labels_title_legend + selected_spec (plot_only as Python indexing; each plotted diagram carries the "
            "label requested for it), diagram_plot_on_given_axes, segments_match_rows / _wasserstein - now for diagrams WITH points "
            "of infinite death: the scatter plot shows every point, and there is one segment per row that is not "
            "(-1,-1), in row order, ALL on the given axes, joining points of the finite-death sub-diagrams (what the rows of a "
            "returned matching index; (0,0) placeholder when there is none) or such a point and ((b+d)/2,(b+d)/2) from c*c = 1/2, "
            "first-arg-max row styled distinctly; real_constants: cos/sin(pi/4) meet the hypotheses - landscape_lines_spec (the 2-D "
            "landscape plots add exactly one line per depth kept by depth_range, in depth order, through that depth's points, "
            "labelled lambda_k, on the given axes), *_succeeds (the model rejects "
            "only invalid indices / nothing to draw), and decide-proved counterexamples for the code before 64802c3 (plt.plot: a row "
            "with i = -1 lands on pyplot's current axes), before 59a7acc (single string label indexed by plot_only) and before "
            "3ef18e2 (rows indexed the unfiltered diagrams: [(0,inf),(1,2)] vs [(1,3)], row (0,0) drawn from (0,inf)). The model is "
            "tied to the code on every run by reading every artist, limit, label, title and legend text back from BOTH axes of a "
            "two-axes Agg figure (the other axes current, or ax=None) and comparing with the model run at Rat with a real "
            "round-to-nearest-even float32 cast (legend order included); the statement's clauses are additionally evaluated in plain "
            "Python on every case - there the legend is checked as 'an infinity entry iff needed + one entry per scatter with the "
            "requested text', so a mere reordering of the plot calls is a correspondence break, not a violation. The clauses judge only "
            "what the statement fixes (see the module docstring): with several rows tied at the maximal cost any or all of them may carry "
            "the distinct style, segments are recognised by their end points rather than by style, per-coordinate single-precision "
            "tolerance; literal texts chosen by the code, success on out-of-range plot_only / rows and the landscape plots (not in the "
            "statement) are correspondence-only. The case 'the supplied axes is pyplot's current one' is generated as well.",
    "note": "Trusted: Lean kernel + Mathlib, axioms propext/Classical.choice/Quot.sound; the correspondence harness; matplotlib as a "
            "contract (an artist added to an Axes is drawn there; Axes.legend lists labelled artists in insertion order; set_xlim "
            "stores its arguments unless they coincide). Not modelled: the 3-D landscape plots, colormap/style side effects "
            "(plt.style.use), size/ax_color beyond a read-back check, show, rendering. "
            "[T] only: float32 rounding inside the range computation (1e-6 relative), legend texts, styles, integer-dtype arrays. "
            "That the rows returned by bottleneck()/wasserstein() number the finite-death points is those functions' contract (C06); "
            "the matching stream passes diagrams with infinite points together with the matching the real functions return for them. "
            "Outside the statement, reported: plot_diagrams and "
            "bottleneck_matching raise ValueError when every plotted diagram is empty (no range), wasserstein_matching does not; a label "
            "list shorter than the diagrams silently drops diagrams (zip); DOCUMENTED LIMIT shown on the real code: the landscape "
            "plots' docstrings say `depth_range: slice`, but a slice raises TypeError (`depth not in depth_range`) - a list of depths "
            "or a `range` is what works and what is generated.",
    "technique": "Lean 4 theorems over a hand-written artist-list model + differential read-back of matplotlib artists on two axes",
}

# ----------------------------------------------------------------------------- source translator (DESIGN.md 3.2, key "plot")
# harness/translator/py2lean_plot.py re-translates plot_diagrams / bottleneck_matching / wasserstein_matching (and the 2-D landscape
# plots) from PERSIM_ROOT's source into Generated/SrcPlot.lean on every run; the obligations src_<f>_eq_model tie the translated
# text to Model/Plot.lean for all inputs (Lemmas/SrcBridgePlot.lean), the text pins cover what is not translated.
TRUSTED = [py2lean.trusted_note("plot")]
PROP_FILES = ["PersimVerif/Props/C20.lean"] + py2lean.prop_files("plot")


def pre_build(ctx):
    """source translator: regenerate Generated/SrcPlot.lean from PERSIM_ROOT's source"""
    py2lean.pre_build(ctx, ("plot",))


MANIFEST["note"] += " " + py2lean.manifest_note("plot")
MANIFEST["technique"] += " + source translator (statement-level, proved equal to the model)"
