"""
Shared machinery of the correspondence harness.

* puts the real `persim` of PERSIM_ROOT (default /repo) first on sys.path, with the hook guard on;
* encodes / decodes the line protocol of lean/Driver.lean (exact rationals in, rationals or
  IEEE bit patterns out);
* runs the compiled model driver (fallback: `lake env lean --run Driver.lean`);
* `Ctx` collects counts, samples, violations and writes the evidence file.

Nothing here decides a property; see harness/props/cXX.py.
"""
import os, sys, json, math, struct, subprocess, time, random, hashlib, ast, warnings
from fractions import Fraction

VERIF = os.path.dirname(os.path.dirname(os.path.abspath(__file__)))
LEAN_DIR = os.environ.get("PERSIM_LEAN_DIR", os.path.join(VERIF, "lean"))
REPO = os.path.abspath(os.environ.get("PERSIM_ROOT", "/repo"))
GUARD = "PERSIM_VERIF"


def import_persim():
    """import the real persim from REPO's working tree and make sure that is what we got"""
    os.environ[GUARD] = "1"
    os.environ.setdefault("MPLBACKEND", "Agg")
    sys.dont_write_bytecode = True
    warnings.filterwarnings("ignore", category=SyntaxWarning)
    if REPO not in sys.path:
        sys.path.insert(0, REPO)
    import persim  # noqa

    here = os.path.realpath(persim.__file__)
    if not here.startswith(os.path.realpath(REPO) + os.sep):
        raise HarnessError("persim imported from %s, not from %s" % (here, REPO))
    return persim


def pm(name):
    """the persim submodule `persim.<name>` itself (several are shadowed by same-named functions)"""
    import importlib
    import_persim()
    return importlib.import_module("persim." + name)


class HarnessError(Exception):
    """an internal failure of the machinery (exit status 2, never a violation)"""


# ----------------------------------------------------------------------------- protocol

def enc(v):
    """Python value -> protocol token (no spaces)."""
    import numpy as np

    if v is None:
        return "none"
    if isinstance(v, (bool, np.bool_)):
        return "T" if v else "F"
    if isinstance(v, str):
        return v
    if isinstance(v, Fraction):
        return "%d/%d" % (v.numerator, v.denominator) if v.denominator != 1 else "%d" % v.numerator
    if isinstance(v, (int, np.integer)):
        return "%d" % int(v)
    if isinstance(v, (float, np.floating)):
        v = float(v)
        if math.isnan(v):
            return "nan"
        if math.isinf(v):
            return "inf" if v > 0 else "-inf"
        n, d = v.as_integer_ratio()
        return "%d/%d" % (n, d) if d != 1 else "%d" % n
    if isinstance(v, (list, tuple)):
        return "[" + ",".join(enc(x) for x in v) + "]"
    if isinstance(v, np.ndarray):
        return enc(v.tolist())
    raise HarnessError("cannot encode %r" % (type(v),))


def _bits_to_float(b):
    return struct.unpack("<d", struct.pack("<Q", b))[0]


def dec(s):
    """protocol token -> Python value (Fraction for rationals, float for f<bits>)."""
    s = s.strip()
    val, rest = _dec(s, 0)
    if rest != len(s):
        raise HarnessError("trailing garbage in model answer %r" % s[:200])
    return val


def _dec(s, i):
    if i < len(s) and s[i] == "[":
        i += 1
        out = []
        while True:
            if i >= len(s):
                raise HarnessError("unterminated list in %r" % s[:200])
            if s[i] == "]":
                return out, i + 1
            if s[i] == ",":
                i += 1
                continue
            v, i = _dec(s, i)
            out.append(v)
    j = i
    while j < len(s) and s[j] not in ",[]":
        j += 1
    tok = s[i:j]
    return _scalar(tok), j


def _scalar(tok):
    if tok == "inf":
        return math.inf
    if tok == "-inf":
        return -math.inf
    if tok == "nan":
        return math.nan
    if tok == "T":
        return True
    if tok == "F":
        return False
    if tok == "none":
        return None
    if len(tok) > 1 and tok[0] == "f" and tok[1:].isdigit():
        return _bits_to_float(int(tok[1:]))
    try:
        if "/" in tok:
            p, q = tok.split("/")
            return Fraction(int(p), int(q))
        return Fraction(int(tok))
    except ValueError:
        return tok


def driver_cmd():
    exe = os.path.join(LEAN_DIR, ".lake", "build", "bin", "persim_model")
    if os.path.exists(exe):
        return [exe]
    return ["lake", "env", "lean", "--run", "Driver.lean"]


def run_model(lines, timeout=1800):
    """pipe protocol lines through the model driver, return the raw answer lines"""
    if not lines:
        return []
    for ln in lines:
        if "\n" in ln:
            raise HarnessError("newline inside protocol line")
    p = subprocess.run(driver_cmd(), input=("\n".join(lines) + "\n").encode(), cwd=LEAN_DIR,
                       stdout=subprocess.PIPE, stderr=subprocess.PIPE, timeout=timeout)
    if p.returncode != 0:
        raise HarnessError("model driver failed: %s" % p.stderr.decode()[-2000:])
    out = p.stdout.decode().split("\n")
    if out and out[-1] == "":
        out.pop()
    if len(out) != len(lines):
        raise HarnessError("model driver answered %d lines for %d operations" % (len(out), len(lines)))
    return out


def ask(lines):
    """run_model + decode; `bad-op` stays the string 'bad-op', errors stay 'err:Kind'"""
    return [dec(a) for a in run_model(lines)]


# ----------------------------------------------------------------------------- comparison

def num(x):
    """float view of a decoded number"""
    return float(x)


def close(a, b, tol=1e-9, scale=1.0):
    """|a-b| <= tol*max(1,scale); NaN equals NaN, inf equals inf of the same sign"""
    a = float(a); b = float(b)
    if math.isnan(a) or math.isnan(b):
        return math.isnan(a) and math.isnan(b)
    if math.isinf(a) or math.isinf(b):
        return a == b
    return abs(a - b) <= tol * max(1.0, abs(scale))


def close_nested(a, b, tol=1e-9, scale=1.0):
    if isinstance(a, (list, tuple)) or isinstance(b, (list, tuple)):
        if not (isinstance(a, (list, tuple)) and isinstance(b, (list, tuple))) or len(a) != len(b):
            return False
        return all(close_nested(x, y, tol, scale) for x, y in zip(a, b))
    if isinstance(a, str) or isinstance(b, str):
        return a == b
    if a is None or b is None:
        return a is b
    return close(a, b, tol, scale)


def maxabs(v):
    if isinstance(v, (list, tuple)):
        return max([maxabs(x) for x in v] + [0.0])
    try:
        f = abs(float(v))
    except (TypeError, ValueError):
        return 0.0
    return f if math.isfinite(f) else 0.0


def call(fn, *a, **k):
    """call real code; returns ('ok', value, [warning categories]) or ('err', 'Kind', [...])"""
    with warnings.catch_warnings(record=True) as w:
        warnings.simplefilter("always")
        try:
            v = fn(*a, **k)
            return "ok", v, [x.category.__name__ for x in w]
        except Exception as e:  # the code's own error kinds are part of the contract
            return "err", type(e).__name__, [x.category.__name__ for x in w]


def tolist(v):
    import numpy as np
    if isinstance(v, np.ndarray):
        return v.tolist()
    if isinstance(v, (list, tuple)):
        return [tolist(x) for x in v]
    if isinstance(v, np.generic):
        return v.item()
    return v


# ----------------------------------------------------------------------------- generators

class Gen:
    """structured generators; every choice comes from the one seeded PRNG"""

    def __init__(self, seed):
        self.r = random.Random(seed)

    def coord(self, mode):
        r = self.r
        if mode == "lattice":          # forces ties
            return float(r.randint(0, 6))
        if mode == "half":
            return r.randint(0, 12) / 2.0
        if mode == "dyadic":
            return r.randint(-64, 64) / 8.0 * 2.0 ** r.choice([-20, -3, 0, 0, 0, 3, 20])
        if mode == "dec":              # non-dyadic decimals
            return round(r.uniform(0, 10), r.choice([1, 2, 3]))
        return r.uniform(-5, 10)

    def bar(self, mode, allow_diag=False, positive=True):
        b = self.coord(mode)
        for _ in range(20):
            d = self.coord(mode)
            if d > b or (allow_diag and d == b):
                return [b, d]
            if d < b and not positive:
                return [b, d]
            if d < b:
                return [d, b]
        return [b, b + 1.0]

    def diagram(self, nmax, mode=None, allow_diag=True, allow_empty=True, dup=0.2):
        r = self.r
        mode = mode or r.choice(["lattice", "lattice", "half", "dyadic", "dec", "unif"])
        n = r.randint(0 if allow_empty else 1, nmax)
        pts = []
        for _ in range(n):
            if pts and r.random() < dup:
                pts.append(list(r.choice(pts)))
            else:
                pts.append(self.bar(mode, allow_diag=allow_diag))
        return pts

    def mode(self):
        return self.r.choice(["lattice", "half", "dyadic", "dec", "unif"])


# ----------------------------------------------------------------------------- coverage of anchored code

class LineCov:
    """line coverage of persim's own files while active (sys.settrace; use on a slice of the run)"""

    def __init__(self, files):
        self.files = tuple(os.path.join(REPO, f) for f in files)
        self.hit = {}

    def _tr(self, frame, event, arg):
        fn = frame.f_code.co_filename
        if not fn.startswith(self.files):
            return None
        if event == "line" or event == "call":
            self.hit.setdefault(fn, set()).add(frame.f_lineno)
        return self._tr

    def __enter__(self):
        self._old = sys.gettrace()
        sys.settrace(self._tr)
        return self

    def __exit__(self, *a):
        sys.settrace(self._old)

    def summary(self):
        out = {}
        for f in self.files:
            try:
                src = open(f).read()
            except OSError:
                continue
            body = set()
            for node in ast.walk(ast.parse(src)):
                if isinstance(node, ast.stmt) and not isinstance(node, (ast.FunctionDef, ast.ClassDef, ast.Import, ast.ImportFrom)):
                    if not (isinstance(node, ast.Expr) and isinstance(node.value, ast.Constant)):
                        body.add(node.lineno)
            hit = self.hit.get(f, set()) & body
            out[os.path.relpath(f, REPO)] = {"statements": len(body), "hit": len(hit),
                                             "missed_lines": sorted(body - hit)[:40]}
        return out


def source_digest(relfile, names=None):
    """structural digest (normalised AST dump) of a file or of named top-level/class functions"""
    path = os.path.join(REPO, relfile)
    tree = ast.parse(open(path).read())
    if names is None:
        dump = ast.dump(tree, include_attributes=False)
    else:
        parts = []
        for node in ast.walk(tree):
            if isinstance(node, (ast.FunctionDef, ast.ClassDef)) and node.name in names:
                parts.append(ast.dump(node, include_attributes=False))
        dump = "\n".join(parts)
    return hashlib.sha256(dump.encode()).hexdigest()[:16]


# ----------------------------------------------------------------------------- context / evidence

class Ctx:
    def __init__(self, pid, tier, seed):
        self.pid, self.tier, self.seed = pid, tier, seed
        self.t0 = time.time()
        self.gen = Gen(seed)
        self.rng = self.gen.r
        self.evaluations = 0
        self.nontrivial = set()          # digests of distinct non-trivial cases
        self.samples = []
        self.violations = []             # (replay_path, found_input)
        self.known_hits = {}             # known-finding key -> count
        self.counters = {}
        self.tests = {}                  # [T] streams: name -> {"cases":n,"failures":m}
        self.extra = {}
        self.rule = ""
        self.assumptions = []
        self.thorough = tier == "thorough"

    # --- counting
    def case(self, case, nontrivial=True, sample_every=0):
        self.evaluations += 1
        if nontrivial:
            self.nontrivial.add(hashlib.sha1(repr(case).encode()).digest()[:8])
        if len(self.samples) < 6 and (sample_every == 0 or self.evaluations % max(1, sample_every) == 1):
            self.samples.append(case if len(repr(case)) < 1500 else repr(case)[:1500] + "…")

    def count(self, key, n=1):
        self.counters[key] = self.counters.get(key, 0) + n

    def test(self, name, ok):
        t = self.tests.setdefault(name, {"cases": 0, "failures": 0})
        t["cases"] += 1
        if not ok:
            t["failures"] += 1

    # --- violations
    def violation(self, what, case, found_input=True, **more):
        """record a violation; writes the replay file and prints the VIOLATION line"""
        os.makedirs(os.path.join(VERIF, "replays"), exist_ok=True)
        k = len(self.violations)
        rel = "replays/%s-%s-%d-%d.json" % (self.pid, self.tier, self.seed, k)
        rep = {"property": self.pid, "what": what, "case": case, "found_failing_input": found_input,
               "persim_root": REPO, "seed": self.seed, "tier": self.tier}
        rep.update(more)
        with open(os.path.join(VERIF, rel), "w") as f:
            json.dump(sanitize(rep), f, indent=1, allow_nan=False)
        self.violations.append((rel, found_input))
        tail = "" if found_input else " no-failing-input-found"
        print("VIOLATION property=%s replay=%s%s" % (self.pid, rel, tail), flush=True)
        print("  -> %s" % what, flush=True)
        return rel

    def known(self, key, text):
        if key not in self.known_hits:
            print("KNOWN-FINDING: property=%s %s" % (self.pid, text), flush=True)
        self.known_hits[key] = self.known_hits.get(key, 0) + 1

    def n(self, quick, thorough):
        return thorough if self.thorough else quick

    def elapsed(self):
        return time.time() - self.t0


def sanitize(o):
    """strict-JSON view: non-finite floats become strings, tuples lists, Fractions 'p/q'"""
    if isinstance(o, float):
        return o if math.isfinite(o) else repr(o)
    if isinstance(o, dict):
        return {str(k): sanitize(v) for k, v in o.items()}
    if isinstance(o, (list, tuple)):
        return [sanitize(x) for x in o]
    if isinstance(o, (str, int, bool)) or o is None:
        return o
    return sanitize(_jsonable(o))


def _jsonable(o):
    import numpy as np
    if isinstance(o, Fraction):
        return "%d/%d" % (o.numerator, o.denominator)
    if isinstance(o, np.ndarray):
        return o.tolist()
    if isinstance(o, np.generic):
        return o.item()
    if isinstance(o, (set, frozenset)):
        return sorted(o)
    if isinstance(o, bytes):
        return o.hex()
    return repr(o)


def known_probe(ctx, pid, site, fails_fn, case):
    """deterministic replay of ONE listed finding on the real code.  `fails_fn()` evaluates the listed input against an
    exact oracle and returns (fails, detail).  While it still fails: KNOWN-FINDING line if `known: property=<pid> site=<site>`
    is listed, a violation with the input otherwise; a note when it no longer reproduces.  Nothing is written at run time."""
    listed = [t for k, t in known_findings(pid) if k == "known" and ("site=" + site) in t]
    fails, detail = fails_fn()
    ctx.extra["known_finding_still_fails:" + site] = bool(fails)
    ctx.test("known_probe:" + site.rsplit(":", 1)[-1], True)
    if fails and listed:
        ctx.known(site, "site=%s still fails: %s; listed in known_findings.txt" % (site, detail))
    elif fails:
        ctx.violation("%s, and this is not listed in known_findings.txt" % detail, case, found_input=True)
    else:
        print("note: the listed known finding of %s (%s) no longer reproduces on this tree" % (pid, site), flush=True)


def known_findings(pid):
    """entries of known_findings.txt for this property: list of (kind, text)"""
    out = []
    path = os.path.join(VERIF, "known_findings.txt")
    if not os.path.exists(path):
        return out
    for ln in open(path):
        ln = ln.strip()
        if not ln or ln.startswith("#"):
            continue
        kind, _, rest = ln.partition(":")
        rest = rest.strip()
        if ("property=%s " % pid) in rest + " ":
            out.append((kind.strip(), rest))
    return out


WARN_PRELUDE = ("import matplotlib; matplotlib.use('Agg'); import matplotlib.pyplot as plt; "
                "_d = np.array([[0.0, 1.0], [0.5, 2.0]]); persim.plot_diagrams([_d, _d], show=False); plt.close('all'); "
                "persim.PersistenceImager(pixel_size=0.5).fit_transform([_d]); "
                "persim.sliced_wasserstein(_d, _d + 0.25); persim.heat(_d, _d + 0.25); "
                "persim.landscapes.PersLandscapeExact(dgms=[_d], hom_deg=0).p_norm(2)")


def warnings_under_default_filters(stmt, prelude=None):
    """[T] number of warnings that reach the CALLER of `stmt` in a fresh interpreter with Python's own warning filters
    (no -W option, no simplefilter): neither `import persim` nor the calls of `prelude` (other public persim functions run
    first in the same process, e.g. WARN_PRELUDE) may install a filter that swallows the library's own warnings.
    `stmt` is Python source using `np` and `persim`.  -> (count, categories) or None if the probe itself failed"""
    import subprocess, sys
    code = ("import sys, warnings; sys.path.insert(0, %r)\n" % REPO
            + "import numpy as np\nimport persim\nimport persim.landscapes\n"
            + ((prelude + "\n") if prelude else "")
            + "with warnings.catch_warnings(record=True) as w:\n"
            + "    " + stmt + "\n"
            + "print('WARNED', len(w), sorted({type(x.message).__name__ for x in w}))\n")
    env = dict(os.environ, MPLBACKEND="Agg", PYTHONDONTWRITEBYTECODE="1")
    env.pop("PYTHONWARNINGS", None)
    p = subprocess.run([sys.executable, "-c", code], stdout=subprocess.PIPE, stderr=subprocess.PIPE, env=env, timeout=300)
    out = p.stdout.decode(errors="replace")
    for line in out.split("\n"):
        if line.startswith("WARNED "):
            parts = line.split(" ", 2)
            return int(parts[1]), parts[2]
    return None

