"""Run distance functions of the real persim in a fresh interpreter (so PYTHONHASHSEED takes effect).
stdin: JSON list of [fn, dgm1, dgm2]; stdout: JSON list of values.  PERSIM_ROOT selects the tree."""
import json, os, sys, warnings
sys.path.insert(0, os.path.dirname(os.path.dirname(os.path.abspath(__file__))))
from harness import common
import numpy as np

def main():
    common.import_persim()
    bn = common.pm("bottleneck").bottleneck
    ws = common.pm("wasserstein").wasserstein
    out = []
    with warnings.catch_warnings():
        warnings.simplefilter("ignore")
        for fn, a, b in json.load(sys.stdin):
            A = np.array(a, dtype=float).reshape(-1, 2)
            B = np.array(b, dtype=float).reshape(-1, 2)
            if fn == "bn":
                out.append(float(bn(A, B)))
            elif fn == "bn.m":
                d, m = bn(A, B, matching=True)
                out.append([float(d), np.asarray(m, dtype=float).tolist()])
            elif fn == "ws":
                out.append(float(ws(A, B)))
            else:
                d, m = ws(A, B, matching=True)
                out.append([float(d), np.asarray(m, dtype=float).tolist()])
    json.dump(out, sys.stdout)

if __name__ == "__main__":
    main()
