"""
Source translator Python -> Lean for the PUBLIC ENTRY POINT of persim/gromov_hausdorff.py (DESIGN.md 3.2): the engine behind
py2lean.generate() for key "ghentry".

Translates `gromov_hausdorff`, `make_distance_matrix_from_adjacency_matrix`, `cast_distance_matrix_to_optimal_int_type` and
`determine_optimal_int_type` STATEMENT BY STATEMENT into lean/PersimVerif/Generated/SrcGHEntry.lean and emits the obligations
that tie them to the hand-written model lean/PersimVerif/Model/Graph.lean (the model of property C17), for all inputs:

    src_determine_optimal_int_type_eq_model, src_cast_distance_matrix_to_optimal_int_type_eq_model,
    src_make_distance_matrix_eq_model        (= Graph.makeDist, the csgraph routines being parameters with the model's contract),
    src_gromov_hausdorff_eq_ref / …_eq_model_raising / …_eq_model   (= Graph.gromovHausdorff, `estimate` a parameter).

`Lemmas/SrcGHEntryPublic.lean` (hand-written) plugs the `estimate` that the mGH engine (py2lean_mgh.py) translates into it:
`src_gromov_hausdorff_eq_public` (= MGHPublic.publicGH, the composed model of Props/C05C17.lean).

Semantics of the subset (the translator's conventions; printed in the generated header):
  * every generated definition has type `Except GhErr τ` (`Lemmas/SrcLibGH.lean`): `return e` is `.ok e`, `raise ValueError(…)` is
    `.error (GhErr.value k)` with the model's error kind `k` that the table gives for the raise site, a call of a generated
    definition or of a raising table entry is `match … with | .error e => .error e | .ok x => …` where the statement stands, in
    Python's evaluation order (arguments before the call, the right-hand side before the targets, targets left to right);
  * straight-line code is SSA-renamed, every assignment is a `let`; tuple targets are read by projections;
  * an adjacency matrix arrives in a CONTAINER (`SrcGH.Container`: nested lists, ndarray of any memory layout, scipy sparse of
    some format); an integer array is the pair of its entries and its dtype (`IntArr`); a float matrix that may hold `inf` is a `DMat`;
  * the two call forms of `gromov_hausdorff` are the two values of the test `AH is None`: the function is translated once per
    form (`GHArgs.pair` / `GHArgs.coll`), the tests `AH is None` / `AH is not None` being the constants they are in that form;
  * `for x in range(…)` is a structural recursion over the list of indices (`<f>_loop`, nested: `<f>_loop_2`) carrying the
    names the body re-assigns; the other names it reads are leading parameters;
  * an `if` whose arms fall through yields the names its arms assign (an `Except` when an arm can raise); an arm that raises
    ends the definition there;
  * `warnings.warn(…)` sets the flag `warned` (a hidden variable, `false` at entry) which `return` puts into the result record;
    the message and category are pinned as text (`srcWarnings_<f>`), and so is the message of every `raise`;
  * NumPy's global random generator is an explicit state `s : σ`: a call of `estimate` takes the current state and yields the
    next one (`estimate : σ → Mat → Mat → Except GhErr ((β × β) × σ)` is a PARAMETER here; `β` is the type of the two floats it
    returns, `zero : β` the `0.0` of `np.zeros`), and `gromov_hausdorff` returns the final state with its result;
  * library calls are TABLE ENTRIES (pattern -> definition of `Lemmas/SrcLibGH.lean` or helper of `Model/Graph.lean`); an
    expression that matches no entry is outside the subset.
What the obligations cannot see and the translator therefore REFUSES (`src_…_eq_ref` holds up to definitional unfolding, which
absorbs a `let` that nothing reads and cannot tell two names for one array from two arrays with equal entries):
  * ALIASING: a float array (`FM`, the one kind of value updated in place) is OWNED by the name `np.zeros` bound it to; `y = x` for
    such an `x` is refused, `M[…] = …` is accepted only for an owned `M` (ownership is followed through `if` arms and loops);
  * DEAD STORES: every generated `let` / bound result must be read by what follows it; a loop-carried name must be read by the
    loop itself or after it (`check_live`);
  * NAME CAPTURE: a Lean name is handed out once per definition, and an SSA version `x_k` or temporary `t`, `r`, `j`, `s`, `warned`
    is never an identifier that occurs in the Python function;
  * names resolved BY SPELLING (`SPELLED`, the four functions), the opaque parameter and the constants of the call form must not be
    bound anywhere in the function (any binding form: assignment, loop / comprehension target, `except … as`, …).
A source outside the subset gives `def srcShape_<f> : Bool := false` and the broken obligation `srcShape_<f>_recognised`.
"""
import ast, os, re

from .py2lean import (Shape, lean_str, strip_doc, GEN, bindings_section, render_signature, signature_text, sanitize,
                      not_translated, not_translated_comment)
from .py2lean_mgh import tmatch, template, dotted, tokens, bound_names, identifiers


# ----------------------------------------------------------------------------- types

TY = {"C": "Container", "LC": "List Container", "DM": "DMat", "IA": "IntArr", "DR": "DistResult", "N": "Nat", "ON": "Option Nat",
      "B": "Bool", "LN": "List Nat", "LB": "List Bool", "FM": "List (List β)", "IX": "List (Nat × Nat)", "LV": "List β",
      "IT": "IntType", "LIT": "List IntType", "V": "β", "ST": "σ", "R": "Result β"}


def lty(t, atom=False):
    """Lean text of a type tag (a tuple of tags is a product)"""
    if isinstance(t, tuple):
        s = " × ".join(lty(x, True) for x in t)
    else:
        s = TY[t]
    return "(%s)" % s if atom and " " in s else s


class V:
    """a translated PURE value: Lean text, type tag, whether the text is atomic"""
    def __init__(self, t, ty, atom=None):
        self.t, self.ty = t, ty
        self.atom = bool(re.match(r"^[\w.']+$", t)) if atom is None else atom

    def a(self):
        return self.t if self.atom else "(%s)" % self.t


# ----------------------------------------------------------------------------- nodes (every node denotes an `Except GhErr τ`)

class Ret:
    def __init__(self, text):
        self.text = text


class Raw:
    """text that already has type `Except GhErr τ` (a recursive call, a raising table entry in tail position); `passthrough`:
    the recursive call of a loop definition (hands the carried values on: not a READ of them for the dead-store check)"""
    def __init__(self, text, passthrough=False):
        self.text, self.passthrough = text, passthrough


class Fail:
    def __init__(self, err):
        self.err = err


class Let:
    """`structural`: the value of a loop-carried name after the loop, for a name that the loop itself reads (no store of the
    source stands behind it: exempt from the dead-store check)"""
    def __init__(self, name, ty, text, body, structural=False):
        self.name, self.ty, self.text, self.body, self.structural = name, ty, text, body, structural


class Bind:
    """match scrut with | .error e => .error e | .ok var => body   (scrut: text, or (node, type text) for a joined `if`)"""
    def __init__(self, scrut, var, body):
        self.scrut, self.var, self.body = scrut, var, body


class Ite:
    def __init__(self, cond, a, b):
        self.cond, self.a, self.b = cond, a, b


def atomise(t):
    return t if re.match(r"^[\w.']+$", t) or (t[0] in "(⟨[" and t[-1] in ")⟩]") else "(%s)" % t


def is_pure(n):
    if isinstance(n, Ret):
        return True
    if isinstance(n, Let):
        return is_pure(n.body)
    if isinstance(n, Ite):
        return is_pure(n.a) and is_pure(n.b)
    return False


def render_pure(n):
    if isinstance(n, Ret):
        return n.text
    if isinstance(n, Let):
        return "(let %s : %s := %s; %s)" % (n.name, n.ty, n.text, render_pure(n.body))
    if isinstance(n, Ite):
        return "(if %s then %s else %s)" % (n.cond, render_pure(n.a), render_pure(n.b))
    raise Shape("internal: not pure")


def simplify(n):
    """`let x := e; .ok x` is `.ok e`; `match e with … | .ok x => .ok x` is `e`"""
    if isinstance(n, Let) and isinstance(n.body, Ret) and n.body.text == n.name:
        return Ret(n.text)
    if isinstance(n, Bind) and isinstance(n.scrut, str) and isinstance(n.body, Ret) and n.body.text == n.var:
        return Raw(n.scrut)
    return n


class Arms:
    """match scrut with | pat_i => body_i"""
    def __init__(self, scrut, arms):
        self.scrut, self.arms = scrut, arms


def render(n, ind):
    """lines of a node in statement position"""
    if isinstance(n, Ret):
        return [ind + ".ok " + atomise(n.text)]
    if isinstance(n, Raw):
        return [ind + n.text]
    if isinstance(n, Fail):
        return [ind + ".error " + n.err]
    if isinstance(n, Let):
        return ["%slet %s : %s := %s" % (ind, n.name, n.ty, n.text)] + render(n.body, ind)
    if isinstance(n, Arms):
        out = ["%smatch %s with" % (ind, n.scrut)]
        for pat, body in n.arms:
            out += ["%s| %s =>" % (ind, pat)] + render(body, ind + ("  " if isinstance(body, Fail) else ""))
        return out
    if isinstance(n, Bind):
        if isinstance(n.scrut, str):
            head = ["%smatch %s with" % (ind, n.scrut)]
        else:
            inner = render(n.scrut[0], ind + "    ")
            inner[0] = "%smatch (%s" % (ind, inner[0].lstrip())
            inner[-1] += " : Except GhErr %s) with" % n.scrut[1]
            head = inner
        return head + ["%s| .error e => .error e" % ind, "%s| .ok %s =>" % (ind, n.var)] + render(n.body, ind)
    if isinstance(n, Ite):
        a, b = render(n.a, ind + "  "), render(n.b, ind + "  ")
        if len(b) == 1:
            return ["%sif %s then" % (ind, n.cond)] + a + ["%selse %s" % (ind, b[0].lstrip())]
        if isinstance(n.a, Fail):
            return ["%sif %s then" % (ind, n.cond)] + a + [ind + "else"] + render(n.b, ind)
        return ["%sif %s then" % (ind, n.cond)] + a + [ind + "else"] + b
    raise Shape("internal: node")


# ----------------------------------------------------------------------------- dead-store check on the GENERATED bindings
# `src_…_eq_ref` holds up to definitional unfolding, which absorbs a `let` that nothing reads: a store of the source that becomes
# such a `let` is refused (same check as py2lean_mgh.check_live, on this engine's nodes).

def node_reads(n, passthrough=True):
    if isinstance(n, Ret):
        return tokens(n.text)
    if isinstance(n, Raw):
        return set() if (n.passthrough and not passthrough) else tokens(n.text)
    if isinstance(n, Fail):
        return set()
    if isinstance(n, Let):
        return tokens(n.text) | node_reads(n.body, passthrough)
    if isinstance(n, Bind):
        head = tokens(n.scrut) if isinstance(n.scrut, str) else node_reads(n.scrut[0], passthrough)
        return head | node_reads(n.body, passthrough)
    if isinstance(n, Ite):
        return tokens(n.cond) | node_reads(n.a, passthrough) | node_reads(n.b, passthrough)
    if isinstance(n, Arms):
        out = tokens(n.scrut)
        for _, body in n.arms:
            out |= node_reads(body, passthrough)
        return out
    raise Shape("internal: node")


def check_live(n, where):
    """every `let` / bound result is read by what follows it (a Lean name is handed out once per definition: `Fn.fresh`)"""
    if isinstance(n, Let):
        if not n.structural and n.name not in node_reads(n.body):
            raise Shape("dead store: the value bound to `%s` in %s is never read by the translated code (a store that only "
                        "untranslated code could observe is outside the subset)" % (n.name, where))
        check_live(n.body, where)
    elif isinstance(n, Bind):
        if not isinstance(n.scrut, str):
            check_live(n.scrut[0], where)
        if n.var not in node_reads(n.body):
            raise Shape("dead store: the result bound to `%s` in %s is never read by the translated code" % (n.var, where))
        check_live(n.body, where)
    elif isinstance(n, Ite):
        check_live(n.a, where)
        check_live(n.b, where)
    elif isinstance(n, Arms):
        for _, body in n.arms:
            check_live(body, where)


# names the translation resolves BY SPELLING: binding one of them inside a translated function is outside the subset
SPELLED = {"len", "range", "next", "np", "sps", "warnings", "shortest_path", "connected_components", "estimate",
           "ValueError", "StopIteration"}


# ----------------------------------------------------------------------------- the table of library calls
# (template, handler(tr, bindings) -> ("pure", V) | ("raise", Lean text of type Except GhErr τ, type tag));  `_X` are holes

EXPR_IDIOMS = []
IDIOM_DOC = []


def idiom(pattern, lean, meaning=""):
    def deco(h):
        EXPR_IDIOMS.append((template(pattern), h))
        IDIOM_DOC.append((pattern, lean, meaning))
        return h
    return deco


@idiom("len(_A)", "A.length")
def _len(tr, b):
    a = tr.expr(b["_A"])
    if a.ty not in ("LC", "LN", "FM"):
        raise Shape("len of something that is not a sequence: %s" % ast.unparse(b["_A"]))
    return "pure", V("%s.length" % a.a(), "N", atom=False)


ZEROS = template("np.zeros((_A, _B))")         # the one expression that CREATES a float array (its target owns it)


@idiom("np.zeros((_A, _B))", "zeros2 A B zero", "a float array; `zero` is its `0.0`")
def _zeros(tr, b):
    x, y = tr.expr(b["_A"], "N"), tr.expr(b["_B"], "N")
    return "pure", V("zeros2 %s %s zero" % (x.a(), y.a()), "FM", atom=False)


@idiom("np.tril_indices(_N, -1)", "trilIndices N", "the pair of index arrays as the list of position pairs")
def _tril(tr, b):
    return "pure", V("trilIndices %s" % tr.expr(b["_N"], "N").a(), "IX", atom=False)


@idiom("_M.T[_I]", "gatherT M I", "a NEW array: `M[c, r]` for every `(r, c)` of the index arrays")
def _gather_t(tr, b):
    m, i = tr.expr(b["_M"], "FM"), tr.expr(b["_I"], "IX")
    return "raise", "gatherT %s %s" % (m.a(), i.a()), "LV"


@idiom("sps.issparse(_A)", "issparse A")
def _issparse(tr, b):
    return "pure", V("issparse %s" % tr.expr(b["_A"], "C").a(), "B", atom=False)


@idiom("np.ascontiguousarray(_A)", "ascontiguousarray A",
       "the SAME matrix of entries as a C-contiguous `ndarray`: nested lists become an array, an array of any memory layout "
       "(transposed, Fortran-ordered, fancy-indexed, strided, read-only) keeps its entries; memory layout is not modelled; the "
       "result MAY BE its argument -- no statement of the subset writes into a container, index assignment is accepted for an "
       "owned `np.zeros` array only")
def _ascontig(tr, b):
    return "pure", V("ascontiguousarray %s" % tr.expr(b["_A"], "C").a(), "C", atom=False)


@idiom("_A.tocsr()", "tocsr A", "`AttributeError` unless sparse")
def _tocsr(tr, b):
    return "raise", "tocsr %s" % tr.expr(b["_A"], "C").a(), "C"


@idiom("shortest_path(_A, directed=False, unweighted=True)", "shortest_path A", "PARAMETER (contract `CsgraphContract`)")
def _sp(tr, b):
    return "raise", "shortest_path %s" % tr.expr(b["_A"], "C").a(), "DM"


@idiom("connected_components(_A, directed=False)", "connected_components A", "PARAMETER (contract `CsgraphContract`)")
def _cc(tr, b):
    return "raise", "connected_components %s" % tr.expr(b["_A"], "C").a(), ("N", "LN")


@idiom("np.any(np.isinf(_D))", "hasInf D", "helper of Model/Graph.lean")
def _hasinf(tr, b):
    return "pure", V("hasInf %s" % tr.expr(b["_D"], "DM").a(), "B", atom=False)


@idiom("np.unique(_L, return_counts=True)", "uniqueCountsNat L", "sorted distinct values, and their counts")
def _unique(tr, b):
    return "pure", V("uniqueCountsNat %s" % tr.expr(b["_L"], "LN").a(), ("LN", "LN"), atom=False)


@idiom("np.argmax(_L)", "argmaxFirst L", "helper of Model/Graph.lean: index of the FIRST maximum")
def _argmax(tr, b):
    return "pure", V("argmaxFirst %s" % tr.expr(b["_L"], "LN").a(), "N", atom=False)


@idiom("_D[_M][:, _M]", "sub none (maskIdx M) D", "rows and columns selected by a Boolean mask; `sub` of Model/Graph.lean")
def _submask(tr, b):
    d, m = tr.expr(b["_D"], "DM"), tr.expr(b["_M"], "LB")
    return "pure", V("sub none (PersimVerif.SrcLib.maskIdx %s) %s" % (m.a(), d.a()), "DM", atom=False)


@idiom("np.max(_D)", "npMaxTop D", "`ValueError` for an array without entries; `none` = `inf`")
def _npmax(tr, b):
    return "raise", "npMaxTop %s" % tr.expr(b["_D"], "DM").a(), "ON"


@idiom("_D.astype(_T)", "astypeInt D T", "float -> integer dtype; an `inf` entry is flagged")
def _astype(tr, b):
    d, t = tr.expr(b["_D"], "DM"), tr.expr(b["_T"], "IT")
    return "raise", "astypeInt %s %s" % (d.a(), t.a()), "IA"


INT_TYPES = {"np.int8": "IntType.i8", "np.int16": "IntType.i16", "np.int32": "IntType.i32", "np.int64": "IntType.i64"}


# ----------------------------------------------------------------------------- the translator of one function body

def assigned_names(stmts, rng_calls):
    """names (re)assigned by a statement list, in order of first assignment; `__rng` when it calls a function that draws"""
    out = []

    def add(n):
        if n not in out:
            out.append(n)

    def tgt(t):
        if isinstance(t, ast.Name):
            if t.id != "_":
                add(t.id)
        elif isinstance(t, (ast.Tuple, ast.List)):
            for e in t.elts:
                tgt(e)
        elif isinstance(t, ast.Subscript):
            tgt(t.value)
        else:
            raise Shape("assignment target: %s" % ast.unparse(t))

    def visit(ss):
        for s in ss:
            if isinstance(s, ast.Assign):
                for call in [c for c in ast.walk(s.value) if isinstance(c, ast.Call)]:
                    if dotted(call.func) in rng_calls:
                        add("__rng")
                for t in s.targets:
                    tgt(t)
            elif isinstance(s, ast.AugAssign):
                tgt(s.target)
            elif isinstance(s, ast.If):
                visit(s.body)
                visit(s.orelse)
            elif isinstance(s, ast.For):
                tgt(s.target)
                visit(s.body)
            elif isinstance(s, ast.Expr) and isinstance(s.value, ast.Call) and dotted(s.value.func) == "warnings.warn":
                add("__warned")
            elif isinstance(s, ast.Expr):
                for call in [c for c in ast.walk(s.value) if isinstance(c, ast.Call)]:
                    if dotted(call.func) in rng_calls:
                        add("__rng")
            elif isinstance(s, (ast.Return, ast.Raise, ast.Pass)):
                pass
            elif isinstance(s, ast.Try):
                visit(s.body)
                for h in s.handlers:
                    visit(h.body)
                visit(s.orelse)
            else:
                raise Shape("statement: %s" % type(s).__name__)
    visit(stmts)
    return out


def terminates(stmts):
    """does every path through the statement list end in `return` / `raise`"""
    if not stmts:
        return False
    s = stmts[-1]
    if isinstance(s, (ast.Return, ast.Raise)):
        return True
    if isinstance(s, ast.If):
        return terminates(s.body) and terminates(s.orelse)
    return False


class Fn:
    """translation of one Python function (one call form of it): `cfg` its table entry, `unit` the file"""

    def __init__(self, unit, cfg, form=None):
        self.unit, self.cfg, self.form = unit, cfg, form
        self.env = {}                 # python name -> (lean name, type tag)   (insertion order = order of definition)
        self.count = {}               # lean base name -> next SSA index
        self.loops = []               # texts of the loop definitions, in order of appearance
        self.nloops = 0
        self.warnings = []            # `warnings.warn(...)` calls and `raise` statements, as written
        self.consts = dict((form or {}).get("consts", {}))
        self.taken = set()            # the Lean names of this definition (handed out once)
        self.owned = set()            # python names bound to a float array that this function created and no other name refers to

    # --- names
    def reserve(self, lean):
        if lean in self.taken:
            raise Shape("the name `%s` would be bound twice in one generated definition" % lean)
        self.taken.add(lean)
        self.count[lean] = max(self.count.get(lean, 0), 1)

    def fresh(self, base, py=False):
        """`base`, `base_1`, …: never a name this definition already has, never (for a temporary or an SSA version `x_k`) a
        name that occurs as an identifier anywhere in the Python function (no capture of a local literally called `lbs_1`, `t_1`);
        `py`: `base` is itself the Python name being bound"""
        while True:
            k = self.count.get(base, 0)
            self.count[base] = k + 1
            name = base if k == 0 else "%s_%d" % (base, k)
            if name in self.taken or (name in self.unit.pyidents and not (py and k == 0)):
                continue
            self.taken.add(name)
            return name

    def define(self, py, ty, base=None):
        hidden = {"__rng": "s", "__warned": "warned"}
        if not py.startswith("__"):
            if py in self.unit.spelled:
                raise Shape("`%s` is bound inside the function, but the translation resolves that name by spelling" % py)
            if py in self.cfg.get("opaque_params", []):
                raise Shape("`%s` is a parameter that is not modelled (it must reach `estimate` unchanged): it is re-bound" % py)
        lean = self.fresh(base or hidden.get(py, py), py=base is None and py not in hidden)
        self.env[py] = (lean, ty)
        return lean

    def cur(self, py):
        if py not in self.env:
            raise Shape("name `%s` is read before it is assigned (or is not a local of the translated subset)" % py)
        return V(self.env[py][0], self.env[py][1])

    # --- expressions: `pre` collects the binds that must precede the statement (Python's evaluation order)
    def expr(self, node, want=None):
        v = self.expr0(node)
        if want is not None and v.ty != want:
            raise Shape("`%s` has type %s where %s is needed" % (ast.unparse(node), lty(v.ty), lty(want)))
        return v

    def bind(self, text, ty, base="t"):
        """a raising expression: bound to a fresh name where the statement stands"""
        name = self.fresh(base)
        self.pre.append(("bind", text, name))
        return V(name, ty)

    def expr0(self, node):
        if isinstance(node, ast.Name):
            if node.id in INT_TYPES:
                return V(INT_TYPES[node.id], "IT")
            return self.cur(node.id)
        if dotted(node) in INT_TYPES:
            return V(INT_TYPES[dotted(node)], "IT")
        if isinstance(node, ast.Constant) and type(node.value) is int and node.value >= 0:
            return V(str(node.value), "N")
        for tpl, h in EXPR_IDIOMS:
            b = {}
            if tmatch(tpl, node, b):
                r = h(self, b)
                if r[0] == "pure":
                    return r[1]
                return self.bind(r[1], r[2])
        if isinstance(node, ast.Call):
            return self.call(node)
        if isinstance(node, ast.BinOp) and isinstance(node.op, ast.Add):
            a, b = self.expr(node.left, "N"), self.expr(node.right, "N")
            return V("%s + %s" % (a.a(), b.a()), "N", atom=False)
        if isinstance(node, ast.Compare) and len(node.ops) == 1:
            return self.compare(node)
        if isinstance(node, ast.UnaryOp) and isinstance(node.op, ast.Not):
            a = self.expr(node.operand, "B")
            return V("!(%s)" % a.t, "B", atom=False)
        if isinstance(node, ast.BoolOp) and isinstance(node.op, ast.And):
            vs = [self.expr(x, "B") for x in node.values]
            return V(" && ".join(v.a() if " " in v.t and not v.t.startswith("!(") else v.t for v in vs), "B", atom=False)
        if isinstance(node, ast.Tuple) and all(isinstance(e, ast.Name) for e in node.elts):
            vs = [self.expr(e) for e in node.elts]
            if vs and all(v.ty == "C" for v in vs):                  # `(AG, AH)`: a sequence of containers
                return V("[%s]" % ", ".join(v.t for v in vs), "LC", atom=True)
        if isinstance(node, ast.Subscript):
            return self.subscript(node)
        raise Shape("expression outside the subset: %s" % ast.unparse(node))

    def compare(self, node):
        op, l, r = node.ops[0], node.left, node.comparators[0]
        if isinstance(op, ast.Lt):
            a, b = self.expr(l, "N"), self.expr(r, "N")
            return V("decide (%s < %s)" % (a.t, b.t), "B", atom=False)
        if isinstance(op, ast.LtE):
            a, b = self.expr(l), self.expr(r)
            if a.ty == "ON" and b.ty == "N":                        # a float that may be `inf` against an integer
                return V("PersimVerif.SrcNp.leTop %s %s" % (a.a(), b.a()), "B", atom=False)
            raise Shape("`<=` outside `float <= integer`: %s" % ast.unparse(node))
        if isinstance(op, ast.Eq):
            a, b = self.expr(l), self.expr(r)
            if a.ty == "LN" and b.ty == "N":                        # array == scalar: the Boolean mask
                return V("eqMask %s %s" % (a.a(), b.a()), "LB", atom=False)
            raise Shape("`==` outside `integer array == integer`: %s" % ast.unparse(node))
        raise Shape("comparison: %s" % ast.unparse(node))

    def subscript(self, node):
        sl = node.slice
        if isinstance(sl, ast.Tuple) and len(sl.elts) == 2:         # M[i, j]
            m = self.expr(node.value, "FM")
            i, j = self.expr(sl.elts[0], "N"), self.expr(sl.elts[1], "N")
            return self.bind("getItem2 %s %s %s" % (m.a(), i.a(), j.a()), "V")
        if isinstance(sl, (ast.Slice, ast.Tuple)):
            raise Shape("subscript: %s" % ast.unparse(node))
        l = self.expr(node.value)
        k = self.expr(sl, "N")
        if l.ty == "LC":
            return self.bind("getItem %s %s" % (l.a(), k.a()), "C")
        if l.ty == "LN":
            return self.bind("getItem %s %s" % (l.a(), k.a()), "N")
        raise Shape("subscript of %s: %s" % (lty(l.ty), ast.unparse(node)))

    def call(self, node):
        f = dotted(node.func)
        callee = self.unit.cfgs.get(f)
        if callee is not None and f != self.cfg["func"]:
            return self.call_generated(node, callee)
        if f == "estimate":
            return self.call_estimate(node)
        raise Shape("call outside the subset: %s" % ast.unparse(node))

    def call_generated(self, node, callee):
        if node.keywords or len(node.args) != len(callee["params"]):
            raise Shape("call of %s: %s" % (callee["func"], ast.unparse(node)))
        args = [self.expr(a, ty) for a, (_, ty) in zip(node.args, callee["params"])]
        lead = "shortest_path connected_components " if callee.get("csgraph") else ""
        return self.bind("%s %s%s" % (callee["lean"], lead, " ".join(a.a() for a in args)), callee["ret"])

    def call_estimate(self, node):
        """`estimate(DX, DY, mapping_sample_size_order=mapping_sample_size_order)`: the parameter `estimate`, the generator
        state in and out; the third argument must be the caller's own parameter of that name (bound against the `def` of
        `estimate`, whose signature is pinned in Generated/SrcMGH.lean)"""
        fn = self.unit.fns.get("estimate")
        if fn is None:
            raise Shape("`estimate` is not a function of the module")
        names = [a.arg for a in fn.args.args]
        if names != ["DX", "DY", "mapping_sample_size_order"] or fn.args.vararg or fn.args.kwarg or fn.args.kwonlyargs:
            raise Shape("parameters of `estimate`: %s" % names)
        got = {}
        for n, a in zip(names, node.args):
            got[n] = a
        for kw in node.keywords:
            if kw.arg is None or kw.arg in got or kw.arg not in names:
                raise Shape("call of estimate: %s" % ast.unparse(node))
            got[kw.arg] = kw.value
        if len(node.args) > 3 or set(got) != set(names):
            raise Shape("call of estimate (every parameter must be passed; the default of `mapping_sample_size_order` would "
                        "ignore the caller's): %s" % ast.unparse(node))
        mo = got["mapping_sample_size_order"]
        if not (isinstance(mo, ast.Name) and mo.id == "mapping_sample_size_order" and "mapping_sample_size_order" in self.cfg.get("opaque_params", [])):
            raise Shape("`mapping_sample_size_order` of estimate is not the caller's parameter: %s" % ast.unparse(node))
        dx, dy = self.expr(got["DX"], "DR"), self.expr(got["DY"], "DR")
        s = self.cur("__rng")
        t = self.bind("estimate %s %s.dist %s.dist" % (s.t, dx.a(), dy.a()), (("V", "V"), "ST"))
        s1 = self.define("__rng", "ST")
        self.pre.append(("let", s1, "ST", "%s.2" % t.t))
        return V("%s.1" % t.t, ("V", "V"))

    # --- statements
    def wrap(self, pre, node):
        for p in reversed(pre):
            if p[0] == "bind":
                node = simplify(Bind(p[1], p[2], node))
            else:
                node = simplify(Let(p[1], lty(p[2]), p[3], node))
        return node

    def block(self, stmts, cont):
        """node of a statement list; `cont()` gives the node of what follows a fall-through"""
        if not stmts:
            return cont()
        s, rest = stmts[0], stmts[1:]
        go = lambda: self.block(rest, cont)    # noqa: E731
        self.pre = []
        if isinstance(s, ast.Pass):
            return go()
        if isinstance(s, ast.Assign) and len(s.targets) == 1:
            return self.assign(s, go)
        if isinstance(s, ast.If):
            return self.if_(s, rest, cont)
        if isinstance(s, ast.For):
            return self.for_(s, go)
        if isinstance(s, ast.Raise):
            return self.raise_(s)
        if isinstance(s, ast.Return):
            return self.return_(s)
        if isinstance(s, ast.Expr) and isinstance(s.value, ast.Call) and dotted(s.value.func) == "warnings.warn":
            self.warnings.append(ast.unparse(s.value))
            w = self.define("__warned", "B")
            return Let(w, "Bool", "true", go())
        if isinstance(s, ast.Try):
            return self.try_next(s, go)
        raise Shape("statement outside the subset: %s" % ast.unparse(s).split("\n")[0])

    def raise_(self, s):
        e = s.exc
        if not (isinstance(e, ast.Call) and isinstance(e.func, ast.Name) and e.func.id == "ValueError" and s.cause is None):
            raise Shape("raise outside `raise ValueError(...)`: %s" % ast.unparse(s))
        self.warnings.append(ast.unparse(s))
        kind = self.cfg.get("raises")
        if kind is None:
            raise Shape("the table gives no error kind for a raise in %s" % self.cfg["func"])
        return Fail("(GhErr.value Err.%s)" % kind)

    def assign(self, s, go):
        tgt, val = s.targets[0], s.value
        # --- an index assignment `M[idx] = vals` / a tuple of element assignments `a[i, j], b[i, j] = e`
        if isinstance(tgt, ast.Subscript):
            v = self.expr(val)
            pre = self.pre
            self.pre = []
            self.store(tgt, v)
            return self.wrap(pre + self.pre, go())
        if isinstance(tgt, ast.Tuple) and all(isinstance(e, ast.Subscript) for e in tgt.elts):
            v = self.expr(val)
            if not isinstance(v.ty, tuple) or len(v.ty) != len(tgt.elts):
                raise Shape("tuple assignment: %s" % ast.unparse(s))
            pre = self.pre
            self.pre = []
            for k, e in enumerate(tgt.elts):
                self.store(e, V("%s.%d" % (v.a(), k + 1), v.ty[k]))
            return self.wrap(pre + self.pre, go())
        # --- a generator expression over the integer types (consumed by `next` in the `try` that follows)
        if isinstance(tgt, ast.Name) and isinstance(val, ast.GeneratorExp):
            name = self.define(tgt.id, "LIT")
            return Let(name, "List IntType", self.genexp(val), go())
        if isinstance(tgt, ast.Name):
            v = self.expr(val)
            pre = self.pre
            if pre and pre[-1][0] == "bind" and pre[-1][2] == v.t and v.atom:
                # the value IS the result of the last raising call: bind it under the target's own name
                m = re.match(r"^t(?:_(\d+))?$", v.t)
                if m and self.count.get("t", 0) == int(m.group(1) or 0) + 1:
                    self.count["t"] -= 1
                    self.taken.discard(v.t)
                self.note_binding(tgt.id, val, v)
                name = self.define(tgt.id, v.ty)
                pre[-1] = ("bind", pre[-1][1], name)
                return self.wrap(pre, go())
            self.note_binding(tgt.id, val, v)
            name = self.define(tgt.id, v.ty)
            return self.wrap(pre, simplify(Let(name, lty(v.ty), v.t, go())))
        if isinstance(tgt, ast.Tuple) and all(isinstance(e, ast.Name) for e in tgt.elts):
            v = self.expr(val)
            if not isinstance(v.ty, tuple) or len(v.ty) != len(tgt.elts):
                raise Shape("tuple assignment: %s" % ast.unparse(s))
            pre = self.pre
            lets = []
            if not v.atom:
                t = self.fresh("t")
                lets.append((t, v.ty, v.t))
                v = V(t, v.ty)
            for k, e in enumerate(tgt.elts):
                if e.id == "_":
                    continue
                if v.ty[k] == "FM":
                    raise Shape("a float array bound through a tuple: %s" % ast.unparse(s))
                self.owned.discard(e.id)
                lets.append((self.define(e.id, v.ty[k]), v.ty[k], "%s.%d" % (v.t, k + 1)))
            node = go()
            for n, ty, tx in reversed(lets):
                node = Let(n, lty(ty), tx, node)
            return self.wrap(pre, node)
        raise Shape("assignment: %s" % ast.unparse(s))

    def note_binding(self, py, value_node, v):
        """ownership of float arrays (the values this engine updates in place): `y = np.zeros(…)` makes `y` the only name of a new
        array; `y = x` for an array `x` would make two names for ONE object, which the translation of `M[…] = …` as a new value
        of the one name `M` cannot express"""
        if v.ty == "FM":
            if tmatch(ZEROS, value_node, {}):
                self.owned.add(py)
                return
            raise Shape("`%s = %s`: a second name for a float array (aliasing is not modelled; `M[…] = …` is translated as a new "
                        "value of the ONE name `M`)" % (py, ast.unparse(value_node)))
        self.owned.discard(py)

    def store(self, tgt, v):
        """`M[i, j] = v` / `M[idx] = vals`: the ONE name `M` gets a new value (an array created in this function by `np.zeros`)"""
        if not isinstance(tgt.value, ast.Name):
            raise Shape("index assignment into something that is not a local array: %s" % ast.unparse(tgt))
        m = self.cur(tgt.value.id)
        if m.ty != "FM":
            raise Shape("index assignment into %s" % lty(m.ty))
        if tgt.value.id not in self.owned:
            raise Shape("index assignment into `%s`, which is not an array created in this function by np.zeros that no other name "
                        "refers to" % tgt.value.id)
        sl = tgt.slice
        if isinstance(sl, ast.Tuple) and len(sl.elts) == 2:
            i, j = self.expr(sl.elts[0], "N"), self.expr(sl.elts[1], "N")
            if v.ty != "V":
                raise Shape("element assignment of %s" % lty(v.ty))
            text = "setItem2 %s %s %s %s" % (m.a(), i.a(), j.a(), v.a())
        else:
            ix = self.expr(sl)
            if ix.ty != "IX" or v.ty != "LV":
                raise Shape("index assignment: %s" % ast.unparse(tgt))
            text = "scatterIdx %s %s %s" % (m.a(), ix.a(), v.a())
        name = self.define(tgt.value.id, "FM")
        self.pre.append(("bind", text, name))

    def genexp(self, g):
        """(t for t in [np.int8, …] if value <= np.iinfo(t).max)"""
        if len(g.generators) != 1 or g.generators[0].is_async or len(g.generators[0].ifs) != 1:
            raise Shape("generator expression: %s" % ast.unparse(g))
        c = g.generators[0]
        if not (isinstance(c.target, ast.Name) and isinstance(g.elt, ast.Name) and g.elt.id == c.target.id
                and isinstance(c.iter, (ast.List, ast.Tuple))):
            raise Shape("generator expression: %s" % ast.unparse(g))
        items = [self.expr(e, "IT").t for e in c.iter.elts]
        var = c.target.id
        if var in self.taken or var in self.unit.spelled or var in self.env:
            raise Shape("the variable of the generator expression re-uses a name: %s" % var)
        saved = dict(self.env)
        self.env[var] = (var, "IT")
        cond = c.ifs[0]
        b = {}
        if not tmatch(template("_V <= np.iinfo(_T).max"), cond, b) or not (isinstance(b["_T"], ast.Name) and b["_T"].id == var):
            raise Shape("filter of the generator expression: %s" % ast.unparse(cond))
        val = self.expr(b["_V"])
        if val.ty != "ON":
            raise Shape("the filtered value is not a float: %s" % ast.unparse(b["_V"]))
        self.env = saved
        return "[%s].filter (fun %s => PersimVerif.SrcNp.leTop %s (IntType.max %s))" % (", ".join(items), var, val.a(), var)

    def try_next(self, s, go):
        """try: x = next(g) / except StopIteration: raise ValueError(...)"""
        ok = (len(s.body) == 1 and isinstance(s.body[0], ast.Assign) and len(s.body[0].targets) == 1
              and isinstance(s.body[0].targets[0], ast.Name) and len(s.handlers) == 1 and not s.orelse and not s.finalbody
              and isinstance(s.handlers[0].type, ast.Name) and s.handlers[0].type.id == "StopIteration" and s.handlers[0].name is None
              and len(s.handlers[0].body) == 1 and isinstance(s.handlers[0].body[0], ast.Raise))
        b = {}
        if not ok or not tmatch(template("next(_G)"), s.body[0].value, b) or not isinstance(b["_G"], ast.Name):
            raise Shape("try statement outside `try: x = next(g) / except StopIteration: raise ValueError(...)`")
        g = self.cur(b["_G"].id)
        if g.ty != "LIT":
            raise Shape("next of something that is not the generator")
        fail = self.raise_(s.handlers[0].body[0])
        name = self.define(s.body[0].targets[0].id, "IT")
        # a generator variable is the list of what it will yield; it is not used again (checked: `next` only here)
        return Arms("%s.head?" % g.t, [("none", fail), ("some %s" % name, go())])

    def cond_text(self, test):
        """an `if` test as a Lean condition (a Bool coerces), or a constant of this call form"""
        # `P is None` / `P is not None` for a parameter `P` that this call form fixes (and that is never re-assigned)
        if (isinstance(test, ast.Compare) and len(test.ops) == 1 and isinstance(test.ops[0], (ast.Is, ast.IsNot))
                and isinstance(test.left, ast.Name) and isinstance(test.comparators[0], ast.Constant)
                and test.comparators[0].value is None and test.left.id in self.consts):
            if test.left.id in self.unit.assigned_in.get(self.cfg["func"], ()):
                raise Shape("`%s` is re-assigned: `%s` is not a constant of the call form" % (test.left.id, ast.unparse(test)))
            return self.consts[test.left.id] == isinstance(test.ops[0], ast.Is)
        key = ast.unparse(test)
        v = self.expr(test, "B")
        if self.pre:
            raise Shape("a test that can raise: %s" % key)
        m = re.match(r"^decide \((.*)\)$", v.t)
        return m.group(1) if m else v.t

    def if_(self, s, rest, cont):
        c = self.cond_text(s.test)
        if c is True or c is False:                      # the test is a constant of this call form
            return self.block((s.body if c else s.orelse) + rest, cont)
        ta, tb = terminates(s.body), terminates(s.orelse)
        if ta or tb:                                      # an arm that ends the definition: the other one continues
            env0, owned0 = dict(self.env), set(self.owned)
            a = self.block(s.body + ([] if ta else rest), cont)
            env_a, owned_a = self.env, self.owned
            self.env, self.owned = dict(env0), set(owned0)
            b = self.block(s.orelse + ([] if tb else rest), cont)
            if not ta:
                self.env, self.owned = env_a, owned_a
            return Ite(c, a, b)
        # the names an arm assigns that exist before the `if` (the others are local to the arm: a later read of them is an error)
        names = [n for n in assigned_names(s.body + s.orelse, self.unit.rng_calls) if n in self.env]
        names = [n for n in names if not n.startswith("__")] + [n for n in names if n.startswith("__")]
        env0 = dict(self.env)

        owned0, owned_after = set(self.owned), []

        def arm(stmts):
            self.env = dict(env0)
            self.owned = set(owned0)
            node = self.block(stmts, lambda: Ret(self.tuple_text([self.cur(n) for n in names])))
            tys = [self.env[n][1] for n in names]
            owned_after.append(set(self.owned))
            return node, tys
        a, tya = arm(s.body)
        b, tyb = arm(s.orelse)
        self.owned = owned_after[0] & owned_after[1]
        if [lty(t) for t in tya] != [lty(t) for t in tyb]:
            raise Shape("the arms of an `if` give different types to %s" % names)
        self.env = dict(env0)
        jty = tya[0] if len(names) == 1 else tuple(tya)
        join = Ite(c, a, b)
        single = len(names) == 1
        jname = self.define(names[0], tya[0]) if single else self.fresh("j")
        lets = []
        if not single:
            for k, n in enumerate(names):
                lets.append((self.define(n, tya[k]), tya[k], "%s.%d" % (jname, k + 1)))
        node = self.block(rest, cont)
        for n, ty, tx in reversed(lets):
            node = Let(n, lty(ty), tx, node)
        if is_pure(join):
            return Let(jname, lty(jty), render_pure(join)[1:-1], node)
        return Bind((join, lty(jty, True)), jname, node)

    def tuple_text(self, vs):
        return vs[0].t if len(vs) == 1 else "(%s)" % ", ".join(v.t for v in vs)

    def for_(self, s, go):
        """for x in range(…): a structural recursion over the list of indices"""
        if s.orelse or not isinstance(s.target, ast.Name):
            raise Shape("for statement: %s" % ast.unparse(s).split("\n")[0])
        b = {}
        if tmatch(template("range(_A, _B)"), s.iter, b):
            lst = "pyRange %s %s" % (self.expr(b["_A"], "N").a(), self.expr(b["_B"], "N").a())
        elif tmatch(template("range(_B)"), s.iter, b):
            lst = "List.range %s" % self.expr(b["_B"], "N").a()
        else:
            raise Shape("for over something that is not a range: %s" % ast.unparse(s.iter))
        if self.pre:
            raise Shape("a range that can raise")
        self.nloops += 1
        lname = "%s_loop%s" % (self.cfg["lean"], "" if self.nloops == 1 else "_%d" % self.nloops)
        carried = [n for n in self.env if n in assigned_names(s.body, self.unit.rng_calls)]
        carried = [n for n in carried if not n.startswith("__")] + [n for n in carried if n.startswith("__")]
        var = s.target.id
        used = {n.id for st in s.body for n in ast.walk(st) if isinstance(n, ast.Name)} | {"__rng"}
        closure = [n for n in self.env if n not in carried and n != var and n in used and not n.startswith("__")]
        lead = self.lead_params()
        # --- the loop definition: translated in a copy of this translator's state
        if var in self.unit.spelled or var in self.cfg.get("opaque_params", []) or var in self.consts:
            raise Shape("the loop variable re-uses the name `%s`" % var)
        sub = Fn(self.unit, self.cfg, self.form)
        sub.consts, sub.nloops, sub.loops, sub.warnings = self.consts, self.nloops, self.loops, self.warnings
        for n, _ in self.cfg.get("lead", []):
            sub.reserve(n)
        sub.reserve("rest")
        for n in closure:
            sub.env[n] = (self.env[n][0], self.env[n][1])
            sub.reserve(self.env[n][0])
        for n in carried:
            sub.define(n, self.env[n][1])
        sub.env[var] = (var, "N")
        sub.reserve(var)
        sub.owned = {n for n in carried if n in self.owned}       # an array the body updates stays the one name's own
        heads = [sub.env[n][0] for n in carried]
        closure_args = " ".join(self.env[n][0] for n in closure)
        closure_params = " ".join("(%s : %s)" % (self.env[n][0], lty(self.env[n][1])) for n in closure)

        def again():
            return Raw(" ".join(x for x in [lname, lead[1], " ".join(sub_closure), "rest"] + [sub.env[n][0] for n in carried] if x),
                       passthrough=True)
        sub_closure = [sub.env[n][0] for n in closure]
        body = sub.block(list(s.body), again)
        self.nloops = sub.nloops
        check_live(body, "the loop `%s`" % lname)
        live = node_reads(body, passthrough=False)
        in_loop = {n: h in live for n, h in zip(carried, heads)}      # read by the loop itself, not just handed on
        self.owned -= {n for n in carried if n not in sub.owned}
        cty = " × ".join(lty(self.env[n][1], True) for n in carried)
        text = ["def %s %s : List Nat → %s → Except GhErr (%s)" % (
            lname, " ".join(x for x in [lead[0], closure_params] if x), " → ".join(lty(self.env[n][1], True) for n in carried), cty)]
        text.append("  | [], %s => .ok (%s)" % (", ".join(heads), ", ".join(heads)))
        text.append("  | %s :: rest, %s =>" % (var, ", ".join(heads)))
        text += render(body, "    ")
        self.loops.append("\n".join(text))
        # --- the call
        r = self.fresh("r")
        call = " ".join(x for x in [lname, lead[1], closure_args, atomise(lst)] + [self.env[n][0] for n in carried] if x)
        lets = []
        for k, n in enumerate(carried):
            proj = r + ".2" * k + (".1" if k < len(carried) - 1 else "")
            if len(carried) == 1:
                proj = r
            lets.append((self.define(n, self.env[n][1]), self.env[n][1], proj, in_loop[n]))
        node = go()
        for n, ty, tx, st in reversed(lets):
            node = Let(n, lty(ty), tx, node, structural=st)
        return Bind(call, r, node)

    def lead_params(self):
        """(binder text, argument text) of the function-level parameters every definition of this function takes"""
        ps = self.cfg.get("lead", [])
        return (" ".join("(%s : %s)" % (n, t) for n, t in ps), " ".join(n for n, _ in ps))

    def return_(self, s):
        spec = (self.form or {}).get("ret") or self.cfg.get("ret_spec")
        if s.value is None:
            raise Shape("bare return")
        if spec is None:                                   # an ordinary value
            v = self.expr(s.value, self.cfg["ret"])
            return self.wrap(self.pre, Ret(v.t))
        kind = spec[0]
        if kind == "record":                               # an integer array together with the warning flag
            v = self.expr(s.value, "IA")
            w = self.cur("__warned")
            return self.wrap(self.pre, Ret("⟨%s.1, %s, %s.2⟩" % (v.a(), w.t, v.a())))
        if kind == "result":                               # the pair of bounds / of matrices, and the generator state
            _, ctor, ty = spec
            if not (isinstance(s.value, ast.Tuple) and len(s.value.elts) == 2):
                raise Shape("return of gromov_hausdorff: %s" % ast.unparse(s))
            a = self.expr(s.value.elts[0], ty)
            b = self.expr(s.value.elts[1], ty)
            return self.wrap(self.pre, Ret("(%s %s %s, %s)" % (ctor, a.a(), b.a(), self.cur("__rng").t)))
        raise Shape("internal: return spec")


# ----------------------------------------------------------------------------- the file

KEY = "ghentry"
PYFILE = "persim/gromov_hausdorff.py"
FILES = {KEY: (PYFILE, "SrcGHEntry.lean", "PersimVerif.Src.gromov_hausdorff_entry",
               "PersimVerif.Model.Graph\nimport PersimVerif.Lemmas.SrcBridgeGHEntry", "C17",
               "PersimVerif.Graph PersimVerif.SrcGH PersimVerif.SrcBridge.GHEntry")}
BRIDGES = ["PersimVerif/Lemmas/SrcLibGH.lean", "PersimVerif/Lemmas/SrcBridgeGHEntry.lean"]
COMPOSED = ["PersimVerif/Lemmas/SrcGHEntryPublic.lean"]       # hand-written, imports the generated file (and SrcMGH)

from .py2lean_ghentry_proofs import OBLIGATIONS, EXAMPLES  # noqa: E402   (statements and proof scripts, per target)

CSG = [("shortest_path", "Container → Except GhErr DMat"), ("connected_components", "Container → Except GhErr (Nat × List Nat)")]
EST = ("estimate", "σ → Mat → Mat → Except GhErr ((β × β) × σ)")

TARGETS = [
    dict(func="determine_optimal_int_type", lean="determine_optimal_int_type", params=[("value", "ON")], ret="IT",
         raises="tooLarge", variables=""),
    dict(func="cast_distance_matrix_to_optimal_int_type", lean="cast_distance_matrix_to_optimal_int_type",
         params=[("DX", "DM")], ret="IA", variables=""),
    dict(func="make_distance_matrix_from_adjacency_matrix", lean="make_distance_matrix_from_adjacency_matrix",
         params=[("AG", "C")], ret="DR", ret_spec=("record",), lead=CSG, csgraph=True, hidden=[("__warned", "B", "false")], variables=""),
    dict(func="gromov_hausdorff", lean="gromov_hausdorff", ret=("R", "ST"), lead=CSG + [EST], raises="tooFewGraphs",
         opaque_params=["mapping_sample_size_order"], variables="variable {σ β : Type}",
         tail_params="(zero : β) (args : GHArgs) (s : σ)",
         forms=[dict(name="coll", pat=".coll AG", params=[("AG", "LC")], consts={"AH": True},
                     ret=("result", "Result.mats", "FM")),
                dict(name="pair", pat=".pair AG AH", params=[("AG", "C"), ("AH", "C")], consts={"AH": False},
                     ret=("result", "Result.pair", "V"))]),
]
for _c in TARGETS:
    _c["obligations"] = OBLIGATIONS.get(_c["func"], [])
    _c["examples"] = EXAMPLES.get(_c["func"], [])
    _c["file"] = KEY

BINDINGS = {KEY: [
    ('DEFAULT_MAPPING_SAMPLE_SIZE_ORDER', 'assign: DEFAULT_MAPPING_SAMPLE_SIZE_ORDER = np.array([0.5, 1])'),
    ('StopIteration', 'builtin'),
    ('ValueError', 'builtin'),
    ('cast_distance_matrix_to_optimal_int_type', 'def cast_distance_matrix_to_optimal_int_type'),
    ('connected_components', 'from scipy.sparse.csgraph import connected_components'),
    ('determine_optimal_int_type', 'def determine_optimal_int_type'),
    ('estimate', 'def estimate'),
    ('gromov_hausdorff', 'def gromov_hausdorff'),
    ('len', 'builtin'),
    ('make_distance_matrix_from_adjacency_matrix', 'def make_distance_matrix_from_adjacency_matrix'),
    ('next', 'builtin'),
    ('np', 'import numpy as np'),
    ('range', 'builtin'),
    ('shortest_path', 'from scipy.sparse.csgraph import shortest_path'),
    ('sps', 'import scipy.sparse as sps'),
    ('warnings', 'import warnings'),
]}
SIGNATURES = {
    'determine_optimal_int_type': 'def determine_optimal_int_type(value)',
    'cast_distance_matrix_to_optimal_int_type': 'def cast_distance_matrix_to_optimal_int_type(DX)',
    'make_distance_matrix_from_adjacency_matrix': 'def make_distance_matrix_from_adjacency_matrix(AG)',
    'gromov_hausdorff': 'def gromov_hausdorff(AG, AH=None, mapping_sample_size_order=DEFAULT_MAPPING_SAMPLE_SIZE_ORDER)',
}
WARNINGS = {
    'determine_optimal_int_type': ["raise ValueError('value {} too large to be stored as unsigned integer')"],
    'make_distance_matrix_from_adjacency_matrix': ["warnings.warn('disconnected graph is approximated by its largest connected component')"],
    'gromov_hausdorff': ["raise ValueError(\"'estimate_between_unweighted_graphs' needs at least2 graphs to discriminate\")"],
}


class Unit:
    def __init__(self, src, tree):
        self.src, self.tree = src, tree
        self.fns = {n.name: n for n in tree.body if isinstance(n, ast.FunctionDef)}
        self.cfgs = {c["func"]: c for c in TARGETS}
        self.rng_calls = {"estimate"}
        self.pyidents, self.spelled = set(), set()
        # per function: the names it (re)assigns anywhere (a parameter among them is not a constant of a call form)
        self.assigned_in = {}
        for name, fn in self.fns.items():
            try:
                self.assigned_in[name] = set(assigned_names(strip_doc(fn.body), set()))
            except Shape:
                self.assigned_in[name] = {a.arg for a in fn.args.args}

    def check_params(self, cfg, fn):
        a = fn.args
        if a.vararg or a.kwarg or a.kwonlyargs or a.posonlyargs:
            raise Shape("parameters of %s" % fn.name)
        return [x.arg for x in a.args]

    def translate(self, cfg):
        fn = self.fns.get(cfg["func"])
        if fn is None:
            raise Shape("function %s not found" % cfg["func"])
        names = self.check_params(cfg, fn)
        body = strip_doc(fn.body)
        for n in ast.walk(fn):
            if isinstance(n, (ast.Global, ast.Nonlocal, ast.Lambda, ast.FunctionDef, ast.While, ast.With, ast.Delete, ast.ClassDef,
                              ast.AsyncFunctionDef, ast.NamedExpr, ast.Import, ast.ImportFrom)) and n is not fn:
                raise Shape("%s in %s" % (type(n).__name__, fn.name))
        self.pyidents = identifiers(fn)
        self.spelled = SPELLED | set(self.cfgs) | set(INT_TYPES)
        fixed = set(cfg.get("opaque_params", [])) | {c for f in cfg.get("forms", []) for c in f.get("consts", {})}
        clash = sorted(bound_names(fn) & (self.spelled | fixed))
        if clash:
            raise Shape("%s binds %s, which the translation resolves by spelling, passes on unmodelled or reads as a constant of "
                        "the call form" % (fn.name, ", ".join(clash)))
        defs, warns, csg = [], [], False
        forms = cfg.get("forms")
        lead = " ".join("(%s : %s)" % (n, t) for n, t in cfg.get("lead", []))
        if not forms:
            if names != [p for p, _ in cfg["params"]]:
                raise Shape("parameters of %s: %s" % (fn.name, names))
            tr = Fn(self, cfg)
            for n, _ in cfg.get("lead", []):
                tr.reserve(n)
            for p, ty in cfg["params"]:
                tr.env[p] = (p, ty)
                tr.reserve(p)
            lets = []
            for py, ty, init in cfg.get("hidden", []):
                lets.append((tr.define(py, ty), ty, init))
            node = tr.block(body, lambda: (_ for _ in ()).throw(Shape("%s can end without a return" % fn.name)))
            for n, ty, tx in reversed(lets):
                node = Let(n, lty(ty), tx, node)
            check_live(node, "`%s`" % fn.name)
            params = " ".join("(%s : %s)" % (p, lty(ty)) for p, ty in cfg["params"])
            text = "def %s %s : Except GhErr %s :=\n%s" % (
                cfg["lean"], " ".join(x for x in [lead, params] if x), lty(cfg["ret"], True), "\n".join(render(node, "  ")))
            defs = tr.loops + [text]
        else:
            want = [p for p, _ in forms[-1]["params"]] + cfg.get("opaque_params", [])
            if names != want:
                raise Shape("parameters of %s: %s" % (fn.name, names))
            arms, loops = [], None
            for form in forms:
                tr = Fn(self, cfg, form)
                for n, _ in cfg.get("lead", []):
                    tr.reserve(n)
                for n in re.findall(r"\((\w+) :", cfg["tail_params"]):
                    tr.reserve(n)
                for p, ty in form["params"]:
                    tr.env[p] = (p, ty)
                    tr.reserve(p)
                tr.env["__rng"] = ("s", "ST")
                node = tr.block(body, lambda: (_ for _ in ()).throw(Shape("%s can end without a return" % fn.name)))
                check_live(node, "`%s` (call form %s)" % (fn.name, form["name"]))
                if loops is None:
                    loops = tr.loops
                elif loops != tr.loops:
                    raise Shape("the loops of %s differ between its call forms" % fn.name)
                arms.append("  | %s =>\n%s" % (form["pat"], "\n".join(render(node, "    "))))
            text = "def %s %s : Except GhErr %s :=\n  match args with\n%s" % (
                cfg["lean"], " ".join(x for x in [lead, cfg["tail_params"]] if x), lty(cfg["ret"], True), "\n".join(arms))
            defs = loops + [text]
        # every `raise` statement and `warnings.warn(…)` call of the function, in source order, as written
        found = [n for n in ast.walk(fn) if isinstance(n, ast.Raise)
                 or (isinstance(n, ast.Call) and dotted(n.func) == "warnings.warn")]
        warns = [ast.unparse(n) for n in sorted(found, key=lambda n: (n.lineno, n.col_offset))]
        return {"defs": defs, "warnings": warns}


HEADER = (
    "import %s\n"
    "/-!\n"
    "GENERATED by harness/translator/py2lean.py (mGH entry-point engine py2lean_ghentry.py) from %s — do not edit;\n"
    "rewritten on every run (`pre_build` of C17 and C05).\n\n"
    "Each `def` below is the Python source translated STATEMENT BY STATEMENT (`ast`): the public entry point `gromov_hausdorff`,\n"
    "`make_distance_matrix_from_adjacency_matrix`, `cast_distance_matrix_to_optimal_int_type`, `determine_optimal_int_type`.  The\n"
    "obligations `src_…_eq_model` state that, for ALL inputs under the printed hypotheses, a generated definition raises what the\n"
    "hand-written model of %s rejects and otherwise returns the model's value;\n"
    "`src_…_eq_ref` that a generated definition equals the reviewed Lean text of the same shape in Lemmas/SrcBridgeGHEntry.lean, about\n"
    "which the model-level induction is proved there.  An edit of the translated lines changes the generated definition (unless it\n"
    "is a renaming of locals) and an obligation then no longer checks (DESIGN.md 3.2/3.3); the proof scripts are fixed in the\n"
    "translator's table.  EVERY statement of the four functions is read; what the translation does not give a meaning to is pinned\n"
    "as TEXT (`ast.unparse`): `srcWarnings_<f>` (the `warnings.warn(…)` calls and `raise` statements as written: message, category),\n"
    "`srcSignature_<function>`, `srcBindings_ghentry` (every module-level binding of every name the functions use).\n"
    "`Lemmas/SrcGHEntryPublic.lean` composes `gromov_hausdorff` with the `estimate` of Generated/SrcMGH.lean.\n\n"
    "Conventions of the translation (the translator's semantics of its Python subset):\n"
    "  * every definition has type `Except GhErr τ` (Lemmas/SrcLibGH.lean): `return e` is `.ok e`; `raise ValueError(…)` is\n"
    "    `.error (GhErr.value k)` with the model's error kind `k` the table gives for the raise site; a call of a generated definition\n"
    "    or of a raising table entry is `match … with | .error e => .error e | .ok x => …` where the statement stands, in Python's\n"
    "    evaluation order (arguments first, the right-hand side before the targets, targets left to right);\n"
    "  * straight-line code is SSA-renamed (`x`, `x_1`, …), every assignment is a `let`; tuples are read by projections;\n"
    "  * an adjacency matrix arrives in a `Container` (nested lists / ndarray / scipy sparse of some format / unknown); an integer\n"
    "    array is `IntArr` (entries, dtype); a float matrix that may hold `inf` is a `DMat` (`none` = `inf`);\n"
    "  * the two call forms of `gromov_hausdorff` are the two values of `AH is None`: the body is translated once per form\n"
    "    (`GHArgs.coll` / `GHArgs.pair`) with `AH is None` / `AH is not None` the constants they are; `(AG, AH)` is the list `[AG, AH]`;\n"
    "  * `for x in range(…)` is a structural recursion over the list of indices (`<f>_loop`, nested `<f>_loop_2`) carrying the names\n"
    "    the body re-assigns; the other names it reads are leading parameters; `range(a, b)` is `pyRange a b`;\n"
    "  * an `if` whose arms fall through yields the names its arms assign (an `Except` if an arm can raise); an arm that raises or\n"
    "    returns ends the definition there and the other arm continues;\n"
    "  * `M[i, j] = v`, `M[idx] = vals` give the ONE name `M` a new value; accepted only for an array that the function created with\n"
    "    `np.zeros` and that no other name refers to: `y = x` for a float array `x` (a second name for ONE object) is outside the subset;\n"
    "  * `warnings.warn(…)` sets the flag `warned` (`false` at entry); `return DG` of `make_distance_matrix_from_adjacency_matrix`\n"
    "    is the record `⟨entries, warned, dtype⟩` (`DistResult` of the model); a caller reads `.dist`;\n"
    "  * NumPy's global generator is the explicit state `s : σ`: `estimate(DX, DY, mapping_sample_size_order=mapping_sample_size_order)`\n"
    "    is `estimate s DX.dist DY.dist` (a PARAMETER; it returns the two floats of type `β` and the next state; its third argument\n"
    "    must be the caller's own parameter, which only the generator's draws depend on); `gromov_hausdorff` returns the last state;\n"
    "  * `try: x = next(g) / except StopIteration: raise ValueError(…)` over the generator expression `(t for t in [np.int8, …] if\n"
    "    value <= np.iinfo(t).max)` is a `match` on the head of the filtered list; `value` may be `inf` (`leTop`);\n"
    "  * library calls are TABLE ENTRIES (definitions of Lemmas/SrcLibGH.lean / helpers of Model/Graph.lean): `l[k]` (`getItem`),\n"
    "    `M[i, j]` (`getItem2`), `M[i, j] = v` (`setItem2`), `M[idx] = vals` (`scatterIdx`), `range`, `a == x` (`eqMask`),\n"
    "    `float <= int` (`leTop`), `not`, `and`, `<`, `+`, and %s.\n"
    "    PARAMETERS with a contract: `shortest_path(·, directed=False, unweighted=True)` and `connected_components(·, directed=False)`\n"
    "    (`SrcGH.CsgraphContract`: on a dense array or a CSR matrix, the model's BFS distances / component labels; anything else,\n"
    "    any other keyword, is outside the subset), and `estimate`.\n"
    "REFUSED (`src_…_eq_ref` holds up to definitional unfolding, which would absorb them): a DEAD STORE -- a generated `let` / bound\n"
    "result / loop-carried value that nothing of the generated code reads (no exceptions in these four functions); binding a name the\n"
    "translation resolves by spelling (`len`, `range`, `np`, `sps`, `warnings`, `estimate`, the csgraph routines, the four functions), the\n"
    "parameter `mapping_sample_size_order` or `AH` (a constant of the call form); SSA versions `x_k` and temporaries avoid every\n"
    "identifier of the Python function.\n"
    "A source outside the subset gives `def srcShape_<f> : Bool := false`, and `srcShape_<f>_recognised` fails.\n"
    "-/\n"
    "set_option linter.unusedVariables false\n"
    "set_option linter.unusedSectionVars false\n"
    "set_option linter.unusedSimpArgs false\n\n"
    "namespace %s\nopen %s\n")


def table_note():
    return ";\n    ".join("`%s` ↦ `%s`%s" % (p, l, " (%s)" % m if m else "") for p, l, m in IDIOM_DOC)


def lst(items):
    return "[%s]" % ", ".join(lean_str(t) for t in items)


def render_file(key, root):
    py, out, ns, imports, prop, opens = FILES[key]
    model = imports.split("\nimport ")[0]
    o = [HEADER % (imports, py, model.replace("PersimVerif.", "PersimVerif/").replace(".", "/") + ".lean", table_note(), ns, opens)]
    info = {"source": py, "output": "/".join([GEN.replace(os.sep, "/"), out]), "functions": {}}
    err0, unit, tree = None, None, None
    try:
        src = open(os.path.join(root, py)).read()
        tree = ast.parse(src)
        unit = Unit(src, tree)
    except (OSError, SyntaxError) as e:
        err0 = "%s: %s" % (type(e).__name__, e)
    fl = [(c["func"], unit.fns.get(c["func"]) if unit else None, None) for c in TARGETS]
    o.append(bindings_section(key, tree, fl, BINDINGS.get(key), err0, info))
    for cfg in TARGETS:
        f = cfg["lean"]
        o.append("/-! ### `%s`  (from `%s` of %s) -/" % (f, cfg["func"], py))
        o.append("section\n" + (cfg["variables"] + "\n" if cfg["variables"] else ""))
        err, res = err0, None
        if err is None:
            try:
                res = unit.translate(cfg)
            except Shape as e:
                err = "Shape: %s" % e
            except Exception as e:               # anything else the source makes the translator do: outside the subset
                err = "%s: %s" % (type(e).__name__, e)
        if err is not None:
            o.append("/-- the translator could not read the source: %s -/" % err.replace("-/", "- /").replace("/-", "/ -").replace("\n", " "))
            o.append("def srcShape_%s : Bool := false" % f)
            o.append("theorem srcShape_%s_recognised : srcShape_%s = true := by decide\n" % (f, f))
            o.append("end\n")
            info["functions"][f] = {"error": err}
            continue
        names = ["srcShape_%s_recognised" % f]
        o.append("def srcShape_%s : Bool := true" % f)
        o.append("theorem srcShape_%s_recognised : srcShape_%s = true := by decide\n" % (f, f))
        for d in res["defs"]:
            o.append(d + "\n")
        for name, binders, stmt, proof, doc in cfg.get("obligations", []):
            o.append("/-- %s -/" % doc)
            o.append("theorem %s%s :\n    %s := %s\n" % (name, (" " + binders) if binders else "", stmt, proof))
            names.append(name)
        for ex in cfg.get("examples", []):
            o.append(ex + "\n")
        o.append(render_signature(cfg["func"], signature_text(unit.fns[cfg["func"]]), SIGNATURES.get(cfg["func"], "")))
        names.append("src_%s_signature" % sanitize(cfg["func"]))
        if res["warnings"] or WARNINGS.get(cfg["func"]):
            o.append("/-- the `warnings.warn(…)` calls and `raise` statements of `%s`, as written (the translation reads a warning as the "
                     "flag `warned`, a raise as the model's error kind: message and category are this text) -/" % cfg["func"])
            o.append("def srcWarnings_%s : List String :=\n  %s" % (f, lst(res["warnings"])))
            o.append("theorem src_%s_warnings : srcWarnings_%s =\n  %s := rfl\n" % (f, f, lst(WARNINGS.get(cfg["func"], []))))
            names.append("src_%s_warnings" % f)
        o.append("end\n")
        info["functions"][f] = {"obligations": names}
    if tree is not None:
        nt = {py: not_translated(py, tree, _base.all_target_functions(py))}
        info["not_translated"] = nt
        o.append(not_translated_comment(sorted(nt.items())))
    o.append("end %s\n" % ns)
    return "\n".join(o), info


# ----------------------------------------------------------------------------- registration with py2lean (dispatch by key)

def trusted_note(key):
    return ("harness/translator/py2lean.py + py2lean_ghentry.py (statement-level ast translation of gromov_hausdorff, "
            "make_distance_matrix_from_adjacency_matrix, cast_distance_matrix_to_optimal_int_type, determine_optimal_int_type of %s "
            "into Generated/%s, proved equal to the hand-written model for all inputs on every run; its TARGETS table -- parameter types, "
            "the two call forms, raise site -> model error kind, obligation statements and proof scripts (py2lean_ghentry_proofs.py), "
            "the reviewed texts of signatures / warnings / bindings -- its stated conventions -- everything is `Except GhErr`, containers, "
            "one translation per call form, loops as structural recursions, warnings as a flag, NumPy's generator as an explicit state "
            "threaded through `estimate` -- its idiom table, Lemmas/SrcLibGH.lean and the contract `CsgraphContract` of the two csgraph "
            "parameters are trusted)" % FILES[key][:2])


def manifest_note(key):
    return ("Source translator (mGH entry point): gromov_hausdorff (both call forms), make_distance_matrix_from_adjacency_matrix, "
            "cast_distance_matrix_to_optimal_int_type and determine_optimal_int_type of %s are re-translated from the source text "
            "into Lean on every run (Generated/%s), every statement of them, and proved equal to the model: "
            "src_make_distance_matrix_eq_model (= Graph.makeDist for every container kind, with scipy's shortest_path / "
            "connected_components as parameters under the model's contract, np.unique / argmax / mask indexing / np.max / astype as table "
            "entries), src_gromov_hausdorff_eq_model (= Graph.gromovHausdorff for every `estimate`, collection size and generator state: "
            "the fill loops, the tril symmetrisation, the pair result) and, composed by hand with the `estimate` the mGH engine "
            "translates (Lemmas/SrcGHEntryPublic.lean), src_gromov_hausdorff_eq_public (= MGHPublic.publicGH, the model of "
            "Props/C05C17.lean, for every sampler meeting NumPy's contract). So the chain for the public bracket is Python source "
            "-> (translated, proved) -> publicGH -> (proved) -> lo <= mGH <= hi. An edit of the translated lines breaks a generated "
            "obligation and triggers the failing-input search, except a renaming of locals; warning / raise texts, signatures and "
            "module-level bindings are pinned as text (src_<f>_warnings, src_<f>_signature, src_ghentry_bindings). Not tied by the "
            "translator: what scipy / NumPy do behind the table entries and the csgraph contract (compared with the model on every "
            "harness case), float rounding of 0.5*n, the dtype guards at the entry of estimate (pinned in Generated/SrcMGH.lean), "
            "dynamic rebinding, callers (trusted: the translator's conventions, its tables, Lemmas/SrcLibGH.lean)."
            % (FILES[key][0], FILES[key][1]))


_base = None


def register(base):
    """make key "ghentry" known to py2lean: FILES, the render dispatch, the helper functions of the harness modules"""
    global _base
    if getattr(base, "_ghentry_registered", False):
        return
    base._ghentry_registered = True
    _base = base
    for k, v in FILES.items():
        base.FILES[k] = v[:5]
    inner = {n: getattr(base, n) for n in ("render_file", "trusted_note", "manifest_note", "all_target_functions", "prop_files")}

    def render(key, root):
        return render_file(key, root) if key in FILES else inner["render_file"](key, root)

    def tnote(key):
        return trusted_note(key) if key in FILES else inner["trusted_note"](key)

    def mnote(key):
        return manifest_note(key) if key in FILES else inner["manifest_note"](key)

    def targets(path):
        return inner["all_target_functions"](path) + ([c["func"] for c in TARGETS] if path == PYFILE else [])

    def pfiles(key):
        if key in FILES:
            return list(BRIDGES) + [base.prop_file(key)] + list(COMPOSED)
        return inner["prop_files"](key)
    base.render_file, base.trusted_note, base.manifest_note, base.all_target_functions, base.prop_files = render, tnote, mnote, targets, pfiles


from . import py2lean as _b  # noqa: E402
if hasattr(_b, "py2lean_stmt") and hasattr(_b, "generate") and hasattr(_b, "py2lean_mgh"):
    register(_b)


def expected_tables(root="/repo"):
    """Python source of BINDINGS / SIGNATURES / WARNINGS as the tree at `root` has them -- for a maintainer who has REVIEWED a
    change of /repo and re-baselines the tables (`python -m harness.translator.py2lean_ghentry [root]`)"""
    text, _ = render_file(KEY, root)

    def un(t):
        return re.sub(r"\\x([0-9a-f]{2})", lambda m: chr(int(m.group(1), 16)), t).replace("\\n", "\n").replace('\\"', '"').replace("\\\\", "\\")
    out = ["BINDINGS = {KEY: ["]
    m = re.search(r"def srcBindings_%s : List \(String × String\) :=\n  \[(.*?)\]\ntheorem" % KEY, text, re.S)
    for n, t in re.findall(r'\("((?:[^"\\]|\\.)*)", "((?:[^"\\]|\\.)*)"\)', m.group(1) if m else ""):
        out.append("    (%r, %r)," % (un(n), un(t)))
    out.append("]}")
    out.append("SIGNATURES = {")
    for c in TARGETS:
        m = re.search(r"def srcSignature_%s : String :=\n  \"((?:[^\"\\]|\\.)*)\"\n" % sanitize(c["func"]), text)
        if m:
            out.append("    %r: %r," % (c["func"], un(m.group(1))))
    out.append("}")
    out.append("WARNINGS = {")
    for c in TARGETS:
        m = re.search(r"def srcWarnings_%s : List String :=\n  \[(.*?)\]\n" % c["lean"], text)
        if m:
            out.append("    %r: %r," % (c["func"], [un(x) for x in re.findall(r'"((?:[^"\\]|\\.)*)"', m.group(1))]))
    out.append("}")
    return "\n".join(out)


if __name__ == "__main__":
    import sys
    from harness.translator import py2lean_ghentry as _me          # the registered instance of this module
    print(_me.expected_tables(sys.argv[1] if len(sys.argv) > 1 else os.environ.get("PERSIM_ROOT", "/repo")))
