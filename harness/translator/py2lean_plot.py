"""
Source translator Python -> Lean for the PLOTTING functions of persim (DESIGN.md 3.2): the engine behind py2lean.generate() for
key "plot" (property C20).

Translates `plot_diagrams`, `bottleneck_matching`, `wasserstein_matching` of persim/visuals.py and the two 2-D landscape plots
`plot_landscape_exact_simple` / `plot_landscape_approx_simple` of persim/landscapes/visuals.py STATEMENT BY STATEMENT into
lean/PersimVerif/Generated/SrcPlot.lean and emits the obligations that tie them to the hand-written artist-list model
lean/PersimVerif/Model/Plot.lean, for all inputs:

    src_<def>_eq_ref            every generated definition = the reviewed Lean text of the same shape (Lemmas/SrcBridgePlot.lean), rfl
    src_plot_diagrams_eq_model, src_bottleneck_matching_eq_model, src_wasserstein_matching_eq_model,
    src_plot_landscape_exact_simple_eq_model, src_plot_landscape_approx_simple_eq_model

Semantics of the subset (the translator's conventions; printed in the generated header):
  * a plotting function is a function from its arguments and the state of the figure before the call (`fig : SFig α`,
    Lemmas/SrcLibPlot.lean) to the state after it; every definition has type `Except Err (SFig α)` (`Plot.Err`: `value` =
    ValueError, `index` = IndexError); an exception discards the state;
  * `ax = ax or plt.gca()` DEFINES the axes handle of the function: the definition's parameter `ax : Axes` is what that
    expression evaluates to; the public obligations are stated at `Axes.given`.  `plt.plot(…)` adds to `Axes.current`.  A nested
    call of a translated plotting function passes the handle its `ax=` keyword names, `Axes.current` when it passes none;
  * matplotlib calls are table entries: `H.plot(xs, ys, <style…>, label=…)` adds `SArtist.line H xs ys ⟨style⟩ label`,
    `H.scatter(xs, ys, <style…>, label=…)` adds `SArtist.scatter H (offsets xs ys) ⟨style⟩ label`; `H.set_xlim([a, b])`,
    `set_ylim`, `set_xlabel`, `set_ylabel`, `set_title`, `legend` store their argument with the handle.  Styling arguments are
    carried as VALUES: a string / integer constant or a local holding one, or `param "<name>"` for an opaque parameter;
  * every other expression statement (`plt.style.use(colormap)`, `ax.set_aspect(…)`, `ax.margins(…)`, `plt.show()` under its `if`)
    is an EFFECT the model does not carry: it is not translated and its text is pinned WITH ITS POSITION (`src_<f>_effects`:
    `"[k|n] stmt"`, `k` the path of the statement in the function body, `n` the number of names the translation has bound before it);
  * `landscape.compute_landscape()` is NOT an effect: it writes the state (`max_depth`, `critical_pairs` / `values`) that the
    translated statements read, and is translated as the state transformer `LandExact.compute_landscape` / `LandApprox.compute_landscape`
    (a new SSA version of the object); iterating over an object that is not computed yet is outside the subset;
  * straight-line code is SSA-renamed, every assignment is a `let`; a raising expression (`xs[i]`, `np.min`, `np.concatenate`,
    `np.argmax`, a nested call) is bound by a `match` where the statement stands; an `if` whose arms fall through yields the
    names that exist before it (or are assigned in both arms) and are assigned in an arm;
  * arguments that are one of several Python types are sum types of the model (`DgmsArg`, `Labels`, `Option …`); the `if`s that
    normalise them are statement idioms; `if x is None:` / `if x is not None:` on an `Option` is a `match` binding the payload, the truthiness test
    `if not xy_range:` a `match truthyVal xy_range` (not the same text);
  * a float array that may hold `inf` has entries `Option α`; where such an entry is drawn or computed with it is read through
    `fin infv` (`infv` a parameter; the obligations hold for every value of it);
  * `for x in L: <in-place update of x>` is the map of the update over `L` -- accepted only for a list of arrays that this
    function created (`astype(…, copy=True)`); any other `for` is `foldlM` of its own `<f>_round` definition;
  * `np.cos`, `np.sin`, `np.pi` are parameters; a decimal literal is the rational it denotes (`0.95` = `19 / 20`).
A source outside the subset gives `def srcShape_<f> : Bool := false` and the broken obligation `srcShape_<f>_recognised`.
"""
import ast, os, re, warnings
from fractions import Fraction

from .py2lean import (Shape, lean_str, strip_doc, GEN, bindings_section, render_signature, signature_text, sanitize,
                      not_translated, not_translated_comment)
from .py2lean_mgh import tmatch, template, dotted


def tm(pattern, node, b):
    """tmatch against a fresh binding table (a failed match leaves partial bindings behind); on success `b` holds the bindings"""
    nb = {}
    if tmatch(template(pattern), node, nb):
        b.clear()
        b.update(nb)
        return True
    return False


# ----------------------------------------------------------------------------- types

TY = {"S": "α", "XS": "Option α", "N": "Nat", "I": "Int", "B": "Bool", "STR": "String", "DA": "DgmsArg α", "D": "Dgm α",
      "LD": "List (Dgm α)", "LBL": "Labels", "SL": "String ⊕ List String", "LS": "List String", "OLI": "Option (List Int)",
      "LI": "List Int", "OSTR": "Option String", "OXY": "Option (α × α × α × α)", "XY": "α × α × α × α",
      "XL": "List (Option α)", "FL": "List α", "BL": "List Bool", "M2": "Mat2 α", "V2": "α × α", "FD": "List (α × α)",
      "MT": "List (Row α)", "ROW": "Row α", "AX": "Axes", "FIG": "SFig α", "OLN": "Option (List Nat)", "LN": "List Nat",
      "OLS": "Option (List String)", "LFD": "List (List (α × α))", "LFL": "List (List α)", "Z": "Int",
      "LE": "LandExact α", "LA": "LandApprox α", "LE0": "LandExact α", "LA0": "LandApprox α"}
OPTION_PAYLOAD = {"OXY": "XY", "OSTR": "STR", "OLI": "LI", "OLN": "LN", "OLS": "LS"}


def lty(t, atom=False):
    if isinstance(t, tuple):
        s = " × ".join(lty(x, True) for x in t)
    else:
        s = TY[t]
    return "(%s)" % s if atom and " " in s else s


class V:
    """a translated PURE value: Lean text, type tag; `fresh`: an array (or list of arrays) that this function created"""
    def __init__(self, t, ty, atom=None, fresh=False):
        self.t, self.ty, self.fresh = t, ty, fresh
        self.atom = bool(re.match(r"^[\w.']+$", t)) if atom is None else atom

    def a(self):
        return self.t if self.atom else "(%s)" % self.t


def atomise(t):
    if re.match(r"^[\w.']+$", t):
        return t
    if t[0] in "(⟨[" and t[-1] in ")⟩]":
        depth = 0
        for k, ch in enumerate(t):
            if ch in "(⟨[":
                depth += 1
            elif ch in ")⟩]":
                depth -= 1
                if depth == 0 and k != len(t) - 1:
                    return "(%s)" % t
        return t
    if re.match(r'^"(?:[^"\\]|\\.)*"$', t):
        return t
    return "(%s)" % t


# ----------------------------------------------------------------------------- nodes (every node denotes an `Except Err τ`)

class Ret:
    def __init__(self, text):
        self.text = text


class Raw:
    def __init__(self, text):
        self.text = text


class Fail:
    def __init__(self, err):
        self.err = err


class Let:
    def __init__(self, name, ty, text, body):
        self.name, self.ty, self.text, self.body = name, ty, text, body


class LetJoin:
    """let name : ty := <pure node>; body        (a joined `if` none of whose arms can raise)"""
    def __init__(self, name, ty, node, body):
        self.name, self.ty, self.node, self.body = name, ty, node, body


class Bind:
    """match scrut with | <fail pattern> => <fail> | <ok pattern> var => body.
    scrut: text of an `Option` (err = the error kind of `none`) or of an `Except` (err None), or (node, type text) for a joined `if`"""
    def __init__(self, scrut, var, body, err=None):
        self.scrut, self.var, self.body, self.err = scrut, var, body, err


class Ite:
    def __init__(self, cond, a, b):
        self.cond, self.a, self.b = cond, a, b


class OptMatch:
    """match x with | none => a | some var => b"""
    def __init__(self, scrut, var, none, some):
        self.scrut, self.var, self.none, self.some = scrut, var, none, some


def can_raise(n):
    if isinstance(n, (Fail, Raw, Bind)):
        return True
    if isinstance(n, Ret):
        return False
    if isinstance(n, (Let, LetJoin)):
        return can_raise(n.body) or (isinstance(n, LetJoin) and can_raise(n.node))
    if isinstance(n, Ite):
        return can_raise(n.a) or can_raise(n.b)
    if isinstance(n, OptMatch):
        return can_raise(n.none) or can_raise(n.some)
    raise Shape("internal: node")


def idents(text):
    """identifiers of a Lean text (string literals removed)"""
    return set(re.findall(r"[A-Za-z_][A-Za-z0-9_']*", re.sub(r'"(?:[^"\\]|\\.)*"', '""', text)))


def live(n):
    """the Lean names a node reads; Shape when a binding is never read: a store that nothing reads (after the last use of the
    name, or to a name that only an un-modelled statement reads) would otherwise be a dead `let` that `rfl` absorbs.
    Exempt: the bindings of a loop target (Python binds them too; `d` of `[i, j, d]` is not used by the source either)."""
    if isinstance(n, (Ret, Raw)):
        return idents(n.text)
    if isinstance(n, Fail):
        return set()
    if isinstance(n, Let):
        ub = live(n.body)
        if n.name not in ub and not getattr(n, "exempt", False):
            raise Shape("the value bound to `%s` (%s) is never read: a dead store" % (n.name, n.text[:60]))
        return (ub - {n.name}) | idents(n.text)
    if isinstance(n, LetJoin):
        ub = live(n.body)
        if n.name not in ub:
            raise Shape("what the `if` assigns (`%s`) is never read: a dead store" % n.name)
        return (ub - {n.name}) | live(n.node)
    if isinstance(n, Bind):
        ub = live(n.body)
        if n.var not in ub:
            raise Shape("the value bound to `%s` is never read: a dead store" % n.var)
        return (ub - {n.var}) | (idents(n.scrut) if isinstance(n.scrut, str) else live(n.scrut[0]))
    if isinstance(n, Ite):
        return idents(n.cond) | live(n.a) | live(n.b)
    if isinstance(n, OptMatch):
        return idents(n.scrut) | live(n.none) | (live(n.some) - {n.var})
    raise Shape("internal: node")


def simplify(n):
    """`match e with | .error e => .error e | .ok x => .ok x` is `e`"""
    if isinstance(n, Bind) and isinstance(n.scrut, str) and n.err is None and isinstance(n.body, Ret) and n.body.text == n.var:
        return Raw(n.scrut)
    if isinstance(n, Bind) and not isinstance(n.scrut, str) and isinstance(n.body, Ret) and n.body.text == n.var:
        return n.scrut[0]
    return n


def render(n, ind, pure=False):
    """lines of a node; `pure`: the node cannot raise and is rendered as a value of type τ (no `.ok`)"""
    if isinstance(n, Ret):
        return [ind + (n.text if pure else ".ok " + atomise(n.text))]
    if isinstance(n, Raw):
        return [ind + n.text]
    if isinstance(n, Fail):
        return [ind + ".error " + n.err]
    if isinstance(n, Let):
        return ["%slet %s : %s := %s" % (ind, n.name, n.ty, n.text)] + render(n.body, ind, pure)
    if isinstance(n, LetJoin):
        inner = render(n.node, ind + "    ", True)
        return ["%slet %s : %s :=" % (ind, n.name, n.ty)] + inner + render(n.body, ind, pure)
    if isinstance(n, Bind):
        if isinstance(n.scrut, str):
            head = ["%smatch %s with" % (ind, n.scrut)]
        else:
            head = ["%smatch (" % ind] + render(n.scrut[0], ind + "    ") + ["%s    : Except Err %s) with" % (ind, n.scrut[1])]
        if n.err is None:
            return head + ["%s| .error e => .error e" % ind, "%s| .ok %s =>" % (ind, n.var)] + render(n.body, ind, pure)
        return head + ["%s| none => .error %s" % (ind, n.err), "%s| some %s =>" % (ind, n.var)] + render(n.body, ind, pure)
    if isinstance(n, Ite):
        a, b = render(n.a, ind + "  ", pure), render(n.b, ind + "  ", pure)
        return ["%sif %s then" % (ind, n.cond)] + a + [ind + "else"] + b
    if isinstance(n, OptMatch):
        a, b = render(n.none, ind + "    ", pure), render(n.some, ind + "    ", pure)
        a[0] = "%s| none => (%s" % (ind, a[0].lstrip()) if len(a) == 1 else a[0]
        if len(a) == 1:
            a[0] += ")"
            arm_a = a
        else:
            arm_a = ["%s| none => (" % ind] + a
            arm_a[-1] += ")"
        if len(b) == 1:
            arm_b = ["%s| some %s => (%s)" % (ind, n.var, b[0].lstrip())]
        else:
            arm_b = ["%s| some %s => (" % (ind, n.var)] + b
            arm_b[-1] += ")"
        return ["%smatch %s with" % (ind, n.scrut)] + arm_a + arm_b
    raise Shape("internal: node")


# ----------------------------------------------------------------------------- tables

FORMATS = {"$H_{{{}}}$": "hLabel"}                         # "<text>".format(i)  ->  definition of Lemmas/SrcLibPlot.lean
FSTRINGS = {("$\\lambda_{", "}$"): "lamLabel"}            # f"$\lambda_{{{depth}}}$": constant parts (after `{{` -> `{`)
ERR = {"index": "Err.index", "value": "Err.value"}
SETTERS = {"set_xlabel": "STR", "set_ylabel": "STR", "set_title": "STR"}
LIMITS = ("set_xlim", "set_ylim")
ARTISTS = ("plot", "scatter")


MUTABLE = {"D", "LD", "FD", "MT", "FL", "XL", "BL", "LS", "LFD", "LFL"}
FIXED_BINDERS = ("it", "acc", "e", "fig")
# names the generated text uses for something else: a Python local must not be spelled like one of them
RESERVED = set(FIXED_BINDERS) | {
    "fin", "finL", "offsets", "colBirth", "colDeath", "colDist", "astypeF32", "npConcatenate", "flatten2", "anyIsinf", "selectFinite",
    "npMin", "npMax", "colSubInPlace", "setWhereInf", "isfiniteMask", "maskRows", "npSize", "zeroRow", "vecDot", "dotRows",
    "pyEnumerate", "pyGet", "compGet", "seqOf", "truthy", "truthyStr", "listOfArg", "labelsOrElse", "broadcastStr", "hLabel", "lamLabel",
    "rangeOr", "strOf", "truthyVal", "argmax?", "some", "none", "true", "false", "List", "Option", "Except", "Axes", "SFig", "SArtist", "Labels", "DgmsArg", "Err",
    "Nat", "Int", "Bool", "String", "Dgm", "Row", "Mat2", "linspace", "natCast", "pairsCol0", "pairsCol1", "match", "with", "fun", "let",
    "if", "then", "else", "by", "at", "do", "in", "from", "have", "show", "end", "def", "theorem", "open", "namespace", "section",
    "variable", "where", "deriving", "instance", "structure", "inductive", "Type", "Prop", "Sort", "cast", "infv", "cos", "sin", "pi"}
RESERVED -= {"show"}            # `show` is a parameter of plot_diagrams (opaque: it never becomes a Lean name)


def assigned_names(stmts):
    """names (re)assigned by a statement list, in order of first assignment; `__fig` when it draws"""
    out = []

    def add(n):
        if n not in out:
            out.append(n)

    def tgt(t):
        if isinstance(t, ast.Name):
            if t.id != "_":
                add(t.id)
        elif isinstance(t, (ast.Tuple, ast.List)):
            for e in t.elts:
                tgt(e)
        elif isinstance(t, ast.Subscript):
            tgt(t.value)
        else:
            raise Shape("assignment target: %s" % ast.unparse(t))

    def visit(ss):
        for s in ss:
            if isinstance(s, ast.Assign):
                for t in s.targets:
                    tgt(t)
            elif isinstance(s, ast.AugAssign):
                tgt(s.target)
            elif isinstance(s, ast.If):
                visit(s.body)
                visit(s.orelse)
            elif isinstance(s, ast.For):
                if isinstance(s.iter, ast.Name) and len(s.body) == 1 and is_inplace_stmt(s.body[0]):
                    add(s.iter.id)                     # for x in L: <in-place update of x>  changes the arrays of L
                tgt(s.target)
                visit(s.body)
            elif isinstance(s, ast.Expr):
                add("__fig")
            elif isinstance(s, (ast.Return, ast.Pass, ast.Continue)):
                pass
            else:
                raise Shape("statement: %s" % type(s).__name__)
    visit(stmts)
    return out


def top_assigned(stmts):
    """names DEFINITELY assigned by a statement list (top-level assignments, and `if`s both of whose arms assign)"""
    out = set()
    for s in stmts:
        if isinstance(s, ast.Assign):
            for t in s.targets:
                for n in ast.walk(t):
                    if isinstance(n, ast.Name) and isinstance(n.ctx, ast.Store):
                        out.add(n.id)
        elif isinstance(s, ast.If):
            out |= top_assigned(s.body) & top_assigned(s.orelse)
        elif isinstance(s, ast.Expr):
            out.add("__fig")
    return out


def terminates(stmts):
    if not stmts:
        return False
    s = stmts[-1]
    if isinstance(s, (ast.Return, ast.Continue)):
        return True
    if isinstance(s, ast.If):
        return terminates(s.body) and terminates(s.orelse)
    return False


def const_int(node):
    if isinstance(node, ast.Constant) and type(node.value) is int:
        return node.value
    if isinstance(node, ast.UnaryOp) and isinstance(node.op, ast.USub) and isinstance(node.operand, ast.Constant) \
            and type(node.operand.value) is int:
        return -node.operand.value
    return None


class Fn:
    """translation of one Python function: `cfg` its table entry, `unit` the file"""

    def __init__(self, unit, cfg):
        self.unit, self.cfg = unit, cfg
        self.env = {}                 # python name -> (lean name, type tag, fresh)
        self.used = set()             # Lean names handed out (or fixed binders of the generated text)
        self.pyidents = unit.idents.get(cfg["func"], set())     # every identifier of the Python function: never an SSA name
        self.history = {}             # python name -> every Lean name it has had (ownership is per VALUE: see `disown`)
        self.rounds = []              # texts of the round definitions, in order of appearance
        self.round_names = []
        self.nrounds = 0
        self.effects = unit.effects.setdefault(cfg["func"], [])
        self.conversions = unit.conversions.setdefault(cfg["func"], [])
        self.opaque = {p for p, ty in cfg["params"] if ty == "opaque"}
        self.pre = []
        self.mutated = []             # python names updated in place by a statement of this body
        self.cur_stmt = None
        self.callees = []             # translated plotting functions this definition calls (the reviewed text takes them as parameters)
        self.ndefs = 0                # number of names bound so far (`define`): part of the position of an effect

    # --- names
    def fresh(self, base, own=False):
        """a Lean name that nothing else has: `base`, `base_1`, …  A candidate that is spelled like an identifier of the Python
        function is skipped (a local literally named `x_1` must not capture the SSA version 1 of `x`) -- except `base` itself
        when it IS that Python name being bound (`own`)."""
        k = 0
        while True:
            cand = base if k == 0 else "%s_%d" % (base, k)
            k += 1
            if cand in self.used:
                continue
            if cand in self.pyidents and not (own and cand == base):
                continue
            self.used.add(cand)
            return cand

    def define(self, py, ty, fresh=False):
        if py in self.opaque:
            raise Shape("assignment to the opaque parameter `%s` (its uses are pinned by name only)" % py)
        if py in RESERVED and not py.startswith("__"):
            raise Shape("the local name `%s` is a name of the translator's library / of its fixed binders" % py)
        lean = self.fresh("fig", own=False) if py == "__fig" else self.fresh(py, own=True)
        self.env[py] = (lean, ty, fresh)
        self.ndefs += 1
        return lean

    def disown(self, py):
        """the value of `py` now has a second name: in-place updates through either name are refused from here on"""
        if py in self.env:
            l, t, _ = self.env[py]
            self.env[py] = (l, t, False)

    def cur(self, py):
        if py in self.opaque:
            raise Shape("the opaque parameter `%s` is used as a value" % py)
        if py not in self.env:
            raise Shape("name `%s` is read before it is assigned (or is not a local of the translated subset)" % py)
        return V(self.env[py][0], self.env[py][1], fresh=self.env[py][2])

    def bind(self, text, ty, err, base="t"):
        name = self.fresh(base)
        self.pre.append(("bind", text, err, name))
        return V(name, ty)

    # --- expressions
    def coerce(self, v, want, node=None):
        if want is None or v.ty == want:
            return v
        if v.ty == "XL" and want == "FL":
            return V("finL infv %s" % v.a(), "FL", atom=False)
        if v.ty == "XS" and want == "S":
            return V("fin infv %s" % v.a(), "S", atom=False)
        if v.ty == "LS" and want == "LBL":
            return V("Labels.many %s" % v.a(), "LBL", atom=False)
        if v.ty == "LD" and want == "DA":
            return V("DgmsArg.many %s" % v.a(), "DA", atom=False)
        if v.ty == "D" and want == "DA":
            return V("DgmsArg.single %s" % v.a(), "DA", atom=False)
        if v.ty in ("OLI", "OLN", "OLS") and want == OPTION_PAYLOAD[v.ty]:
            return V("seqOf %s" % v.a(), want, atom=False)
        if v.ty == "OSTR" and want == "STR":
            return V("strOf %s" % v.a(), "STR", atom=False)
        if v.ty == "N" and want == "Z":
            return V("(%s : Int)" % v.t, "Z", atom=True)
        raise Shape("`%s` has type %s where %s is needed" % (ast.unparse(node) if node is not None else v.t, lty(v.ty), lty(want)))

    def expr(self, node, want=None):
        return self.coerce(self.expr0(node, want), want, node)

    def number(self, node, want):
        v = node.value
        if type(v) is bool:
            return V("true" if v else "false", "B")
        if type(v) is int:
            if want in ("N", "I", "Z"):
                if v < 0 and want == "N":
                    raise Shape("negative natural number")
                return V(str(v), want)
            if v < 0:
                raise Shape("negative literal")
            return V(str(v), "S")                       # a Python int where a float is computed with: the numeral
        if type(v) is float:
            q = Fraction(repr(v))
            if q < 0:
                raise Shape("negative literal")
            return V(str(q.numerator), "S") if q.denominator == 1 else V("%d / %d" % (q.numerator, q.denominator), "S", atom=False)
        if type(v) is str:
            return V(lean_str(v), "STR", atom=True)
        raise Shape("constant: %r" % (v,))

    def expr0(self, node, want=None):
        if isinstance(node, ast.Name):
            return self.cur(node.id)
        if isinstance(node, ast.Constant):
            return self.number(node, want)
        if isinstance(node, ast.UnaryOp) and isinstance(node.op, ast.USub):
            k = const_int(node)
            if k is not None and want in ("I", "Z"):
                return V(str(k), want, atom=False)
            a = self.expr(node.operand, "S")
            return V("-%s" % a.a(), "S", atom=False)
        if isinstance(node, ast.UnaryOp) and isinstance(node.op, ast.Not):
            a = self.expr(node.operand, "B")
            return V("!%s" % a.a(), "B", atom=False)
        if isinstance(node, ast.BinOp) and type(node.op) in (ast.Add, ast.Sub, ast.Mult, ast.Div):
            return self.binop(node, want)
        if isinstance(node, ast.Compare) and len(node.ops) == 1:
            return self.compare(node)
        if isinstance(node, ast.BoolOp):
            vs = [self.expr(x, "B") for x in node.values]
            op = " || " if isinstance(node.op, ast.Or) else " && "
            return V(op.join(v.a() if (" && " in v.t or " || " in v.t) else v.t for v in vs), "B", atom=False)
        if isinstance(node, ast.IfExp):
            c = self.expr(node.test, "B")
            mark = len(self.pre)
            a = self.expr(node.body, want)
            b = self.expr(node.orelse, a.ty)
            if len(self.pre) != mark:
                raise Shape("a conditional expression whose arms can raise: %s" % ast.unparse(node))
            return V("if %s then %s else %s" % (c.t, a.t, b.t), a.ty, atom=False)
        if isinstance(node, (ast.List, ast.Tuple)) and isinstance(node, ast.List):
            return self.list_literal(node, want)
        if isinstance(node, ast.Attribute):
            return self.attribute(node)
        if isinstance(node, ast.Subscript):
            return self.subscript(node)
        if isinstance(node, ast.Call):
            return self.call(node, want)
        if isinstance(node, ast.JoinedStr):
            return self.fstring(node)
        if isinstance(node, ast.ListComp):
            return self.listcomp(node)
        raise Shape("expression outside the subset: %s" % ast.unparse(node))

    def binop(self, node, want):
        sym = {ast.Add: "+", ast.Sub: "-", ast.Mult: "*", ast.Div: "/"}[type(node.op)]
        # `[x] * n` is handled by the statement idiom only
        if want in ("Z",) or (isinstance(node.left, ast.Attribute) and self.unit.obj_attr(self, node.left) == "Z"):
            a, b = self.expr(node.left, "Z"), self.expr(node.right, "Z")
            return V("%s %s %s" % (a.a(), sym, b.a()), "Z", atom=False)
        a, b = self.expr(node.left, "S"), self.expr(node.right, "S")
        return V("%s %s %s" % (a.a(), sym, b.a()), "S", atom=False)

    def compare(self, node):
        op, l, r = node.ops[0], node.left, node.comparators[0]
        if isinstance(op, (ast.Is, ast.IsNot)) and isinstance(r, ast.Constant) and r.value is True:
            a = self.expr(l, "B")                 # `x is True` is NOT the truth value of `x` in general: rendered as written
            return V("%s == true" % a.a(), "B", atom=False) if isinstance(op, ast.Is) else V("!(%s == true)" % a.a(), "B", atom=False)
        if isinstance(op, (ast.Eq, ast.NotEq)):
            sym = "==" if isinstance(op, ast.Eq) else "!="
            k = const_int(r)
            a = self.expr(l)
            if a.ty == "OXY" and k == 0 and isinstance(op, ast.Eq):
                # `None == 0` and `[a, b, c, d] == 0` are False; the integer 0 is not a value of the model's type
                return V("false", "B")
            if a.ty == "I" and k is not None:
                return V("%s %s %d" % (a.a(), sym, k), "B", atom=False)
            if a.ty == "N":
                b = self.expr(r, "N")
                return V("%s %s %s" % (a.a(), sym, b.a()), "B", atom=False)
            raise Shape("comparison: %s" % ast.unparse(node))
        if isinstance(op, (ast.In, ast.NotIn)):
            a, b = self.expr(l, "N"), self.expr(r, "LN")
            t = "%s.contains %s" % (b.a(), a.a())
            return V(t if isinstance(op, ast.In) else "!(%s)" % t, "B", atom=False)
        raise Shape("comparison: %s" % ast.unparse(node))

    def list_literal(self, node, want):
        if want == "LD" or want == "DA" or (node.elts and all(isinstance(e, ast.Name) and self.env.get(e.id, (0, 0))[1] == "D" for e in node.elts)):
            vs = [self.expr(e, "D") for e in node.elts]
            for e in node.elts:                               # the list holds the arrays too
                if isinstance(e, ast.Name):
                    self.disown(e.id)
            return V("[%s]" % ", ".join(v.t for v in vs), "LD", atom=True)
        vs = [self.expr(e, "S") for e in node.elts]
        return V("[%s]" % ", ".join(v.t for v in vs), "FL", atom=True)

    def attribute(self, node):
        d = dotted(node)
        if d == "np.pi":
            return V("pi", "S")
        if node.attr == "size":
            a = self.expr(node.value, "D")
            return V("npSize %s" % a.a(), "N", atom=False)
        if node.attr == "T":
            a = self.expr(node.value, "M2")
            return V("%s.T" % a.a(), "M2", atom=True)
        r = self.unit.obj_attr(self, node)
        if r is not None:
            return V("%s.%s" % (self.cur(node.value.id).t, node.attr), r, atom=True)
        raise Shape("attribute outside the subset: %s" % ast.unparse(node))

    def subscript(self, node):
        sl = node.slice
        b = {}
        if tm("_X[np.isfinite(_X)]", node, b):
            x = self.expr(b["_X"])
            if x.ty == "XL":
                return V("selectFinite %s" % x.a(), "FL", atom=False)
        if isinstance(sl, ast.Tuple) and len(sl.elts) == 2:
            r, c = sl.elts
            col = const_int(c)
            if isinstance(r, ast.Slice) and r.lower is None and r.upper is None and r.step is None and col is not None:
                a = self.expr(node.value)
                if a.ty == "D" and col in (0, 1):
                    return V("%s %s" % ("colBirth" if col == 0 else "colDeath", a.a()), "FL" if col == 0 else "XL", atom=False)
                if a.ty == "FD" and col in (0, 1):
                    return V("pairsCol%d %s" % (col, a.a()), "FL", atom=False)
                if a.ty == "MT" and col == 2:
                    return V("colDist %s" % a.a(), "FL", atom=False)
                raise Shape("column %d of %s: %s" % (col, lty(a.ty), ast.unparse(node)))
            if col in (0, 1):                                   # A[j, 0]: a row by Python indexing, then its entry
                a = self.expr(node.value)
                j = self.expr(r, "I")
                if a.ty in ("D", "FD"):
                    t = self.bind("pyGet %s %s" % (a.a(), j.a()), "V2", "index")
                    if a.ty == "D" and col == 1:
                        return V("%s.2" % t.t, "XS", atom=True)
                    return V("%s.%d" % (t.t, col + 1), "S", atom=True)
            raise Shape("subscript: %s" % ast.unparse(node))
        if isinstance(sl, ast.Slice):
            raise Shape("subscript: %s" % ast.unparse(node))
        k = const_int(sl)
        a = self.expr(node.value)
        if a.ty == "OLS":
            a = self.coerce(a, "LS")
        if a.ty == "V2" and k in (0, 1):
            return V("%s.%d" % (a.a(), k + 1), "S", atom=True)
        if a.ty == "LS" and k is not None and k >= 0:
            return self.bind("%s[%d]?" % (a.a(), k), "STR", "index")
        if a.ty == "D":                                          # a[mask]
            m = self.expr(sl, "BL")
            return V("maskRows %s %s" % (a.a(), m.a()), "D", atom=False, fresh=True)
        raise Shape("subscript: %s" % ast.unparse(node))

    def fstring(self, node):
        consts, holes = [], []
        for v in node.values:
            if isinstance(v, ast.Constant):
                consts.append(v.value)
            elif isinstance(v, ast.FormattedValue) and v.conversion == -1 and v.format_spec is None:
                holes.append(v.value)
            else:
                raise Shape("f-string: %s" % ast.unparse(node))
        f = FSTRINGS.get(tuple(consts))
        if f is None or len(holes) != 1:
            raise Shape("f-string that is not in the table: %s" % ast.unparse(node))
        return V("%s %s" % (f, self.expr(holes[0], "N").a()), "STR", atom=False)

    def listcomp(self, node):
        b = {}
        g0 = node.generators[0] if len(node.generators) == 1 else None
        if (g0 is not None and not g0.ifs and not g0.is_async and isinstance(g0.target, ast.Name) and isinstance(node.elt, ast.Subscript)
                and isinstance(node.elt.slice, ast.Name) and node.elt.slice.id == g0.target.id and isinstance(node.elt.value, ast.Name)
                and node.elt.value.id != g0.target.id):
            x, l = self.expr(node.elt.value), self.expr(g0.iter)
            if x.ty in ("LD", "LS") and l.ty == "OLI":
                return self.bind("compGet %s (seqOf %s)" % (x.a(), l.a()), x.ty, "index")
            raise Shape("comprehension: %s" % ast.unparse(node))
        if len(node.generators) == 1 and not node.generators[0].ifs and not node.generators[0].is_async:
            g = node.generators[0]
            # [E for i, _ in enumerate(D)]
            if (isinstance(g.target, ast.Tuple) and len(g.target.elts) == 2 and all(isinstance(e, ast.Name) for e in g.target.elts)
                    and g.target.elts[1].id == "_" and tm("enumerate(_D)", g.iter, b)):
                d = self.expr(b["_D"])
                if d.ty not in ("LD", "LS"):
                    raise Shape("enumerate of %s" % lty(d.ty))
                var = g.target.elts[0].id
                saved = dict(self.env)
                self.env[var] = (var, "N", False)
                mark = len(self.pre)
                e = self.expr(node.elt, "STR")
                self.env = saved
                if len(self.pre) != mark:
                    raise Shape("a comprehension element that can raise: %s" % ast.unparse(node))
                return V("(List.range %s.length).map (fun %s => %s)" % (d.a(), var, e.t), "LS", atom=False)
            # [f(x) for x in L]   (one array per array)
            if isinstance(g.target, ast.Name):
                l = self.expr(g.iter)
                if l.ty == "LD":
                    var = g.target.id
                    saved = dict(self.env)
                    self.env[var] = (var, "D", False)
                    mark = len(self.pre)
                    e = self.expr(node.elt, "D")
                    self.env = saved
                    if len(self.pre) != mark:
                        raise Shape("a comprehension element that can raise: %s" % ast.unparse(node))
                    return V("%s.map (fun %s => %s)" % (l.a(), var, e.t), "LD", atom=False, fresh=e.fresh)
        raise Shape("comprehension outside the subset: %s" % ast.unparse(node))

    def call(self, node, want=None):
        f = dotted(node.func)
        b = {}
        if f in ("np.cos", "np.sin") and len(node.args) == 1 and not node.keywords:
            return V("%s %s" % (f[3:], self.expr(node.args[0], "S").a()), "S", atom=False)
        if tm("np.any(np.isinf(_X))", node, b):
            return V("anyIsinf %s" % self.expr(b["_X"], "XL").a(), "B", atom=False)
        if tm("np.isfinite(_X)", node, b):
            return V("isfiniteMask %s" % self.expr(b["_X"], "XL").a(), "BL", atom=False)
        if tm("np.concatenate(_X)", node, b):
            return self.bind("npConcatenate %s" % self.expr(b["_X"], "LD").a(), "D", "value")
        if tm("_X.flatten()", node, b):
            return V("flatten2 %s" % self.expr(b["_X"], "D").a(), "XL", atom=False)
        if tm("np.min(_X)", node, b):
            return self.bind("npMin %s" % self.expr(b["_X"], "FL").a(), "S", "value")
        if tm("np.max(_X)", node, b):
            return self.bind("npMax %s" % self.expr(b["_X"], "FL").a(), "S", "value")
        if tm("np.argmax(_X)", node, b):
            return self.bind("argmax? %s" % self.expr(b["_X"], "FL").a(), "N", "value")
        if tm("len(_X)", node, b):
            x = self.expr(b["_X"])
            if x.ty not in ("LD", "LS", "FL", "MT", "FD"):
                raise Shape("len of %s" % lty(x.ty))
            return V("%s.length" % x.a(), "N", atom=True)
        if tm("int(_X)", node, b):
            x = self.expr(b["_X"], "I")                       # an integer-valued float of a matching row: the identity
            self.conversions.append(self.stmt_text(node))        # pinned with the statement it stands in, in source order
            return x
        if tm("_X.astype(np.float32, copy=True)", node, b):
            return V("astypeF32 cast %s" % self.expr(b["_X"], "D").a(), "D", atom=False, fresh=True)
        if tm("np.asarray(_X, dtype=np.float32)", node, b):      # the caller's array when it already is float32
            return V("astypeF32 cast %s" % self.expr(b["_X"], "D").a(), "D", atom=False, fresh=False)
        if tm("_X.dot(_M)", node, b):
            x, m = self.expr(b["_X"]), self.expr(b["_M"], "M2")
            if x.ty == "D":
                return V("dotRows infv %s %s" % (x.a(), m.a()), "FD", atom=False)
            if x.ty == "V2":
                return V("vecDot %s %s" % (x.a(), m.a()), "V2", atom=False)
            raise Shape("dot of %s" % lty(x.ty))
        if f == "np.array" and len(node.args) == 1 and not node.keywords:
            return self.np_array(node.args[0])
        if isinstance(node.func, ast.Attribute) and node.func.attr == "format" and isinstance(node.func.value, ast.Constant) \
                and node.func.value.value in FORMATS and len(node.args) == 1 and not node.keywords:
            return V("%s %s" % (FORMATS[node.func.value.value], self.expr(node.args[0], "N").a()), "STR", atom=False)
        r = self.unit.obj_call(self, node)
        if r is not None:
            return r
        raise Shape("call outside the subset: %s" % ast.unparse(node))

    def stmt_text(self, node):
        st = self.cur_stmt
        if st is not None and not isinstance(st, (ast.If, ast.For)):
            return ast.unparse(st)
        return ast.unparse(node)

    def np_array(self, arg):
        if isinstance(arg, ast.List) and len(arg.elts) == 2 and all(isinstance(r, ast.List) and len(r.elts) == 2 for r in arg.elts):
            es = [self.expr(e, "S") for r in arg.elts for e in r.elts]
            return V("⟨%s⟩" % ", ".join(e.t for e in es), "M2", atom=True)
        if isinstance(arg, ast.List) and len(arg.elts) == 1 and isinstance(arg.elts[0], ast.List) and len(arg.elts[0].elts) == 2 \
                and all(const_int(e) == 0 for e in arg.elts[0].elts):
            return V("zeroRow", "D", fresh=True)
        if isinstance(arg, ast.List) and len(arg.elts) == 2:
            es = [self.expr(e, "S") for e in arg.elts]
            return V("(%s, %s)" % (es[0].t, es[1].t), "V2", atom=True)
        if isinstance(arg, ast.Name):
            v = self.expr(arg)
            if v.ty == "FD":                                        # np.array(l) of a list of pairs
                self.conversions.append(self.stmt_text(arg))
                return v
        raise Shape("np.array outside the subset: %s" % ast.unparse(arg))

    # --- statements
    def wrap(self, pre, node):
        for p in reversed(pre):
            if p[0] == "bind":
                node = simplify(Bind(p[1], p[3], node, err=(ERR[p[2]] if p[2] else None)))
            else:
                node = Let(p[1], lty(p[2]), p[3], node)
        return node

    def is_effect(self, s):
        """an expression statement that is none of the table's matplotlib calls / nested plotting calls: an effect the model
        does not carry; or an `if` on an opaque parameter whose arms hold nothing but effects"""
        if isinstance(s, ast.Expr) and isinstance(s.value, ast.Call):
            f = s.value.func
            if isinstance(f, ast.Name) and f.id in self.unit.cfgs:
                return False
            if self.obj_receiver(s) is not None:
                return False                       # a method call on a landscape object writes state: never a mere effect
            if isinstance(f, ast.Attribute) and isinstance(f.value, ast.Name):
                h = f.value.id
                handle = h == "plt" or self.env.get(h, (0, 0))[1] == "AX"
                if handle and (f.attr in ARTISTS or (h != "plt" and (f.attr in SETTERS or f.attr in LIMITS or f.attr == "legend"))):
                    return False
            return True
        if isinstance(s, ast.If):
            names = {n.id for n in ast.walk(s.test) if isinstance(n, ast.Name)}
            return bool(names) and names <= self.opaque and all(self.is_effect(x) for x in s.body + s.orelse) and bool(s.body)
        return False

    def obj_receiver(self, s):
        """the python name of the landscape object (raw or computed) that the expression statement `s` calls a method of, or None"""
        if isinstance(s, ast.Expr) and isinstance(s.value, ast.Call) and isinstance(s.value.func, ast.Attribute) \
                and isinstance(s.value.func.value, ast.Name):
            x = s.value.func.value.id
            if self.env.get(x, (0, 0))[1] in OBJECT_TYPES and x not in self.opaque:
                return x
        return None

    def obj_stmt(self, s, go):
        """`landscape.compute_landscape()`: the state transformer; the object gets a new SSA version, of the COMPUTED type.
        Only as a statement of the function body itself: inside an `if` arm or a loop body the new state would not be what the
        statements after the `if` / the loop see (they see the object the Python statement changed in place)."""
        x = self.obj_receiver(s)
        call = s.value
        if call.func.attr != "compute_landscape" or call.args or call.keywords:
            raise Shape("a method call on the landscape object that is not in the table: %s" % ast.unparse(s))
        if "." in self.unit.paths[id(s)] or getattr(self, "in_round", False):
            raise Shape("`%s` inside an `if` / a loop: the state it writes is read by the statements after it" % ast.unparse(s))
        v = self.cur(x)
        ty = COMPUTED[v.ty]
        name = self.define(x, ty)
        return Let(name, lty(ty), "%s.compute_landscape" % v.a(), go())

    def block(self, stmts, cont):
        if not stmts:
            return cont()
        s, rest = stmts[0], stmts[1:]
        go = lambda: self.block(rest, cont)    # noqa: E731
        self.pre = []
        self.cur_stmt = s
        if isinstance(s, ast.Pass):
            return go()
        if self.obj_receiver(s) is not None:
            return self.obj_stmt(s, go)
        if self.is_effect(s):
            # pinned with its position: the path of the statement in the function body and the number of names the translation
            # has bound before it (every translated statement binds at least one: moving the effect across one changes the pin)
            self.effects.append("[%s|%d] %s" % (self.unit.paths[id(s)], self.ndefs, ast.unparse(s)))
            return go()
        if is_inplace_stmt(s):
            return self.inplace_stmt(s, go)
        if isinstance(s, ast.Assign) and len(s.targets) == 1:
            return self.assign(s, go)
        if isinstance(s, ast.If):
            return self.if_(s, rest, cont)
        if isinstance(s, ast.For):
            return self.for_(s, go)
        if isinstance(s, ast.Expr) and isinstance(s.value, ast.Call):
            return self.expr_stmt(s.value, go)
        if isinstance(s, ast.Return):
            return self.return_(s)
        if isinstance(s, ast.Continue):
            return self.continue_()
        raise Shape("statement outside the subset: %s" % ast.unparse(s).split("\n")[0])

    def return_(self, s):
        # `return ax` of the landscape plots: the value of a plotting function is the state of the figure
        if s.value is not None and not (isinstance(s.value, ast.Name) and self.env.get(s.value.id, (0, 0))[1] == "AX"):
            raise Shape("return of something that is not the axes: %s" % ast.unparse(s))
        if s.value is not None:
            self.unit.returns.setdefault(self.cfg["func"], []).append(ast.unparse(s))
        return self.finish()

    def finish(self):
        return Ret(self.cur("__fig").t)

    def continue_(self):
        if not getattr(self, "in_round", False):
            raise Shape("continue outside a loop")
        return self.round_cont()

    def assign(self, s, go):
        tgt, val = s.targets[0], s.value
        b = {}
        # ax = ax or plt.gca(): the definition of the handle
        if isinstance(tgt, ast.Name) and tm("_A or plt.gca()", val, b) and isinstance(b["_A"], ast.Name) \
                and b["_A"].id == tgt.id and self.env.get(tgt.id, (0, 0))[1] == "AX":
            v = self.cur(tgt.id)
            return Let(self.define(tgt.id, "AX"), "Axes", v.t, go())
        if isinstance(tgt, ast.Name):
            # a bare non-negative integer constant bound to a name is a `Nat` (a line width); where a float is computed with, the numeral
            v = self.expr(val, "N" if (isinstance(val, ast.Constant) and type(val.value) is int) else None)
            if v.ty in OBJECT_TYPES:
                raise Shape("a second name for the landscape object (its state is written in place): %s" % ast.unparse(s))
            if isinstance(val, ast.Name) and v.ty in MUTABLE:     # a second name for the same array / list: nobody owns it any more
                self.disown(val.id)
                v.fresh = False
            pre = self.pre
            if pre and pre[-1][0] == "bind" and pre[-1][3] == v.t and v.atom:
                self.used.discard(v.t)                      # the temporary is not used: the target's own name binds the result
                name = self.define(tgt.id, v.ty, v.fresh)
                pre[-1] = ("bind", pre[-1][1], pre[-1][2], name)
                return self.wrap(pre, go())
            name = self.define(tgt.id, v.ty, v.fresh)
            return self.wrap(pre, Let(name, lty(v.ty), v.t, go()))
        if isinstance(tgt, ast.Tuple) and all(isinstance(e, ast.Name) for e in tgt.elts):
            if isinstance(val, ast.Tuple) and len(val.elts) == len(tgt.elts):
                vs = [self.expr(e) for e in val.elts]         # all right-hand sides first, in the old environment
                if any(v.ty in OBJECT_TYPES for v in vs):
                    raise Shape("a second name for the landscape object (its state is written in place): %s" % ast.unparse(s))
                for e, v in zip(val.elts, vs):
                    if isinstance(e, ast.Name) and v.ty in MUTABLE:
                        self.disown(e.id)
                        v.fresh = False
                pre = self.pre
                lets = [(self.define(e.id, v.ty, v.fresh), v.ty, v.t) for e, v in zip(tgt.elts, vs)]
            else:
                v = self.expr(val)
                pre = self.pre
                if v.ty != "XY" or len(tgt.elts) != 4:
                    raise Shape("tuple assignment: %s" % ast.unparse(s))
                projs = ["%s.1" % v.a(), "%s.2.1" % v.a(), "%s.2.2.1" % v.a(), "%s.2.2.2" % v.a()]
                lets = [(self.define(e.id, "S"), "S", p) for e, p in zip(tgt.elts, projs)]
            node = go()
            for n, ty, tx in reversed(lets):
                node = Let(n, lty(ty), tx, node)
            return self.wrap(pre, node)
        raise Shape("assignment: %s" % ast.unparse(s))

    # styling arguments of a matplotlib call, as values
    def style_val(self, node):
        if isinstance(node, ast.Constant) and type(node.value) is str:
            return ".str %s" % lean_str(node.value)
        if isinstance(node, ast.Constant) and type(node.value) is int and node.value >= 0:
            return ".num %d" % node.value
        if isinstance(node, ast.Name):
            if node.id in self.opaque:
                return ".param %s" % lean_str(node.id)
            v = self.cur(node.id)
            if v.ty == "STR":
                return ".str %s" % v.t
            if v.ty == "N":
                return ".num %s" % v.t
        raise Shape("styling argument outside the subset: %s" % ast.unparse(node))

    def mpl(self, pos, kws):
        return "⟨[%s], [%s]⟩" % (", ".join(self.style_val(p) for p in pos),
                                 ", ".join("(%s, %s)" % (lean_str(k.arg), self.style_val(k.value)) for k in kws))

    def handle(self, name):
        if name == "plt":
            return "Axes.current"
        return self.cur(name).t

    def expr_stmt(self, call, go):
        f = call.func
        if isinstance(f, ast.Name):
            return self.call_plot(call, go)
        h, m = f.value.id, f.attr
        fig = self.cur("__fig")
        if any(k.arg is None for k in call.keywords):
            raise Shape("`**` in a matplotlib call: %s" % ast.unparse(call))
        if m in ARTISTS:
            if len(call.args) < 2:
                raise Shape("artist call: %s" % ast.unparse(call))
            xs, ys = self.expr(call.args[0], "FL"), self.expr(call.args[1], "FL")
            label = "none"
            for k in call.keywords:
                if k.arg == "label":
                    label = "some %s" % self.expr(k.value, "STR").a()
            st = self.mpl(call.args[2:], [k for k in call.keywords if k.arg != "label"])
            if m == "plot":
                art = "SArtist.line %s %s %s %s %s" % (self.handle(h), xs.a(), ys.a(), st, atomise(label))
            else:
                art = "SArtist.scatter %s (offsets %s %s) %s %s" % (self.handle(h), xs.a(), ys.a(), st, atomise(label))
            text = "%s.add (%s)" % (fig.t, art)
        elif m in LIMITS:
            if len(call.args) != 1 or call.keywords or not (isinstance(call.args[0], ast.List) and len(call.args[0].elts) == 2):
                raise Shape("limits: %s" % ast.unparse(call))
            a, b = [self.expr(e, "S") for e in call.args[0].elts]
            text = "%s.%s %s %s %s" % (fig.t, m, self.handle(h), a.a(), b.a())
        elif m in SETTERS:
            if len(call.args) != 1 or call.keywords:
                raise Shape("setter: %s" % ast.unparse(call))
            text = "%s.%s %s %s" % (fig.t, m, self.handle(h), self.expr(call.args[0], "STR").a())
        elif m == "legend":
            text = "%s.set_legend %s %s" % (fig.t, self.handle(h), self.mpl(call.args, call.keywords))
        else:
            raise Shape("internal: matplotlib call")
        pre = self.pre
        name = self.define("__fig", "FIG")
        return self.wrap(pre, Let(name, "SFig α", text, go()))

    def call_plot(self, call, go):
        """a nested call of a translated plotting function: arguments bound against its `def`, defaults from its `def`"""
        callee = self.unit.cfgs[call.func.id]
        fn = self.unit.fns.get(callee["func"])
        if fn is None or callee["func"] == self.cfg["func"]:
            raise Shape("call of %s" % call.func.id)
        names = [a.arg for a in fn.args.args]
        defaults = dict(zip(names[len(names) - len(fn.args.defaults):], fn.args.defaults))
        got = {}
        if len(call.args) > len(names) or any(k.arg is None or k.arg not in names for k in call.keywords):
            raise Shape("call of %s: %s" % (callee["func"], ast.unparse(call)))
        for n, a in zip(names, call.args):
            got[n] = a
        for k in call.keywords:
            if k.arg in got:
                raise Shape("call of %s: %s" % (callee["func"], ast.unparse(call)))
            got[k.arg] = k.value
        args = []
        ax = "Axes.current"
        for n, ty in callee["params"]:
            if ty == "opaque":
                if n in got:
                    raise Shape("the opaque parameter `%s` of %s is passed explicitly" % (n, callee["func"]))
                continue
            if ty == "AX":
                if n in got:
                    ax = self.expr(got[n], "AX").t
                continue
            if n in got:
                args.append(self.expr(got[n], ty).a())
            elif n in defaults:
                args.append(self.default_value(defaults[n], ty))
            else:
                raise Shape("call of %s without `%s`" % (callee["func"], n))
        if self.pre:
            raise Shape("an argument of a nested plotting call that can raise")
        lead = " ".join(n for n, _ in callee["lead"])
        for n, _ in callee["lead"]:
            if n not in [x for x, _ in self.cfg["lead"]]:
                raise Shape("internal: lead parameter %s" % n)
        if callee["lean"] not in self.callees:
            self.callees.append(callee["lean"])
        text = " ".join(x for x in [callee["lean"], lead, ax, self.cur("__fig").t] + args if x)
        name = self.define("__fig", "FIG")
        return simplify(Bind(text, name, go()))

    def default_value(self, node, ty):
        if isinstance(node, ast.Constant) and node.value is None:
            if ty in OPTION_PAYLOAD:
                return "none"
            if ty == "LBL":
                return "Labels.default"
        if isinstance(node, ast.Constant) and type(node.value) is bool and ty == "B":
            return "true" if node.value else "false"
        raise Shape("default value %s of a parameter of type %s" % (ast.unparse(node), lty(ty)))

    # --- if
    def if_idiom(self, s):
        """the `if`s that normalise an argument of several Python types: (python name, new type, Lean text) or None"""
        if s.orelse or len(s.body) != 1 or not isinstance(s.body[0], ast.Assign) or len(s.body[0].targets) != 1:
            return None
        tgt, val = s.body[0].targets[0], s.body[0].value
        if not isinstance(tgt, ast.Name) or tgt.id not in self.env:
            return None
        x, ty = tgt.id, self.env[tgt.id][1]
        b = {}
        if ty == "DA" and tm("not isinstance(_X, list)", s.test, b) and dotted(b["_X"]) == x \
                and tm("[_X]", val, b) and dotted(b["_X"]) == x:
            return x, "LD", "listOfArg %s" % self.cur(x).t
        b = {}
        if ty == "LBL" and tm("_X is None", s.test, b) and dotted(b["_X"]) == x:
            e = self.expr(val, "LS")
            if self.pre:
                raise Shape("a default that can raise: %s" % ast.unparse(val))
            return x, "SL", "labelsOrElse %s %s" % (self.cur(x).t, e.a())
        b = {}
        if ty == "OLN" and tm("not _X", s.test, b) and dotted(b["_X"]) == x and tm("range(_E)", val, b):
            e = self.expr(b["_E"], "Z")
            if self.pre:
                raise Shape("a default that can raise: %s" % ast.unparse(val))
            return x, "LN", "rangeOr %s %s" % (self.cur(x).t, e.a())
        b = {}
        if ty == "SL" and tm("not isinstance(_X, list)", s.test, b) and dotted(b["_X"]) == x \
                and tm("[_X] * len(_D)", val, b) and dotted(b["_X"]) == x:
            d = self.expr(b["_D"])
            if d.ty not in ("LD", "LS"):
                raise Shape("len of %s" % lty(d.ty))
            return x, "LS", "broadcastStr %s %s.length" % (self.cur(x).t, d.a())
        return None

    def test(self, t):
        """("bool", Lean text) | ("opt", python name, payload type, True when the BODY is the `some` arm)"""
        neg = False
        inner = t
        if isinstance(t, ast.UnaryOp) and isinstance(t.op, ast.Not):
            neg, inner = True, t.operand
        if isinstance(inner, ast.Name) and inner.id in self.env and inner.id not in self.opaque:
            ty = self.env[inner.id][1]
            if ty == "OXY":
                # truthiness, not `is None`: the scrutinee is `truthyVal x` (the model's type has no falsy value but `None`)
                return ("opt", inner.id, OPTION_PAYLOAD[ty], not neg, "truthyVal %s")
            if ty in ("OLI", "OLN", "OLS"):
                c = "truthy %s" % self.cur(inner.id).t
                return ("bool", "!(%s)" % c if neg else c)
            if ty == "OSTR":
                c = "truthyStr %s" % self.cur(inner.id).t
                return ("bool", "!(%s)" % c if neg else c)
        if isinstance(t, ast.Compare) and len(t.ops) == 1 and isinstance(t.ops[0], (ast.Is, ast.IsNot)) \
                and isinstance(t.comparators[0], ast.Constant) and t.comparators[0].value is None and isinstance(t.left, ast.Name) \
                and self.env.get(t.left.id, (0, 0))[1] in OPTION_PAYLOAD:
            return ("opt", t.left.id, OPTION_PAYLOAD[self.env[t.left.id][1]], isinstance(t.ops[0], ast.IsNot))
        if isinstance(inner, ast.Attribute) and inner.attr == "size":
            v = self.expr(inner, "N")
            return ("bool", "%s %s 0" % (v.a(), "==" if neg else "!="))
        v = self.expr(t, "B")
        if self.pre:
            raise Shape("a test that can raise: %s" % ast.unparse(t))
        return ("bool", v.t)

    def tuple_text(self, vs):
        return vs[0].t if len(vs) == 1 else "(%s)" % ", ".join(v.t for v in vs)

    def if_(self, s, rest, cont):
        idi = self.if_idiom(s)
        if idi is not None:
            x, ty, text = idi
            name = self.define(x, ty)
            return Let(name, lty(ty), text, self.block(rest, cont))
        t = self.test(s.test)
        env0 = dict(self.env)

        def setup(arm_is_body):
            self.env = dict(env0)
            if t[0] == "opt" and (arm_is_body == t[3]):
                payload = self.fresh(t[1])
                self.env[t[1]] = (payload, t[2], False)
                return payload
            return None

        def mk(a, b, pa, pb):
            if t[0] == "bool":
                return Ite(t[1], a, b)
            scrut = env0[t[1]][0] if len(t) < 5 else t[4] % env0[t[1]][0]
            return OptMatch(scrut, pa or "_", b, a) if t[3] else OptMatch(scrut, pb or "_", a, b)

        ta, tb = terminates(s.body), terminates(s.orelse)
        if ta or tb:
            pa = setup(True)
            a = self.block(s.body + ([] if ta else rest), cont)
            env_a = self.env
            pb = setup(False)
            b = self.block(s.orelse + ([] if tb else rest), cont)
            if not ta:
                self.env = env_a
            return mk(a, b, pa, pb)
        assigned = assigned_names(s.body + s.orelse)
        both = top_assigned(s.body) & top_assigned(s.orelse)
        names = [n for n in assigned if n in env0 or n in both]
        names = [n for n in names if not n.startswith("__")] + [n for n in names if n.startswith("__")]
        if not names:
            raise Shape("an `if` that assigns nothing that is used later: %s" % ast.unparse(s.test))

        def arm(stmts, arm_is_body):
            p = setup(arm_is_body)
            node = self.block(stmts, lambda: Ret(self.tuple_text([self.cur(n) for n in names])))
            return node, [(self.env[n][1], self.env[n][2]) for n in names], p
        a, tya, pa = arm(s.body, True)
        b, tyb, pb = arm(s.orelse, False)
        if [lty(x[0]) for x in tya] != [lty(x[0]) for x in tyb]:
            raise Shape("the arms of an `if` give different types to %s" % names)
        self.env = dict(env0)
        tys = [x[0] for x in tya]
        fr = [x[1] and y[1] for x, y in zip(tya, tyb)]
        jty = tys[0] if len(names) == 1 else tuple(tys)
        join = mk(a, b, pa, pb)
        single = len(names) == 1
        jname = self.define(names[0], tys[0], fr[0]) if single else self.fresh("j")
        lets = []
        if not single:
            for k, n in enumerate(names):
                proj = jname + ".2" * k + (".1" if k < len(names) - 1 else "")
                lets.append((self.define(n, tys[k], fr[k]), tys[k], proj))
        node = self.block(rest, cont)
        for n, ty, tx in reversed(lets):
            node = Let(n, lty(ty), tx, node)
        if not can_raise(join):
            return LetJoin(jname, lty(jty), join, node)
        return simplify(Bind((join, lty(jty, True)), jname, node))

    # --- for
    def inplace(self, st, var):
        """an in-place update of the array `var`: Lean text of the updated array, or None"""
        b = {}
        if isinstance(st, ast.AugAssign) and isinstance(st.op, ast.Sub) and tm("_X[:, 1]", st.target_load, b) \
                and dotted(b["_X"]) == var and tm("_X[:, 0]", st.value, b) and dotted(b["_X"]) == var:
            return "colSubInPlace %s" % self.cur(var).t
        b = {}
        if isinstance(st, ast.Assign) and len(st.targets) == 1 and tm("_X[np.isinf(_X)]", st.targets_load, b) \
                and dotted(b["_X"]) == var:
            e = self.expr(st.value, "S")
            return "setWhereInf %s %s" % (self.cur(var).t, e.a())
        return None

    def inplace_stmt(self, s, go):
        """an in-place update of a local array outside the `for x in L:` form: the ONE name gets the new value; accepted only for
        an array this function created (nobody else holds it)"""
        t = s.target if isinstance(s, ast.AugAssign) else s.targets[0]
        var = dotted(t.value)
        if var is None or self.env.get(var, (0, 0))[1] != "D":
            raise Shape("in-place update outside the subset: %s" % ast.unparse(s))
        if not self.env[var][2]:
            raise Shape("in-place update of an array that this function did not create (`%s`)" % var)
        upd = self.inplace(mark_load(s), var)
        if upd is None:
            raise Shape("in-place update outside the table: %s" % ast.unparse(s))
        pre = self.pre
        name = self.define(var, "D", True)
        self.mutated.append(var)
        return self.wrap(pre, Let(name, lty("D"), upd, go()))

    def for_(self, s, go):
        if s.orelse:
            raise Shape("for … else")
        # (a) for x in L: <in-place update of x>
        if isinstance(s.target, ast.Name) and isinstance(s.iter, ast.Name) and len(s.body) == 1 \
                and self.env.get(s.iter.id, (0, 0))[1] == "LD" and is_inplace_stmt(s.body[0]):
            l = self.cur(s.iter.id)
            if not l.fresh:
                raise Shape("in-place update of arrays that this function did not create (`%s`): the caller's arrays would change"
                            % s.iter.id)
            var = s.target.id
            saved = dict(self.env)
            self.env[var] = (var, "D", True)
            upd = self.inplace(mark_load(s.body[0]), var)
            self.env = saved
            if upd is None or self.pre:
                raise Shape("in-place update outside the table: %s" % ast.unparse(s.body[0]))
            name = self.define(s.iter.id, "LD", True)
            return Let(name, lty("LD"), "%s.map (fun %s => %s)" % (l.a(), var, upd), go())
        # (b) foldlM of a round
        items, item_ty, binds, sources = self.loop_items(s)
        if self.pre:
            raise Shape("a loop over something that can raise")
        self.unit.nrounds[self.cfg["func"]] = self.unit.nrounds.get(self.cfg["func"], 0) + 1
        k = self.unit.nrounds[self.cfg["func"]]
        rname = "%s_round%s" % (self.cfg["lean"], "" if k == 1 else "_%d" % k)
        body_assigned = assigned_names(s.body)
        targets = [b0[0] for b0 in binds]
        carried = [n for n in self.env if n in body_assigned and n not in targets]
        carried = [n for n in carried if not n.startswith("__")] + [n for n in carried if n.startswith("__")]
        if not carried:
            raise Shape("a loop that changes nothing")
        used = {n.id for st in s.body for n in ast.walk(st) if isinstance(n, ast.Name)}
        closure = [n for n in self.env if n not in carried and n not in targets and n in used and not n.startswith("__")
                   and n not in self.opaque]
        sub = Fn(self.unit, self.cfg)
        sub.rounds, sub.round_names = self.rounds, self.round_names
        sub.in_round = True
        sub.used |= {n for n, _ in self.cfg["lead"]} | set(FIXED_BINDERS)
        for n in closure:
            ln = self.env[n][0]
            sub.env[n] = (ln, self.env[n][1], False)
            sub.used.add(ln)
        heads = [sub.define(n, self.env[n][1], self.env[n][2]) for n in carried]
        ctys = [self.env[n][1] for n in carried]
        cty = ctys[0] if len(carried) == 1 else tuple(ctys)
        sub.round_cont = lambda: Ret(sub.tuple_text([sub.cur(n) for n in carried]))
        lets = []
        for (py, ty, proj, fresh) in binds:
            lets.append((sub.define(py, ty, fresh), ty, proj))
        body = sub.block(list(s.body), sub.round_cont)
        for n, ty, tx in reversed(lets):
            body = Let(n, lty(ty), tx, body)
            body.exempt = True                      # the loop target
        live(body)
        if sub.callees:
            raise Shape("a nested plotting call inside a loop")
        # an in-place update of an item changes the array in the list as well: the list is not read again (value semantics)
        for py in sub.mutated:
            for (tp, _, _, _), src in zip(binds, sources):
                if tp == py and src is not None and src in self.env:
                    del self.env[src]
        lead_b = " ".join("(%s : %s)" % (n, t) for n, t in self.cfg["lead"])
        lead_a = " ".join(n for n, _ in self.cfg["lead"])
        cl_b = " ".join("(%s : %s)" % (self.env[n][0], lty(self.env[n][1])) for n in closure)
        cl_a = " ".join(self.env[n][0] for n in closure)
        if len(carried) == 1:
            acc_b = "(%s : %s)" % (heads[0], lty(cty))
            pro = []
        else:
            acc_b = "(acc : %s)" % lty(cty)
            pro = ["  let %s : %s := acc%s" % (h, lty(t), ".2" * i + (".1" if i < len(heads) - 1 else ""))
                   for i, (h, t) in enumerate(zip(heads, ctys))]
        text = ["/-- one round of `for %s in %s` (the names its body only reads, what it re-assigns, the item) -/"
                % (re.sub(r"^\((.*)\)$", r"\1", ast.unparse(s.target)), ast.unparse(s.iter)),
                "def %s %s : Except Err %s :=" % (rname, " ".join(x for x in [lead_b, cl_b, acc_b, "(it : %s)" % lty(item_ty)] if x),
                                                   lty(cty, True))]
        text += pro + render(body, "  ")
        acc_a = heads[0] if len(carried) == 1 else "acc"
        self.rounds.append({"name": rname, "binders": " ".join(x for x in [lead_b, cl_b, acc_b, "(it : %s)" % lty(item_ty)] if x),
                            "args": " ".join(x for x in [lead_a, cl_a, acc_a, "it"] if x), "text": "\n".join(text),
                            "callees": sub.callees})
        self.round_names.append(rname)
        init = self.tuple_text([self.cur(n) for n in carried])
        call = "%s.foldlM (%s) %s" % (atomise(items), " ".join(x for x in [rname, lead_a, cl_a] if x), atomise(init))
        if len(carried) == 1:
            name = self.define(carried[0], ctys[0], self.env[carried[0]][2])
            return simplify(Bind(call, name, go()))
        r = self.fresh("r")
        lets = []
        for i, n in enumerate(carried):
            proj = r + ".2" * i + (".1" if i < len(carried) - 1 else "")
            lets.append((self.define(n, ctys[i], self.env[n][2]), ctys[i], proj))
        node = go()
        for n, ty, tx in reversed(lets):
            node = Let(n, lty(ty), tx, node)
        return Bind(call, r, node)

    def loop_items(self, s):
        """(Lean text of the list iterated over, type of an item, [(python name, type, projection of `it`, fresh)])"""
        b = {}
        tgt = s.target

        def row(prefix, t):
            if not (isinstance(t, (ast.List, ast.Tuple)) and len(t.elts) == 3 and all(isinstance(e, ast.Name) for e in t.elts)):
                raise Shape("loop target: %s" % ast.unparse(s.target))
            i, j, d = [e.id for e in t.elts]
            return [(i, "I", prefix + ".1", False), (j, "I", prefix + ".2.1", False), (d, "S", prefix + ".2.2", False)]
        if tm("zip(_A, _B)", s.iter, b) and isinstance(tgt, ast.Tuple) and len(tgt.elts) == 2 \
                and all(isinstance(e, ast.Name) for e in tgt.elts):
            x, y = self.expr(b["_A"], "LD"), self.expr(b["_B"], "LS")
            return ("List.zip %s %s" % (x.a(), y.a()), ("D", "STR"),
                    [(tgt.elts[0].id, "D", "it.1", x.fresh), (tgt.elts[1].id, "STR", "it.2", False)],
                    [b["_A"].id if isinstance(b["_A"], ast.Name) else None, None])
        if tm("enumerate(_A)", s.iter, b) and isinstance(tgt, ast.Tuple) and len(tgt.elts) == 2 \
                and isinstance(tgt.elts[0], ast.Name):
            x = self.expr(b["_A"])
            if x.ty == "MT":
                return ("pyEnumerate %s" % x.a(), ("N", "ROW"), [(tgt.elts[0].id, "N", "it.1", False)] + row("it.2", tgt.elts[1]),
                        [None] * 4)
            r = self.unit.obj_iter(self, x, tgt)
            if r is not None:
                return r
            raise Shape("enumerate of %s" % lty(x.ty))
        x = self.expr(s.iter)
        if x.ty == "MT":
            return (x.t, "ROW", row("it", tgt), [None] * 3)
        raise Shape("loop: for %s in %s" % (ast.unparse(s.target), ast.unparse(s.iter)))


def is_inplace_stmt(st):
    if isinstance(st, ast.AugAssign) and isinstance(st.target, ast.Subscript):
        return True
    return isinstance(st, ast.Assign) and len(st.targets) == 1 and isinstance(st.targets[0], ast.Subscript)


def mark_load(st):
    """the statement with its subscript target also available in Load context (for template matching)"""
    import copy
    t = st.target if isinstance(st, ast.AugAssign) else st.targets[0]
    tl = copy.deepcopy(t)
    for n in ast.walk(tl):
        if hasattr(n, "ctx"):
            n.ctx = ast.Load()
    if isinstance(st, ast.AugAssign):
        st.target_load = tl
    else:
        st.targets_load = tl
    return st


# ----------------------------------------------------------------------------- the files

KEY = "plot"
PYFILE = "persim/visuals.py"
PYFILE_L = "persim/landscapes/visuals.py"
FILES = {KEY: (PYFILE, "SrcPlot.lean", "PersimVerif.Src.visuals",
               "PersimVerif.Model.Plot\nimport PersimVerif.Lemmas.SrcLibPlot\nimport PersimVerif.Lemmas.SrcBridgePlot", "C20",
               "PersimVerif.Plot PersimVerif.SrcPlot")}
BRIDGES = ["PersimVerif/Lemmas/SrcLibPlot.lean", "PersimVerif/Lemmas/SrcBridgePlot.lean"]
COMPOSED = ["PersimVerif/Lemmas/SrcPlotPublic.lean"]         # hand-written, imports the generated file and Props/C20.lean
REF = "PersimVerif.SrcBridge.Plot.Ref"
BR = "PersimVerif.SrcBridge.Plot"

VARIABLES = ("variable {α : Type} [Add α] [Sub α] [Mul α] [Div α] [Neg α] [Zero α] [OfNat α 1] [OfNat α 2] [OfNat α 4] [OfNat α 5]\n"
             "  [OfNat α 19] [OfNat α 20] [Min α] [Max α] [LT α] [DecidableLT α]")

from .py2lean_plot_tables import TARGETS, BINDINGS, SIGNATURES, EFFECTS, CONVERSIONS, RETURNS, MODULE_SKELETON, PINNED_FUNCTIONS  # noqa: E402


class Unit:
    def __init__(self, path, src, tree):
        self.path, self.src, self.tree = path, src, tree
        self.fns = {n.name: n for n in tree.body if isinstance(n, ast.FunctionDef)}
        self.cfgs = {c["func"]: c for c in TARGETS if c["pyfile"] == path}
        self.effects, self.conversions, self.returns, self.nrounds = {}, {}, {}, {}
        # every identifier that occurs in a function (names, parameters, attribute names, keyword names): never an SSA name
        self.idents = {}
        for name, fn in self.fns.items():
            ids = set()
            for n in ast.walk(fn):
                if isinstance(n, ast.Name):
                    ids.add(n.id)
                elif isinstance(n, ast.arg):
                    ids.add(n.arg)
                elif isinstance(n, ast.Attribute):
                    ids.add(n.attr)
                elif isinstance(n, ast.keyword) and n.arg:
                    ids.add(n.arg)
            self.idents[name] = ids
        self.locals = {name: {n.id for n in ast.walk(fn) if isinstance(n, ast.Name)} | {a.arg for a in ast.walk(fn) if isinstance(a, ast.arg)}
                       for name, fn in self.fns.items()}

    # hooks for the landscape objects (see `objects` in the tables)
    def obj_attr(self, tr, node):
        """an attribute of a landscape object: of the object in the state it has WHERE THE STATEMENT STANDS (before
        `compute_landscape()`: what is stored)"""
        if isinstance(node.value, ast.Name) and tr.env.get(node.value.id, (0, 0))[1] in OBJECT_TYPES:
            ty = tr.env[node.value.id][1]
            return OBJECTS[COMPUTED.get(ty, ty)]["attrs"].get(node.attr)
        return None

    def obj_call(self, tr, node):
        b = {}
        if tm("np.linspace(_A, _B, num=len(_L))", node, b):
            l = tr.expr(b["_L"])
            if l.ty != "FL":
                raise Shape("len of %s" % lty(l.ty))
            return V("linspace natCast %s %s %s.length" % (tr.expr(b["_A"], "S").a(), tr.expr(b["_B"], "S").a(), l.a()), "FL", atom=False)
        return None

    def obj_iter(self, tr, x, tgt):
        if x.ty in COMPUTED and x.ty not in OBJECTS:
            raise Shape("iteration over a landscape object before its `compute_landscape()` statement (`__getitem__` computes it "
                        "lazily and writes its state: not modelled)")
        if x.ty in OBJECTS and isinstance(tgt.elts[1], ast.Name):
            item = OBJECTS[x.ty]["item"]
            return ("pyEnumerate %s.depths" % x.a(), ("N", item),
                    [(tgt.elts[0].id, "N", "it.1", False), (tgt.elts[1].id, item, "it.2", False)], [None, None])
        return None

    def translate(self, cfg):
        fn = self.fns.get(cfg["func"])
        if fn is None:
            raise Shape("function %s not found" % cfg["func"])
        a = fn.args
        if a.vararg or a.kwarg or a.kwonlyargs or a.posonlyargs:
            raise Shape("parameters of %s" % fn.name)
        names = [x.arg for x in a.args]
        if names != [p for p, _ in cfg["params"]]:
            raise Shape("parameters of %s: %s" % (fn.name, names))
        body = strip_doc(fn.body)
        for n in ast.walk(fn):
            if isinstance(n, (ast.Global, ast.Nonlocal, ast.Lambda, ast.FunctionDef, ast.While, ast.With, ast.Delete, ast.Try,
                              ast.Raise)) and n is not fn:
                raise Shape("%s in %s" % (type(n).__name__, fn.name))
        self.effects[cfg["func"]], self.conversions[cfg["func"]], self.returns[cfg["func"]] = [], [], []
        self.nrounds[cfg["func"]] = 0
        self.paths = {}
        index_paths(body, [], self.paths)
        tr = Fn(self, cfg)
        tr.used |= {n for n, _ in cfg["lead"]} | set(FIXED_BINDERS)
        clash = sorted((self.locals[cfg["func"]] - {p for p, _ in cfg["params"]}) & (RESERVED | {n for n, _ in cfg["lead"]}))
        if clash:
            raise Shape("identifiers of the function that are names of the translator's library / fixed binders: %s" % clash)
        for p, ty in cfg["params"]:
            if ty == "AX":
                tr.env[p] = (p, "AX", False)
                tr.used.add(p)
        tr.env["__fig"] = ("fig", "FIG", False)
        tr.used.add("fig")
        for p, ty in cfg["params"]:
            if ty not in ("opaque", "AX"):
                tr.env[p] = (p, ty, False)
                tr.used.add(p)
        node = tr.block(body, tr.finish)
        live(node)
        allb, alla = def_binders(cfg)
        text = ("/-- `%s`, statement by statement: the state of the figure after the call (`.error`: the source raises) -/\n"
                "def %s %s :\n    Except Err (SFig α) :=\n%s" % (cfg["func"], cfg["lean"], allb, "\n".join(render(node, "  "))))
        return {"defs": tr.rounds + [{"name": cfg["lean"], "binders": allb, "args": alla, "text": text, "callees": tr.callees}]}


def def_binders(cfg):
    """(binder text, argument text) of the generated definition of a target: lead parameters, the axes handle, the state of the
    figure, then the Python parameters that are not opaque, in the order of the `def`"""
    axp = [p for p, ty in cfg["params"] if ty == "AX"]
    if len(axp) != 1:
        raise Shape("internal: the axes parameter of %s" % cfg["func"])
    ps = [(p, ty) for p, ty in cfg["params"] if ty not in ("opaque", "AX")]
    lead_b = " ".join("(%s : %s)" % (n, t) for n, t in cfg["lead"])
    lead_a = " ".join(n for n, _ in cfg["lead"])
    allb = " ".join(x for x in [lead_b, "(%s : Axes)" % axp[0], "(fig : SFig α)"] + ["(%s : %s)" % (p, lty(ty)) for p, ty in ps] if x)
    alla = " ".join(x for x in [lead_a, axp[0], "fig"] + [p for p, _ in ps] if x)
    return allb, alla


def stub(cfg):
    allb, alla = def_binders(cfg)
    return ("/-- stands for the unreadable `%s` in the definitions that call it: the reviewed text (their obligations are judged on\n"
            "    their own lines; `srcShape_%s_recognised` above is the broken obligation) -/\n"
            "def %s %s :\n    Except Err (SFig α) :=\n  %s.%s %s" % (cfg["func"], cfg["lean"], cfg["lean"], allb, REF, cfg["lean"],
                                                                      " ".join(list(cfg.get("calls", [])) + [alla])))


# the landscape objects: the attributes the plots read, the type of an item of `enumerate(landscape)`
OBJECTS = {"LE": {"attrs": {"max_depth": "Z"}, "item": "FD"},
           "LA": {"attrs": {"max_depth": "Z", "start": "S", "stop": "S"}, "item": "FL"}}
# the type of the object after `.compute_landscape()`; `LE0` / `LA0`: the object as it is passed in (possibly built with compute=False)
COMPUTED = {"LE0": "LE", "LA0": "LA", "LE": "LE", "LA": "LA"}
OBJECT_TYPES = set(COMPUTED)


def index_paths(stmts, prefix, out):
    """id(statement) -> its path in the function body: `3`, `5.then.0`, `5.else.1`, `7.for.2`"""
    for k, st in enumerate(stmts):
        p = prefix + [str(k)]
        out[id(st)] = ".".join(p)
        if isinstance(st, ast.If):
            index_paths(st.body, p + ["then"], out)
            index_paths(st.orelse, p + ["else"], out)
        elif isinstance(st, (ast.For, ast.While, ast.With, ast.Try)):
            index_paths(st.body, p + ["for"], out)


HEADER = (
    "import %s\n"
    "/-!\n"
    "GENERATED by harness/translator/py2lean.py (plot engine py2lean_plot.py) from %s and\n%s — do not edit; rewritten on every run (`pre_build` of C20).\n\n"
    "Each `def` below is the Python source translated STATEMENT BY STATEMENT (`ast`): `plot_diagrams`, `bottleneck_matching`,\n"
    "`wasserstein_matching`, `plot_landscape_exact_simple`, `plot_landscape_approx_simple`.  Obligations:\n"
    "  * `src_<def>_eq_ref`: every generated definition equals the reviewed Lean text of the same shape in\n"
    "    Lemmas/SrcBridgePlot.lean (`Ref.*`, which takes the translated plotting functions it calls as parameters) by `rfl`, so an\n"
    "    edit of a translated line -- other than a renaming of locals or a reordering the `let`s absorb -- breaks the obligation of\n"
    "    the definition it lands in, and only that one;\n"
    "  * `src_<f>_eq_model`: for ALL inputs the translated function, called with the axes handle `Axes.given` on a figure in state\n"
    "    `fig`, raises what the hand-written model of Model/Plot.lean rejects and otherwise leaves the figure in the state\n"
    "    `SFig.after fig <the model's figure>` (the model's artists appended in order, each on the axes the model says, with the\n"
    "    styling arguments its abstract style stands for; limits, labels, title, legend as the model says);\n"
    "  * text pins (`ast.unparse`): `src_<f>_signature`, `src_<f>_effects` (the statements that are effects the model does not carry,\n"
    "    each with its position `[k|n]`, in source order), `src_<f>_conversions` (`int(i)`, `np.array(l)` read as the identity), `src_<f>_returns`,\n"
    "    `src_<function>_skeleton` for the helper functions that are not translated, `src_<file>_module_skeleton` (every module-level\n"
    "    statement that is not a `def` / `class`), `src_<file>_bindings`.\n\n"
    "Conventions of the translation (the translator's semantics of its Python subset):\n"
    "  * a plotting function maps its arguments and the state of the figure before the call (`fig : SFig α`) to the state after it;\n"
    "    every definition has type `Except Err (SFig α)`; `.error Err.value` = ValueError, `.error Err.index` = IndexError; an\n"
    "    exception discards the state (the artists drawn before it stay on the real axes: not modelled);\n"
    "  * `ax = ax or plt.gca()` DEFINES the axes handle: the parameter `ax : Axes` of a definition is what that expression\n"
    "    evaluates to (the obligations are stated at `Axes.given`); `plt.plot(…)` adds to `Axes.current`; a nested call of a\n"
    "    translated plotting function passes the handle named by its `ax=` keyword, `Axes.current` if there is none; its other\n"
    "    arguments are bound against the callee's `def`, missing ones take the callee's defaults (`None` ↦ `none` /\n"
    "    `Labels.default`); the opaque parameters (`colormap`, `size`, `ax_color`, `show`, `alpha`, `padding`) must not be passed;\n"
    "  * `H.plot(xs, ys, <style…>, label=l)` ↦ `fig.add (SArtist.line H xs ys ⟨<style…>⟩ l)`; `H.scatter(xs, ys, <style…>, label=l)` ↦\n"
    "    `fig.add (SArtist.scatter H (offsets xs ys) ⟨<style…>⟩ l)`; `H.set_xlim([a, b])` ↦ `fig.set_xlim H a b` (likewise `set_ylim`,\n"
    "    `set_xlabel`, `set_ylabel`, `set_title`); `H.legend(<style…>)` ↦ `fig.set_legend H ⟨<style…>⟩`.  A styling argument is a value:\n"
    "    `.str s` / `.num n` for a constant or a local holding one, `.param \"p\"` for the opaque parameter `p`;\n"
    "  * any other expression statement, and an `if` on an opaque parameter that holds only such statements, is an EFFECT the model\n"
    "    does not carry (`plt.style.use(colormap)`, `ax.set_aspect('equal', 'box')`, `ax.margins(padding)`, `plt.show()`): not\n"
    "    translated, pinned as text WITH ITS POSITION (`srcEffects_<f>`: `\"[k|n] stmt\"`, `k` = the path of the statement in the\n"
    "    function body, docstring excluded -- `5.then.0` is the first statement of the `if` that is statement 5 --, `n` = the number of\n"
    "    names the translation has bound before it; every translated statement binds at least one, so an effect moved across a\n"
    "    translated statement, into or out of an `if` / a loop, changes its pin);\n"
    "  * `landscape.compute_landscape()` is NOT an effect: it writes the state (`max_depth`, `critical_pairs` / `values`) that\n"
    "    translated statements read.  It is the state transformer `LandExact.compute_landscape` / `LandApprox.compute_landscape` of\n"
    "    Lemmas/SrcLibPlot.lean, translated where it stands (`let landscape_1 := landscape.compute_landscape`: the statements after it\n"
    "    read `landscape_1`, the statements before it the object as it was passed in, possibly built with `compute=False`); accepted\n"
    "    only as a statement of the function body itself (not under an `if` / in a loop); any other method call on the object, a\n"
    "    second name for it, and iterating over it before that statement (`__getitem__` would compute it lazily) are outside the subset;\n"
    "  * every binding must be READ: a store that nothing reads afterwards (after the last use of a name, to a parameter, to a name\n"
    "    that only an effect statement mentions) is outside the subset -- it would be a dead `let` that `rfl` absorbs; an assignment\n"
    "    to an opaque parameter is outside the subset; exempt are the bindings of a loop target (`d` of `[i, j, d]`);\n"
    "  * SSA versions `x_k` are never spelled like an identifier of the Python function (a local literally named `x_1` cannot\n"
    "    capture a version of `x`); a local spelled like a name of the library / a fixed binder (`fig`, `it`, `acc`, `e`) is outside\n"
    "    the subset; `x is True` is rendered `x == true`, not as the truth value of `x`;\n"
    "  * a second name for an array or a list (`y = x`, `a, b = x, y`, an array put into a list display) makes neither name the\n"
    "    owner: in-place updates through either are outside the subset from there on; an in-place update of the item of a `zip`\n"
    "    loop removes the list it came from (it may not be read again);\n"
    "  * straight-line code is SSA-renamed (`x`, `x_1`, …), every assignment is a `let`; a raising expression is bound by a `match`\n"
    "    where its statement stands (`pyGet`, `compGet`: IndexError; `npMin`, `npMax`, `npConcatenate`, `argmax?`: ValueError); an `if`\n"
    "    whose arms fall through yields the names that an arm assigns and that exist before it or are assigned in both arms;\n"
    "  * arguments of several Python types are the model's sum types: `diagrams : DgmsArg α` (an ndarray or a list),\n"
    "    `labels : Labels` (`None`, a string, a list), `plot_only : Option (List Int)`, `xy_range : Option (α × α × α × α)`,\n"
    "    `title : Option String`; `if not isinstance(x, list): x = [x]` ↦ `listOfArg`, `if labels is None: labels = e` ↦ `labelsOrElse`\n"
    "    (afterwards a string or a list), `if not isinstance(labels, list): labels = [labels] * len(d)` ↦ `broadcastStr`; `if x:` on\n"
    "    `None`-or-list is `truthy x`, the list where it is iterated `seqOf x`; `if title:` is `truthyStr title`; `if x is None:` /\n"
    "    `if x is not None:` on an `Option` is `match x with …` binding the payload; the TRUTHINESS test `if xy_range:` /\n"
    "    `if not xy_range:` is `match truthyVal xy_range with …` (a different text, which `rfl` does not identify with the `is None`\n"
    "    form: the empty list, falsy but not `None`, is not a value of the model's type); `xy_range == 0` is `false` (`None == 0`, `[…] == 0`; the integer `0` is not a\n"
    "    value of the model's type);\n"
    "  * an `(n, 2)` diagram is `Dgm α` (birth, death or `none` = `inf`); arrays are VALUES: an in-place update gives the name a new\n"
    "    value, which agrees with NumPy as long as nobody else holds the array -- accepted only for arrays this function created\n"
    "    (`astype(np.float32, copy=True)`, a Boolean-mask selection, `np.array([[0, 0]])`); `for x in L: <in-place update of x>` is the\n"
    "    map of the update over `L`; `dgm[:, 1] -= dgm[:, 0]` ↦ `colSubInPlace`, `dgm[np.isinf(dgm)] = v` ↦ `setWhereInf`;\n"
    "    where an entry that may be `inf` is drawn or computed with it is read through `fin infv` / `finL infv` (`infv` a parameter:\n"
    "    the obligations hold for every value of it, so no infinite entry reaches such a place);\n"
    "  * every other `for` is `foldlM` of its own `<f>_round` definition over `List.zip a b` / `pyEnumerate m` / `m` (the names the\n"
    "    body only reads, what it re-assigns, the item `it`); `continue` ends the round;\n"
    "  * a matching is `List (Row α)` (`i`, `j` integers, `d`); `int(i)` is the identity there (pinned with the statement it stands\n"
    "    in, in source order: `srcConversions_<f>`); `set_xlim` / `set_ylim` take a LIST display of two numbers;\n"
    "  * `np.cos`, `np.sin`, `np.pi` are the parameters `cos`, `sin`, `pi`; a Python int where a float is computed with is the numeral;\n"
    "    a decimal literal is the rational it denotes (`0.95` ↦ `19 / 20`, `0.05` ↦ `1 / 20`); `astype(np.float32)` is the parameter\n"
    "    `cast` applied to every entry; `np.array([[a, b], [c, d]])` is `Mat2`, `np.array([x, y])` a pair;\n"
    "  * format strings are table entries: `\"$H_{{{}}}$\".format(i)` ↦ `hLabel i`, `f\"$\\\\lambda_{{{depth}}}$\"` ↦ `lamLabel depth`.\n"
    "A source outside the subset gives `def srcShape_<f> : Bool := false`, and `srcShape_<f>_recognised` fails.\n"
    "-/\n"
    "set_option linter.unusedVariables false\n"
    "set_option linter.unusedSectionVars false\n\n"
    "namespace %s\nopen %s\n")


def lst(items):
    return "[%s]" % ", ".join(lean_str(t) for t in items)


def text_pin(o, names, kind, f, doc, got, expected):
    """def src<Kind>_<f> : List String := got ; theorem src_<f>_<kind> : … = expected := rfl"""
    o.append("/-- %s -/" % doc)
    o.append("def src%s_%s : List String :=\n  %s" % (kind.capitalize(), f, lst(got)))
    o.append("theorem src_%s_%s : src%s_%s =\n  %s := rfl\n" % (f, kind, kind.capitalize(), f, lst(expected)))
    names.append("src_%s_%s" % (f, kind))


def module_skeleton(tree):
    return [ast.unparse(n) for n in tree.body
            if not isinstance(n, (ast.FunctionDef, ast.AsyncFunctionDef, ast.ClassDef))
            and not (isinstance(n, ast.Expr) and isinstance(n.value, ast.Constant) and isinstance(n.value.value, str))]


def render_file(key, root):
    py, out, ns, imports, prop, opens = FILES[key]
    o = [HEADER % (imports, PYFILE, PYFILE_L, ns, opens)]
    info = {"source": py, "output": "/".join([GEN.replace(os.sep, "/"), out]), "functions": {}, "bindings": {}}
    nts = {}
    for path, bkey in ((PYFILE, "plot"), (PYFILE_L, "plot_landscape")):
        cfgs = [c for c in TARGETS if c["pyfile"] == path]
        if not cfgs:
            continue
        err0, unit, tree = None, None, None
        try:
            src = open(os.path.join(root, path)).read()
            with warnings.catch_warnings():          # `f"$\lambda…"`: an invalid escape sequence in the source is the source's business
                warnings.simplefilter("ignore")
                tree = ast.parse(src)
            unit = Unit(path, src, tree)
        except (OSError, SyntaxError) as e:
            err0 = "%s: %s" % (type(e).__name__, e)
        o.append("/-! ## %s -/\n" % path)
        pinned = PINNED_FUNCTIONS.get(path, {})
        fl = [(c["func"], unit.fns.get(c["func"]) if unit else None, None) for c in cfgs]
        fl += [(f, unit.fns.get(f) if unit else None, None) for f in pinned]
        o.append(bindings_section(bkey, tree, fl, BINDINGS.get(bkey), err0, info))
        names = []
        if err0 is None:
            text_pin(o, names, "module_skeleton", bkey, "every module-level statement of %s that is not a `def` / `class` (docstring excluded), as `ast.unparse` prints it" % path,
                     module_skeleton(tree), MODULE_SKELETON.get(bkey, []))
            info["functions"]["module " + path] = {"obligations": list(names)}
        o.append("section\n" + VARIABLES + "\n")
        for cfg in cfgs:
            f = cfg["lean"]
            o.append("/-! ### `%s`  (from `%s` of %s) -/" % (f, cfg["func"], path))
            err, res = err0, None
            if err is None:
                try:
                    res = unit.translate(cfg)
                except Shape as e:
                    err = "Shape: %s" % e
                except Exception as e:               # anything else the source makes the translator do: outside the subset
                    err = "%s: %s" % (type(e).__name__, e)
            if err is not None:
                o.append("/-- the translator could not read the source: %s -/" % err.replace("-/", "- /").replace("/-", "/ -").replace("\n", " "))
                o.append("def srcShape_%s : Bool := false" % f)
                o.append("theorem srcShape_%s_recognised : srcShape_%s = true := by decide\n" % (f, f))
                info["functions"][f] = {"error": err}
                if unit is not None:
                    # a definition that callers need: so that THEIR obligations are judged on their own text
                    o.append(stub(cfg) + "\n")
                continue
            names = ["srcShape_%s_recognised" % f]
            o.append("def srcShape_%s : Bool := true" % f)
            o.append("theorem srcShape_%s_recognised : srcShape_%s = true := by decide\n" % (f, f))
            for d in res["defs"]:
                o.append(d["text"] + "\n")
            for d in res["defs"]:
                o.append("/-- the generated definition is the reviewed Lean text of the same shape -/")
                # the reviewed text takes the plotting functions it calls as parameters: an edit of a callee breaks the callee's obligation only
                o.append("theorem src_%s_eq_ref %s :\n    %s %s = %s.%s %s := rfl\n" % (
                    d["name"], d["binders"], d["name"], d["args"], REF, d["name"], " ".join(d["callees"] + [d["args"]])))
                names.append("src_%s_eq_ref" % d["name"])
            for name, binders, stmt, proof, doc in cfg.get("obligations", []):
                o.append("/-- %s -/" % doc)
                o.append("theorem %s%s :\n    %s := %s\n" % (name, (" " + binders) if binders else "", stmt, proof))
                names.append(name)
            for ex in cfg.get("examples", []):
                o.append(ex + "\n")
            o.append(render_signature(cfg["func"], signature_text(unit.fns[cfg["func"]]), SIGNATURES.get(cfg["func"], "")))
            names.append("src_%s_signature" % sanitize(cfg["func"]))
            text_pin(o, names, "effects", f, "the statements of `%s` that are effects the model does not carry, in source order, as written" % cfg["func"],
                     unit.effects.get(cfg["func"], []), EFFECTS.get(cfg["func"], []))
            if unit.conversions.get(cfg["func"]) or CONVERSIONS.get(cfg["func"]):
                text_pin(o, names, "conversions", f, "the conversions of `%s` that the translation reads as the identity, as written" % cfg["func"],
                         unit.conversions.get(cfg["func"], []), CONVERSIONS.get(cfg["func"], []))
            if unit.returns.get(cfg["func"]) or RETURNS.get(cfg["func"]):
                text_pin(o, names, "returns", f, "the `return` statements of `%s` (the translation returns the state of the figure)" % cfg["func"],
                         unit.returns.get(cfg["func"], []), RETURNS.get(cfg["func"], []))
            info["functions"][f] = {"obligations": names}
        o.append("end\n")
        if unit is not None:
            for fname, (sig, skel) in pinned.items():
                fn = unit.fns.get(fname)
                names = []
                o.append("/-! ### `%s` of %s: not translated (no translated function calls it), pinned as text -/" % (fname, path))
                o.append(render_signature(fname, signature_text(fn) if fn else "(missing)", sig))
                names.append("src_%s_signature" % sanitize(fname))
                o.append("/-- the body of `%s`, as `ast.unparse` prints it -/" % fname)
                o.append("def srcSkeleton_%s : String :=\n  %s" % (sanitize(fname), lean_str(ast.unparse(ast.Module(body=strip_doc(fn.body), type_ignores=[])) if fn else "(missing)")))
                o.append("theorem src_%s_skeleton : srcSkeleton_%s =\n  %s := rfl\n" % (sanitize(fname), sanitize(fname), lean_str(skel)))
                names.append("src_%s_skeleton" % sanitize(fname))
                info["functions"][fname] = {"obligations": names}
        if tree is not None:
            nts[path] = not_translated(path, tree, _base.all_target_functions(path) if _base else [c["func"] for c in cfgs])
    info["not_translated"] = nts
    o.append(not_translated_comment(sorted(nts.items())))
    o.append("end %s\n" % ns)
    return "\n".join(o), info


# ----------------------------------------------------------------------------- registration with py2lean (dispatch by key)

def trusted_note(key):
    return ("harness/translator/py2lean.py + py2lean_plot.py (statement-level ast translation of plot_diagrams, bottleneck_matching, "
            "wasserstein_matching of %s and of the two 2-D landscape plots of %s into Generated/%s, proved equal to the hand-written "
            "artist-list model for all inputs on every run; its tables (py2lean_plot_tables.py) -- parameter types, which parameters are "
            "opaque, obligation statements and proof scripts, the reviewed texts of signatures / effects / conversions / module "
            "skeletons / bindings -- its stated conventions -- a plotting function as a state transformer of the figure, "
            "`ax = ax or plt.gca()` as the definition of the axes handle, matplotlib calls as table entries with their styling arguments "
            "carried as values, `landscape.compute_landscape()` as the state transformer of the landscape object, everything else an effect "
            "pinned as text with its position, arrays as values with in-place updates accepted only on arrays "
            "the function created, `inf` entries read through a universally quantified stand-in -- and Lemmas/SrcLibPlot.lean (the idiom "
            "library and the table `styleMpl` saying which matplotlib arguments each abstract style of the model stands for) are trusted)"
            % (PYFILE, PYFILE_L, FILES[key][1]))


def manifest_note(key):
    return ("Source translator (plots): plot_diagrams, bottleneck_matching, wasserstein_matching of %s and plot_landscape_exact_simple / "
            "plot_landscape_approx_simple of %s are re-translated from the source text into Lean on every run (Generated/%s), every "
            "statement of them, as functions from the arguments and the state of the figure to the state after the call, and proved "
            "equal to the model for ALL inputs: src_plot_diagrams_eq_model (= Plot.plotDiagrams for every diagram argument -- a single "
            "array or a list, deaths finite or +inf -- every plot_only / title / xy_range / labels / diagonal / lifetime / legend, every "
            "float32 cast and every initial state of the axes: same ValueError / IndexError, otherwise the model's artists appended in "
            "order on the given axes with the styling arguments the model's styles stand for, the model's limits, labels, title, "
            "legend), src_bottleneck_matching_eq_model / src_wasserstein_matching_eq_model (= Plot.bottleneckMatching / "
            "wassersteinMatching with c = cos(pi/4), s = sin(pi/4) for every pair of diagrams, every matching, every label list: the "
            "finite-death filter of 3ef18e2, the (0,0) placeholder, the rotation, one segment per row that is not (-1,-1) on the GIVEN "
            "axes, the arg-max row's style, the nested plot_diagrams call on the same axes), src_plot_landscape_*_simple_eq_model (= "
            "landscapeExactSimple / landscapeApproxSimple). So the chain for C20 is Python source -> (translated, proved) -> artist-list "
            "model -> (proved, Props/C20.lean) -> the statement's clauses. An edit of the translated lines breaks a generated obligation "
            "(src_<def>_eq_ref of the definition it lands in) and triggers the failing-input search, except a renaming of locals or a "
            "reordering of independent assignments; landscape.compute_landscape() is translated as the state transformer it is (the default "
            "depth_range reads the COMPUTED max_depth; src_plot_landscape_*_simple_lazy: for a landscape built with compute=False the "
            "lines drawn are those of the computed landscape); effect statements (plt.style.use, set_aspect, margins, show) are pinned "
            "as text with their position among the translated statements, signatures, the helper "
            "plot_a_bar, every module-level statement and the bindings of the names used are pinned as text (src_<f>_effects, "
            "src_<f>_signature, src_plot_a_bar_skeleton, src_<file>_module_skeleton, src_<file>_bindings). Not tied by the translator: "
            "what matplotlib / NumPy do behind the table entries (compared with the model on every harness case by reading the artists "
            "back), float32 rounding inside the range computation, integer-dtype arrays, colormap / size / ax_color / alpha beyond "
            "their names, rendering, the 3-D landscape plots (trusted: the translator's conventions, its tables, Lemmas/SrcLibPlot.lean)."
            % (PYFILE, PYFILE_L, FILES[key][1]))


_base = None


def register(base):
    """make key "plot" known to py2lean: FILES, the render dispatch, the helper functions of the harness modules"""
    global _base
    if getattr(base, "_plot_registered", False):
        return
    base._plot_registered = True
    _base = base
    for k, v in FILES.items():
        base.FILES[k] = v[:5]
    inner = {n: getattr(base, n) for n in ("render_file", "trusted_note", "manifest_note", "all_target_functions", "prop_files")}

    def render(key, root):
        return render_file(key, root) if key in FILES else inner["render_file"](key, root)

    def tnote(key):
        return trusted_note(key) if key in FILES else inner["trusted_note"](key)

    def mnote(key):
        return manifest_note(key) if key in FILES else inner["manifest_note"](key)

    def targets(path):
        return inner["all_target_functions"](path) + [c["func"] for c in TARGETS if c["pyfile"] == path] + list(PINNED_FUNCTIONS.get(path, {}))

    def pfiles(key):
        if key in FILES:
            return list(BRIDGES) + [base.prop_file(key)] + list(COMPOSED)
        return inner["prop_files"](key)
    base.render_file, base.trusted_note, base.manifest_note, base.all_target_functions, base.prop_files = render, tnote, mnote, targets, pfiles


from . import py2lean as _b  # noqa: E402
if hasattr(_b, "py2lean_stmt") and hasattr(_b, "generate") and hasattr(_b, "py2lean_ghentry"):
    register(_b)


def expected_tables(root="/repo"):
    """Python source of the text tables as the tree at `root` has them -- for a maintainer who has REVIEWED a change of /repo and
    re-baselines py2lean_plot_tables.py (`python -m harness.translator.py2lean_plot [root]`)"""
    text, _ = render_file(KEY, root)

    def un(t):
        return re.sub(r"\\x([0-9a-f]{2})", lambda m: chr(int(m.group(1), 16)), t).replace("\\n", "\n").replace('\\"', '"').replace("\\\\", "\\")
    out = ["BINDINGS = {"]
    for bkey in ("plot", "plot_landscape"):
        m = re.search(r"def srcBindings_%s : List \(String × String\) :=\n  \[(.*?)\]\ntheorem" % bkey, text, re.S)
        out.append("    %r: [" % bkey)
        for n, t in re.findall(r'\("((?:[^"\\]|\\.)*)", "((?:[^"\\]|\\.)*)"\)', m.group(1) if m else ""):
            out.append("        (%r, %r)," % (un(n), un(t)))
        out.append("    ],")
    out.append("}")
    out.append("SIGNATURES = {")
    for m in re.finditer(r"def srcSignature_(\w+) : String :=\n  \"((?:[^\"\\]|\\.)*)\"\n", text):
        out.append("    %r: %r," % (m.group(1), un(m.group(2))))
    out.append("}")
    for kind in ("Effects", "Conversions", "Returns", "Module_skeleton"):
        out.append("%s = {" % kind.upper())
        for m in re.finditer(r"def src%s_(\w+) : List String :=\n  \[(.*?)\]\n" % kind, text):
            out.append("    %r: %r," % (m.group(1), [un(x) for x in re.findall(r'"((?:[^"\\]|\\.)*)"', m.group(2))]))
        out.append("}")
    for m in re.finditer(r"def srcSkeleton_(\w+) : String :=\n  \"((?:[^\"\\]|\\.)*)\"\n", text):
        out.append("# skeleton %s: %r" % (m.group(1), un(m.group(2))))
    return "\n".join(out)


if __name__ == "__main__":
    import sys
    from harness.translator import py2lean_plot as _me          # the registered instance of this module
    print(_me.expected_tables(sys.argv[1] if len(sys.argv) > 1 else os.environ.get("PERSIM_ROOT", "/repo")))
