"""
Source translator for the image assembly of `PersistenceImager` (DESIGN.md 3.2), the fourth engine behind py2lean.generate().

Targets (persim/images.py -> lean/PersimVerif/Generated/SrcImage.lean, key `image`):
  * the module-level `_transform` (copy, skew conversion, weights, the dispatch between the isotropic-Gaussian fast path and the
    general path, both loops over the points, the returned image),
  * `PersistenceImager.transform` (empty input, `_ensure_iterable`, the serial / joblib branches and the arguments each passes,
    the singular / plural return), `PersistenceImager.fit_transform` (deepcopy, fit, transform),
  * `PersistenceImager._ensure_iterable`: pinned as text (try / except / isinstance glue; its model is `Imager.ensureIterable`).
The functions are read with `ast` and translated STATEMENT BY STATEMENT into Lean definitions over the models' own core classes
(no Mathlib).  The generated definitions are proved equal (a) to the reviewed Lean text of the same shape
(`PersimVerif.SrcBridge.Image.Ref.*`, `src_<def>_eq_ref`, by `rfl`) and through it (b) to the hand-written models
`Image.transformOne` / `Image.transform` (Model/Image.lean; C04, C11) and `Transformers.imagerTransform` /
`imagerFitTransform` (Model/Transformers.lean; C18): `src__transform_eq_model`, `src_transform_eq_model`,
`src_transform_eq_image_model`, `src_fit_transform_eq_model` (hand-written lemmas in Lemmas/SrcBridgeImage.lean).

Semantics of the subset (the translator's conventions):
  * straight-line code is SSA-renamed (`x`, `x_1`, ...; a version `x_k`, a `_`-suffixed name or a guard name of the translator that
    is spelled like ANY identifier of the Python function is refused: no capture between a Python local and an SSA name),
    every assignment is a `let`, and every generated binding has to be READ behind it (a statement whose stored value nothing reads is
    outside the subset: `rfl` would absorb the dead `let`); an `if` that is followed by more statements
    is an if-expression yielding the names its branches re-assign (or assign in both branches); an `if` whose branch gives a name
    a value of another type (`pers_imgs = pers_imgs[0]`), or whose body returns, takes the rest of the function into its branches;
  * every definition returns `Option`: `none` = the source raises there -- `np.zeros` of a negative dimension, `l[i]` out of
    range, `np.reshape` of a wrong number of values, `a += b` on arrays of unequal shapes (NumPy would still BROADCAST an axis of
    length 1 of `b`: such shapes do not occur when the mesh has `resolution + 1` points, the hypothesis of the obligations);
    `fit_transform` additionally propagates the model's `Except Err` of `fit`;
  * NumPy float arrays are read ENTRY-WISE (`SrcLib.Image.Arr1/Arr2`: a shape and the function index -> entry): an array
    expression is translated to the expression of its entry `[a][b]` (`[k]`), its shape is computed alongside, and an
    elementwise operation is accepted only between arrays whose shapes are the same text (or between the views `x[None, :]` and
    `y[:, None]`, which broadcast to the outer table `[a][b] = x[b] (op) y[a]`); a scalar operand is broadcast;
    `A[1:, 1:]` has entry `A[a + 1][b + 1]`, `A[:-1, 1:]` has `A[a][b + 1]`, ... and shape `(r - 1, c - 1)`;
    `np.meshgrid(x, y, indexing="ij")` is `bb[a][b] = x[a]`, `pp[a][b] = y[b]`; `.flatten(order="C")` has entry
    `[k] = A[k / c][k % c]`; `np.reshape(v, (r, c), order="C")` has `[a][b] = v[a * c + b]`; `np.zeros(shape)` is 0 everywhere;
    an array bound to a name is a `let` of an `Arr1` / `Arr2` value, `return A` returns its rows (`Arr2.toMat`);
  * an `(n, 2)` diagram is the list of its rows (pairs); `X.shape[0]` is its length; arrays are VALUES: `Y = np.copy(X)` is `Y := X`
    (accepted only as a whole assignment to a name; the statement text is pinned, `src__transform_conversions`) and
    every in-place update makes a new value -- which agrees with NumPy as long as nobody else holds the updated array, so
    `X[:, 1] = e` and `A += e` are accepted only under a name that this function bound by `np.copy(…)` / `np.zeros(…)` (or by
    such an update), and giving an array or a view of it a second name (`y = x`, `v = A[1:, 1:]`) is outside the subset;
    `X[:, 1] = e` with `e` built from the columns `X[:, j]` and scalars is the map over the rows; `f(X[:, 0], X[:, 1], **params)` for the weight callable acts elementwise: the list of `f r.1 r.2 params`;
    `X[i, j]` / `X[i, :]` / `l[i]` inside a loop are `X[i]?` / `l[i]?` with the guard `none` where the statement stands;
  * `for i in range(n)` is `(List.range n).foldlM` of its own definition (`fast_round`, `general_round`: the names the body only
    reads as leading parameters, then the one name it re-assigns, then `i`);
  * callables and dicts are opaque values with the operations the source performs on them as parameters: `weight(b, p,
    **weight_params)` is `weight b p weight_params`; `kernel == images_kernels.gaussian` is `kernel.isGaussian` and
    `kernel(bb, pp, mu=row, **kernel_params)` is `kernel.call kernel_params row bb pp` on the lists of entries
    (`SrcLib.Image.Kernel`); `kernel_params["sigma"]` is `kp_sigma kernel_params : Image.Sigma α`, a Python int / float
    (`scalar`) or a 2x2 array-like (`matrix`, row-major); `if isinstance(sigma, (int, float)): sigma = np.array([[sigma, 0.0],
    [0.0, sigma]], dtype=np.float64)` is the `match` on that constructor giving the four entries, `sigma[i][j]` reads them;
    `np.sqrt` and `images_kernels.norm_cdf` (elementwise) are the parameters `sqrt`, `Φ`; `copy.deepcopy` is the parameter `copy`;
  * `self` is the geometry state of Model/Imager.lean: `self.resolution` is `(self.rx, self.ry)` (the getter is pinned),
    `self._bpnts` / `self._ppnts` are `Arr1.ofList (meshB self)` / `(meshP self)` (written by `_create_mesh` only: every
    assignment to them in the class is pinned, `srcAttrWrites_image`; `Generated/SrcImager.lean` ties `_create_mesh` to
    `meshB/meshP`), `self.weight`, `self.weight_params`, `self.kernel`, `self.kernel_params` are parameters of the definition;
    `self._ensure_iterable(x)` is the model's `Imager.ensureIterable`, `self.fit(x, skew=s)` the model's `Imager.fit` (tied by
    `src_fit_eq_model` of Generated/SrcImager.lean) giving the next state, `self.transform(...)` the generated `transform`;
  * a call of `_transform` is resolved against the `def` in the source: positional and keyword arguments are bound to its
    parameters, a parameter that is not passed takes its default (`skew=True`; a default `None` is outside the subset);
    `[f(x) for x in xs]` and `joblib.Parallel(n_jobs=n_jobs)(delayed(f)(x) for x in xs)` are both the ordered map `xs.mapM`;
  * `len(pers_dgms)` of the user's input is `SrcLib.Image.inputLen`; `x is not None` on `n_jobs` is `.isSome`; `a == b` on
    floats is `==` (`BEq α`), `and` of two such tests is `&&`; float literals that denote an integer are numerals (`0.0` -> `0`)
    where a float stands (an index, a column number, a dimension, a `range` bound has to be an INT literal: `x[:, 0.0]`, `n + 1.0` as a
    dimension raise in Python and are outside the subset);
  * `return e` in `transform`: an array or one image is `Output.image`, a list of images `Output.images`.
What is not translated is pinned as text: `srcSkeleton_ensure_iterable` (its whole body), `srcSignature_…` of the four functions,
`srcBindings_image`, `srcAttrWrites_image`, `srcGetters_image`.
"""
import ast
import os
import re

from .py2lean import (Shape, LEAN_RESERVED, lean_str, strip_doc, GEN, bindings_section, signature_text,
                      sanitize, not_translated, not_translated_comment, dotted)

# ----------------------------------------------------------------------------- types

LEAN_TY = {
    "A": "α", "N": "Nat", "Z": "Int", "B": "Bool", "DGM": "List (α × α)", "VEC": "List α", "A1": "Arr1 α", "A2": "Arr2 α",
    "SIGMA": "Image.Sigma α", "M2": "α × α × α × α", "ROW": "α × α", "RES": "Int × Int", "WEIGHT": "α → α → WP → α", "WP": "WP",
    "KERNEL": "Kernel α KP", "KP": "KP", "STATE": "State α", "INPUT": "Input α", "LDGM": "List (List (α × α))",
    "IMG": "Image.Mat α", "LIMG": "List (Image.Mat α)", "NJOBS": "Option Nat", "OOUT": "Option (Output (Image.Mat α))",
}
RESERVED = set(LEAN_RESERVED) | {"a", "b", "k", "r", "s", "s00", "s01", "s10", "s11", "e", "fuel", "some", "none", "id", "copy", "ceil", "sqrt", "Φ", "kp_sigma"}


class E:
    """a translated scalar / opaque expression: Lean text, type tag, precedence; `c`: the two components of a pair literal"""
    def __init__(self, t, ty, p=100, c=None):
        self.t, self.ty, self.p, self.c = t, ty, p, c


class Arr:
    """a translated float array, entry-wise: `shape` = Lean texts of its dimensions, `fn(*index texts) -> (text, prec)`;
    `bc[d]`: axis d has length 1 and broadcasts (`x[None, :]`, `y[:, None]`)"""
    def __init__(self, shape, fn, bc=None):
        self.shape, self.fn, self.bc = tuple(shape), fn, bc or (False,) * len(shape)
        self.ty = "A%d" % len(shape)


def par(e, minp):
    return "(%s)" % e.t if e.p < minp else e.t


def ptxt(tp, minp):
    t, p = tp
    return "(%s)" % t if p < minp else t


def arg(t):
    """a Lean text as a function argument"""
    simple = all(ch.isalnum() or ch in "_.'₁₂" for ch in t)
    if simple:
        return t
    if t.startswith("(") or t.startswith("⟨"):             # already one bracketed term?
        depth = 0
        for i, ch in enumerate(t):
            depth += ch in "(⟨"
            depth -= ch in ")⟩"
            if depth == 0:
                if i == len(t) - 1:
                    return t
                break
    return "(%s)" % t


# ----------------------------------------------------------------------------- IR

class Ret:
    def __init__(self, vals):
        self.vals = vals


class Fail:
    pass


class Raw:
    """a final expression that already has the result type (`Option …`)"""
    def __init__(self, text):
        self.text = text


class Let:
    def __init__(self, name, ty, text, body):
        self.name, self.ty, self.text, self.body = name, ty, text, body


class LetMatch:
    """`let name : ty := match … with | … => …` (the text has `%s` where the indentation of its continuation lines goes)"""
    def __init__(self, name, ty, text, body):
        self.name, self.ty, self.text, self.body = name, ty, text, body


class MatchOpt:
    def __init__(self, text, pat, body):
        self.text, self.pat, self.body = text, pat, body


class MatchExc:
    def __init__(self, text, pat, body):
        self.text, self.pat, self.body = text, pat, body


class Ite:
    def __init__(self, cond, a, b):
        self.cond, self.a, self.b = cond, a, b


class Join:
    def __init__(self, inner, pat, ty, body):
        self.inner, self.pat, self.ty, self.body = inner, pat, ty, body


def can_fail(n):
    if isinstance(n, (Fail, MatchOpt, Raw, MatchExc)):
        return True
    if isinstance(n, (Let, LetMatch)):
        return can_fail(n.body)
    if isinstance(n, Ite):
        return can_fail(n.a) or can_fail(n.b)
    if isinstance(n, Join):
        return can_fail(n.inner) or can_fail(n.body)
    return False


def tup(vals):
    return vals[0] if len(vals) == 1 else "(%s)" % ", ".join(vals)


def peephole(n):
    """`let x := t; x` is `t`"""
    if isinstance(n, Let) and isinstance(n.body, Ret) and n.body.vals == [n.name]:
        return Ret([n.text])
    return n


def render(n, ind, wrap):
    """`wrap(text)`: how a returned value is written (`some …` in a definition that can fail, the value itself inside a
    branch that cannot)"""
    if isinstance(n, Ret):
        return [ind + wrap(tup(n.vals))]
    if isinstance(n, Fail):
        return [ind + "none"]
    if isinstance(n, Raw):
        return [ind + n.text]
    if isinstance(n, Let):
        return [ind + "let %s : %s := %s" % (n.name, n.ty, n.text)] + render(n.body, ind, wrap)
    if isinstance(n, LetMatch):
        return [ind + "let %s : %s := %s" % (n.name, n.ty, n.text.replace("%s", ind))] + render(n.body, ind, wrap)
    if isinstance(n, MatchOpt):
        return [ind + "match %s with" % n.text, ind + "| none => none", ind + "| some %s =>" % n.pat] + render(n.body, ind, wrap)
    if isinstance(n, MatchExc):
        return [ind + "match %s with" % n.text, ind + "| .error e => .error e", ind + "| .ok %s =>" % n.pat] + render(n.body, ind, wrap)
    if isinstance(n, Ite):
        return [ind + "if %s then" % n.cond] + render(n.a, ind + "  ", wrap) + [ind + "else"] + render(n.b, ind + "  ", wrap)
    if isinstance(n, Join):
        if can_fail(n.inner):
            inner = render(n.inner, ind + "    ", lambda t: "some " + arg(t))
            inner[-1] += ") with"
            return [ind + "match ("] + inner + [ind + "| none => none", ind + "| some %s =>" % n.pat] + render(n.body, ind, wrap)
        a, b = peephole(n.inner.a), peephole(n.inner.b)
        if isinstance(a, Ret) and isinstance(b, Ret):
            return [ind + "let %s : %s := if %s then %s else %s" % (n.pat, n.ty, n.inner.cond, tup(a.vals), tup(b.vals))] \
                + render(n.body, ind, wrap)
        inner = render(Ite(n.inner.cond, a, b), ind + "    ", lambda t: t)
        return [ind + "let %s : %s :=" % (n.pat, n.ty)] + inner + render(n.body, ind, wrap)
    raise Shape("internal: IR node %r" % (n,))


# ----------------------------------------------------------------------------- liveness of the GENERATED bindings

_TOK = re.compile(r"(?<![\w.'])[A-Za-z_Φ][\w'Φ]*")


def _toks(text):
    """the identifiers a Lean text mentions (field / namespace components behind a `.` are not names of binders)"""
    return set(_TOK.findall(text))


def live(n, what):
    """the names the IR `n` reads.  Shape if it binds a name that nothing behind the binding reads: a store that `rfl` (zeta)
    would absorb, so that the edited and the unedited source would have the same obligations"""
    if isinstance(n, Ret):
        return set().union(*[_toks(v) for v in n.vals]) if n.vals else set()
    if isinstance(n, Fail):
        return set()
    if isinstance(n, Raw):
        return _toks(n.text)
    if isinstance(n, Ite):
        return _toks(n.cond) | live(n.a, what) | live(n.b, what)
    if isinstance(n, (Let, LetMatch, MatchOpt, MatchExc, Join)):
        u = live(n.body, what)
        pats = _TOK.findall(n.name if isinstance(n, (Let, LetMatch)) else n.pat)
        dead = [x for x in pats if x not in u]
        if dead:
            raise Shape("%s: the value bound to `%s` is never read (a dead store: the definitional unfolding would absorb it)"
                        % (what, "`, `".join(dead)))
        return (u - set(pats)) | (live(n.inner, what) if isinstance(n, Join) else _toks(n.text))
    raise Shape("internal: IR node %r" % (n,))


# ----------------------------------------------------------------------------- the translator

def function_idents(fn):
    """every identifier that occurs in the Python function: names, parameters, attribute and keyword names, nested definitions,
    imports, `global` / `nonlocal` / `except … as` names"""
    out = set()
    for x in ast.walk(fn):
        if isinstance(x, ast.Name):
            out.add(x.id)
        elif isinstance(x, ast.arg):
            out.add(x.arg)
        elif isinstance(x, ast.Attribute):
            out.add(x.attr)
        elif isinstance(x, ast.keyword) and x.arg:
            out.add(x.arg)
        elif isinstance(x, (ast.FunctionDef, ast.AsyncFunctionDef, ast.ClassDef)):
            out.add(x.name)
        elif isinstance(x, ast.alias):
            out.update((x.asname or x.name).split("."))
        elif isinstance(x, (ast.Global, ast.Nonlocal)):
            out.update(x.names)
        elif isinstance(x, ast.ExceptHandler) and x.name:
            out.add(x.name)
        elif isinstance(x, ast.pattern):
            out.update(v for v in (getattr(x, "name", None), getattr(x, "rest", None)) if isinstance(v, str))
    return out


def lit_int(n):
    """the value of an int LITERAL (`1`, `-1`; not `1.0`, not `True`), else None: what an index, an axis, a dimension has to be"""
    if isinstance(n, ast.UnaryOp) and isinstance(n.op, ast.USub):
        v = lit_int(n.operand)
        return None if v is None else -v
    if isinstance(n, ast.Constant) and type(n.value) is int:
        return n.value
    return None


def const_int(n):
    """the integer a constant denotes (`1`, `1.0`, `-1`), else None"""
    if isinstance(n, ast.UnaryOp) and isinstance(n.op, ast.USub):
        v = const_int(n.operand)
        return None if v is None else -v
    if isinstance(n, ast.Constant) and not isinstance(n.value, bool) and isinstance(n.value, (int, float)) and n.value == int(n.value):
        return int(n.value)
    return None


def is_none(n):
    return isinstance(n, ast.Constant) and n.value is None


def full_slice(n):
    return isinstance(n, ast.Slice) and n.lower is None and n.upper is None and n.step is None


def slice_kind(n):
    """'all' for `:`, 'from1' for `1:`, 'to-1' for `:-1`, 'none' for `None`, else None"""
    if is_none(n):
        return "none"
    if not isinstance(n, ast.Slice) or n.step is not None:
        return None
    if n.lower is None and n.upper is None:
        return "all"
    if n.upper is None and lit_int(n.lower) == 1:
        return "from1"
    if n.lower is None and lit_int(n.upper) == -1:
        return "to-1"
    return None


class Tr:
    def __init__(self, cfg, ctx, parent=None):
        self.cfg, self.ctx, self.parent = cfg, ctx, parent      # ctx: shared (source functions, emitted loop definitions, counters)
        self.env, self.order, self.count, self.pre = {}, [], {}, []
        self.owned = set()                                      # python names bound to an array this function made itself
        self.used_f = []                                        # function parameters (sqrt, Φ, ...) this definition uses
        self.row = None                                         # (diagram python name, row variable) in a column-wise expression
        self.reads = []                                         # names of the enclosing definition a loop body reads

    # -- names
    def fresh(self, py, synthetic=False):
        """a Lean name for a (new version of a) Python name.  The first version of `x` is `x` itself; every OTHER name this hands
        out -- a later SSA version `x_k`, a name changed by `sanitize` / a `_` suffix, a name of the translator's own
        (`synthetic`: the guards `t`, `z`) -- must not occur as an identifier anywhere in the Python function: otherwise a Python
        local of that spelling and the translator's name would be one Lean binder (name capture)"""
        base = py if py.isidentifier() else (sanitize(py) or "v")
        if base in RESERVED or any(a[0] == "param" and a[1] == base for a in self.cfg.get("self_attrs", {}).values()):
            base += "_"                                  # (a parameter of the definition that stands for `self.<attr>`: not a local)
        k = self.count.get(base, 0)
        self.count[base] = k + 1
        nm = base if k == 0 else "%s_%d" % (base, k)
        if nm in self.ctx.get("idents", ()) and (synthetic or nm != py):
            raise Shape("the translator's name `%s` (a version of `%s`) is an identifier of the function" % (nm, py))
        return nm

    def bind(self, py, ty, owned=False):
        nm = self.fresh(py)
        if py not in self.env:
            self.order.append(py)
        self.env[py] = (nm, ty)
        (self.owned.add if owned else self.owned.discard)(py)
        return nm

    def fparam(self, name):
        if name not in [f for f, _ in self.cfg["fparams"]]:
            raise Shape("`%s` is not a parameter of the definition of %s" % (name, self.cfg["lean"]))
        if name not in self.used_f:
            self.used_f.append(name)
        return name

    def lookup(self, py, node=None):
        if py not in self.env:
            raise Shape("`%s` is read where it is not bound on every path%s" % (py, " (line %d)" % node.lineno if node is not None else ""))
        if self.parent is not None and py in self.parent_names and py not in self.reads:
            self.reads.append(py)
        return self.env[py]

    def take_pre(self):
        p, self.pre = self.pre, []
        return p

    @staticmethod
    def with_pre(pre, node):
        for pat, text in reversed(pre):
            node = MatchOpt(text, pat, node)
        return node

    def hoist(self, text, ty, base="t"):
        nm = self.fresh(base, synthetic=True)
        self.pre.append((nm, text))
        return E(nm, ty)

    # -- values
    def name_value(self, py, node=None):
        nm, ty = self.lookup(py, node)
        if ty == "A1":
            return Arr(("%s.n" % nm,), lambda k: ("%s.get %s" % (nm, arg(k)), 90))
        if ty == "A2":
            return Arr(("%s.r" % nm, "%s.c" % nm), lambda a, b: ("%s.get %s %s" % (nm, arg(a), arg(b)), 90))
        return E(nm, ty)

    def scalar(self, n, want="A"):
        v = self.expr(n, want)
        if not isinstance(v, E) or v.ty != want:
            raise Shape("`%s` is not a %s" % (ast.unparse(n), LEAN_TY.get(want, want)))
        return v

    def expr(self, n, want=None):
        if isinstance(n, ast.Constant):
            if isinstance(n.value, bool):
                return E("true" if n.value else "false", "B")
            k = const_int(n)
            if k is None or k < 0:
                raise Shape("constant outside the subset: %r" % (n.value,))
            if isinstance(n.value, float) and want in ("N", "Z"):         # `x + 1.0` where an int is needed: a float in Python
                raise Shape("a float literal where an int is needed: %r" % (n.value,))
            ty = want if want in ("A", "N", "Z") else ("A" if isinstance(n.value, float) else "Z")
            return E(str(k), ty)
        if isinstance(n, ast.Name):
            return self.name_value(n.id, n)
        if isinstance(n, ast.Attribute):
            return self.attribute(n)
        if isinstance(n, ast.BinOp):
            return self.binop(n, want)
        if isinstance(n, ast.Compare):
            return self.compare(n)
        if isinstance(n, ast.BoolOp):
            vs = [self.expr(v) for v in n.values]
            if not all(isinstance(v, E) and v.ty == "B" for v in vs):
                raise Shape("operand of and/or is not a condition: %s" % ast.unparse(n))
            sym, p = ("&&", 35) if isinstance(n.op, ast.And) else ("||", 30)
            return E((" %s " % sym).join(par(v, p + 1) for v in vs), "B", p)
        if isinstance(n, ast.Subscript):
            return self.subscript(n)
        if isinstance(n, ast.Call):
            return self.call(n, want)
        raise Shape("expression outside the subset: %s" % ast.unparse(n))

    def attribute(self, n):
        d = dotted(n)
        if isinstance(n.value, ast.Name) and n.value.id == "self" and "self" in self.env:
            a = self.cfg.get("self_attrs", {}).get(n.attr)
            if a is None:
                raise Shape("attribute self.%s is not in the translator's table" % n.attr)
            kind, text, ty = a
            snm = self.lookup("self", n)[0]
            if kind == "param":                               # a parameter of the definition standing for the attribute
                self.ctx["attr_params"].add(text)
                return E(text, ty)
            if kind == "pair":
                c = tuple("%s.%s" % (snm, f) for f in text)
                return E("(%s, %s)" % c, ty, 100, c)
            if kind == "mesh":
                nm = "Arr1.ofList (%s %s)" % (text, snm)
                return Arr(("(%s).n" % nm,), lambda k: ("(%s).get %s" % (nm, arg(k)), 90))
        raise Shape("attribute outside the subset: %s" % (d or ast.unparse(n)))

    def binop(self, n, want):
        ops = {ast.Add: ("+", 65), ast.Sub: ("-", 65), ast.Mult: ("*", 70), ast.Div: ("/", 70)}
        if type(n.op) not in ops:
            raise Shape("operator outside the subset: %s" % ast.unparse(n))
        sym, p = ops[type(n.op)]
        a = self.expr(n.left, want if want in ("A", "Z", "N") else None)
        b = self.expr(n.right, a.ty if isinstance(a, E) and a.ty in ("A", "Z", "N") else (want if want in ("A", "Z", "N") else None))
        if isinstance(a, E) and isinstance(b, E):
            if a.ty != b.ty or a.ty not in ("A", "Z", "N") or (a.ty == "N" and sym in ("-", "/")) or (a.ty == "Z" and sym == "/"):
                raise Shape("arithmetic outside the subset: %s" % ast.unparse(n))
            return E("%s %s %s" % (par(a, p), sym, par(b, p + 1)), a.ty, p)
        # entry-wise on arrays; a float scalar is broadcast
        for v in (a, b):
            if isinstance(v, E) and v.ty != "A":
                raise Shape("array arithmetic with a non-float: %s" % ast.unparse(n))
        if isinstance(a, E):
            return Arr(b.shape, lambda *ix: ("%s %s %s" % (par(a, p), sym, ptxt(b.fn(*ix), p + 1)), p), b.bc)
        if isinstance(b, E):
            return Arr(a.shape, lambda *ix: ("%s %s %s" % (ptxt(a.fn(*ix), p), sym, par(b, p + 1)), p), a.bc)
        if len(a.shape) != len(b.shape):
            raise Shape("arrays of different rank: %s" % ast.unparse(n))
        shape, bc = [], []
        for d in range(len(a.shape)):
            if a.shape[d] == b.shape[d]:
                shape.append(a.shape[d]); bc.append(a.bc[d] and b.bc[d])
            elif a.bc[d]:
                shape.append(b.shape[d]); bc.append(False)
            elif b.bc[d]:
                shape.append(a.shape[d]); bc.append(False)
            else:
                raise Shape("elementwise operation on arrays whose shapes are not the same text (%s vs %s): %s"
                            % (a.shape[d], b.shape[d], ast.unparse(n)))
        return Arr(shape, lambda *ix: ("%s %s %s" % (ptxt(a.fn(*ix), p), sym, ptxt(b.fn(*ix), p + 1)), p), tuple(bc))

    def compare(self, n):
        if len(n.ops) != 1:
            raise Shape("chained comparison: %s" % ast.unparse(n))
        op, ln, rn = n.ops[0], n.left, n.comparators[0]
        if isinstance(op, ast.IsNot) and is_none(rn):
            v = self.expr(ln)
            if isinstance(v, E) and v.ty == "NJOBS":
                return E("%s.isSome" % par(v, 100), "B", 90)
            raise Shape("`is not None` outside the subset: %s" % ast.unparse(n))
        if not isinstance(op, ast.Eq):
            raise Shape("comparison outside the subset: %s" % ast.unparse(n))
        a = self.expr(ln)
        if isinstance(a, E) and a.ty == "KERNEL":
            if dotted(rn) != self.cfg.get("gaussian", "images_kernels.gaussian"):
                raise Shape("the kernel is compared with something else than images_kernels.gaussian: %s" % ast.unparse(n))
            return E("%s.isGaussian" % par(a, 100), "B", 90)
        if not isinstance(a, E) or a.ty not in ("A", "N", "Z"):
            raise Shape("== outside the subset: %s" % ast.unparse(n))
        b = self.scalar(rn, a.ty)
        return E("%s == %s" % (par(a, 51), par(b, 51)), "B", 50)

    def subscript(self, n):
        v, s = n.value, n.slice
        # sigma[i][j] on the four entries of the 2x2 matrix
        if isinstance(v, ast.Subscript) and isinstance(v.value, ast.Name) and self.env.get(v.value.id, (None, None))[1] == "M2":
            i, j = lit_int(v.slice), lit_int(s)
            if i not in (0, 1) or j not in (0, 1):
                raise Shape("index of the 2x2 matrix outside the subset: %s" % ast.unparse(n))
            nm = self.lookup(v.value.id, n)[0]
            return E(nm + [".1", ".2.1", ".2.2.1", ".2.2.2"][2 * i + j], "A")
        if isinstance(v, ast.Attribute) and v.attr == "shape" and isinstance(v.value, ast.Name) and lit_int(s) == 0 \
                and self.env.get(v.value.id, (None, None))[1] == "DGM":
            return E("%s.length" % self.lookup(v.value.id, n)[0], "N", 90)
        if not isinstance(v, ast.Name):
            raise Shape("subscript outside the subset: %s" % ast.unparse(n))
        nm, ty = self.lookup(v.id, n)
        parts = list(s.elts) if isinstance(s, ast.Tuple) else [s]
        if ty == "DGM":
            if len(parts) == 2 and full_slice(parts[0]) and lit_int(parts[1]) in (0, 1):       # a column, inside a row-wise expression
                if self.row is None or self.row[0] != v.id:
                    raise Shape("a column of `%s` outside an elementwise expression over its rows: %s" % (v.id, ast.unparse(n)))
                return E("%s.%d" % (self.row[1], lit_int(parts[1]) + 1), "A")
            if len(parts) == 2 and isinstance(parts[0], ast.Name) and self.env.get(parts[0].id, (None, None))[1] == "N":
                i = self.lookup(parts[0].id, n)[0]
                row = self.hoist("%s[%s]?" % (nm, i), "ROW")
                if full_slice(parts[1]):
                    return row
                if lit_int(parts[1]) in (0, 1):
                    return E("%s.%d" % (row.t, lit_int(parts[1]) + 1), "A")
            raise Shape("index of a diagram outside the subset: %s" % ast.unparse(n))
        if ty in ("VEC", "LIMG"):
            if len(parts) == 1 and isinstance(parts[0], ast.Name) and self.env.get(parts[0].id, (None, None))[1] == "N":
                return self.hoist("%s[%s]?" % (nm, self.lookup(parts[0].id, n)[0]), "A" if ty == "VEC" else "IMG")
            if len(parts) == 1 and ty == "LIMG" and lit_int(parts[0]) == 0:
                return self.hoist("%s[0]?" % nm, "IMG")
            raise Shape("index of a list outside the subset: %s" % ast.unparse(n))
        if ty == "RES":
            if len(parts) == 1 and lit_int(parts[0]) in (0, 1):
                return E("%s.%d" % (nm, lit_int(parts[0]) + 1), "Z")
            raise Shape("index of the resolution outside the subset: %s" % ast.unparse(n))
        if ty == "KP":
            if len(parts) == 1 and isinstance(parts[0], ast.Constant) and parts[0].value == "sigma":
                return E("%s %s" % (self.fparam("kp_sigma"), nm), "SIGMA", 90)
            raise Shape("key of kernel_params outside the subset: %s" % ast.unparse(n))
        if ty == "A1" and len(parts) == 2:
            a = self.name_value(v.id, n)
            kinds = [slice_kind(q) for q in parts]
            if kinds == ["none", "all"]:
                return Arr(("1", a.shape[0]), lambda i, j: a.fn(j), (True, False))
            if kinds == ["all", "none"]:
                return Arr((a.shape[0], "1"), lambda i, j: a.fn(i), (False, True))
            raise Shape("view of a 1-D array outside the subset: %s" % ast.unparse(n))
        if ty == "A2" and len(parts) == 2:
            a = self.name_value(v.id, n)
            kinds = [slice_kind(q) for q in parts]
            if not all(kd in ("all", "from1", "to-1") for kd in kinds):
                raise Shape("slice outside the subset: %s" % ast.unparse(n))
            sh = tuple(dim if kd == "all" else "%s - 1" % dim for dim, kd in zip(a.shape, kinds))

            def ix(t, kd):
                return "%s + 1" % t if kd == "from1" else t
            return Arr(sh, lambda i, j: a.fn(ix(i, kinds[0]), ix(j, kinds[1])))
        raise Shape("subscript outside the subset: %s" % ast.unparse(n))

    # -- calls
    def kw(self, n, allowed):
        """keyword arguments of a call as a dict; any other keyword is outside the subset"""
        out = {}
        for k in n.keywords:
            if k.arg is None or k.arg not in allowed:
                raise Shape("keyword argument outside the subset: %s" % ast.unparse(n))
            out[k.arg] = k.value
        return out

    def materialise1(self, v):
        """Lean text of an `Arr1` value"""
        if isinstance(v, E):
            raise Shape("a 1-D array is expected")
        if len(v.shape) != 1:
            raise Shape("a 1-D array is expected, got rank %d" % len(v.shape))
        t = v.fn("k")[0]
        if t.endswith(".get k") and v.shape[0] == t[:-len(".get k")] + ".n":
            return t[:-len(".get k")]
        return "(⟨%s, fun k => %s⟩ : Arr1 α)" % (v.shape[0], t)

    def call(self, n, want):
        f = n.func
        name = None
        try:
            name = dotted(f)
        except Shape:
            pass
        table = self.cfg.get("calls", {})
        if name in table and table[name][0] == "id":                        # np.copy(X)
            if len(n.args) != 1 or n.keywords:
                raise Shape("call outside the subset: %s" % ast.unparse(n))
            if n is not getattr(self, "rhs", None):          # read as the identity only where the statement text is pinned
                raise Shape("`%s` outside `<name> = %s(<array>)`: %s" % (name, name, ast.unparse(n)))
            return self.expr(n.args[0], want)
        if name in table and table[name][0] == "scalar_fn":                 # np.sqrt(x) on a float
            if len(n.args) != 1 or n.keywords:
                raise Shape("call outside the subset: %s" % ast.unparse(n))
            x = self.scalar(n.args[0], "A")
            return E("%s %s" % (self.fparam(table[name][1]), par(x, 100)), "A", 90)
        if name in table and table[name][0] == "elementwise_fn":            # images_kernels.norm_cdf(array)
            if len(n.args) != 1 or n.keywords:
                raise Shape("call outside the subset: %s" % ast.unparse(n))
            x = self.expr(n.args[0])
            fn = self.fparam(table[name][1])
            if isinstance(x, E):
                if x.ty != "A":
                    raise Shape("argument of %s is not a float (array)" % name)
                return E("%s %s" % (fn, par(x, 100)), "A", 90)
            return Arr(x.shape, lambda *ix: ("%s %s" % (fn, ptxt(x.fn(*ix), 100)), 90), x.bc)
        if name in table and table[name][0] == "input_fn":                  # copy.deepcopy(pers_dgms)
            if len(n.args) != 1 or n.keywords:
                raise Shape("call outside the subset: %s" % ast.unparse(n))
            x = self.scalar(n.args[0], "INPUT")
            return E("%s %s" % (self.fparam(table[name][1]), par(x, 100)), "INPUT", 90)
        if name == "len" and len(n.args) == 1 and not n.keywords:
            x = self.expr(n.args[0])
            if isinstance(x, E) and x.ty == "INPUT":
                return E("inputLen %s" % par(x, 100), "N", 90)
            raise Shape("len outside the subset: %s" % ast.unparse(n))
        if name == "np.zeros" and len(n.args) == 1 and not n.keywords:
            x = self.scalar(n.args[0], "RES")
            c = x.c or ("%s.1" % par(x, 100), "%s.2" % par(x, 100))
            nm = self.hoist("Arr2.zeros? %s %s" % (arg(c[0]), arg(c[1])), "A2", "z").t
            return E(nm, "A2")
        if name == "np.reshape":
            kws = self.kw(n, ("order",))
            if len(n.args) != 2 or ("order" in kws and not (isinstance(kws["order"], ast.Constant) and kws["order"].value == "C")):
                raise Shape("np.reshape outside the subset: %s" % ast.unparse(n))
            sh = n.args[1]
            if not (isinstance(sh, ast.Tuple) and len(sh.elts) == 2):
                raise Shape("np.reshape to something else than a pair: %s" % ast.unparse(n))
            v = self.materialise1(self.expr(n.args[0]))
            r, c = self.scalar(sh.elts[0], "Z"), self.scalar(sh.elts[1], "Z")
            nm = self.hoist("%s.reshape? %s %s" % (arg(v), arg(r.t), arg(c.t)), "A2", "t").t
            return E(nm, "A2")
        if isinstance(f, ast.Attribute) and f.attr == "flatten" and isinstance(f.value, ast.Name) and not n.args:
            kws = self.kw(n, ("order",))
            if "order" in kws and not (isinstance(kws["order"], ast.Constant) and kws["order"].value == "C"):
                raise Shape("flatten in another order than C: %s" % ast.unparse(n))
            a = self.name_value(f.value.id, n)
            if isinstance(a, E) or len(a.shape) != 2:
                raise Shape("flatten of something else than a 2-D array: %s" % ast.unparse(n))
            r, c = a.shape
            return Arr(("%s * %s" % (r, c),), lambda k: a.fn("%s / %s" % (k, c), "%s %% %s" % (k, c)))
        if isinstance(f, ast.Name) and f.id in self.env and self.env[f.id][1] == "WEIGHT":
            return self.weight_call(n)
        if isinstance(f, ast.Name) and f.id in self.env and self.env[f.id][1] == "KERNEL":
            return self.kernel_call(n)
        if isinstance(f, ast.Attribute) and isinstance(f.value, ast.Name) and f.value.id == "self" and "self" in self.env:
            return self.method_call(n)
        if name == self.cfg.get("worker"):
            raise Shape("a call of %s outside a list comprehension / Parallel generator: %s" % (name, ast.unparse(n)))
        raise Shape("call outside the subset: %s" % ast.unparse(n))

    def splat(self, n, ty):
        """the name behind `**name` (the only keyword-splat of the subset), of type `ty`"""
        sp = [k.value for k in n.keywords if k.arg is None]
        if len(sp) != 1 or not isinstance(sp[0], ast.Name) or self.env.get(sp[0].id, (None, None))[1] != ty:
            raise Shape("expected exactly one `**params` of type %s: %s" % (ty, ast.unparse(n)))
        return self.lookup(sp[0].id, n)[0]

    def weight_call(self, n):
        """`weight(X[:, 0], X[:, 1], **weight_params)`: elementwise over the rows of X"""
        if len(n.args) != 2 or any(k.arg is not None for k in n.keywords):
            raise Shape("weight call outside the subset: %s" % ast.unparse(n))
        dg = []
        for a in n.args:
            if not (isinstance(a, ast.Subscript) and isinstance(a.value, ast.Name) and isinstance(a.slice, ast.Tuple)):
                raise Shape("weight call on something else than two columns: %s" % ast.unparse(n))
            dg.append(a.value.id)
        if dg[0] != dg[1] or self.row is not None:
            raise Shape("weight call on columns of different arrays: %s" % ast.unparse(n))
        wp = self.splat(n, "WP")
        nm, ty = self.lookup(dg[0], n)
        if ty != "DGM":
            raise Shape("weight call on something else than a diagram: %s" % ast.unparse(n))
        self.row = (dg[0], "r")
        try:
            x, y = self.scalar(n.args[0], "A"), self.scalar(n.args[1], "A")
        finally:
            self.row = None
        w = self.lookup(n.func.id, n)[0]
        return E("%s.map (fun r => %s %s %s %s)" % (nm, w, par(x, 100), par(y, 100), wp), "VEC", 90)

    def kernel_call(self, n):
        """`kernel(bb, pp, mu=row, **kernel_params)` on two flat coordinate arrays: a flat array of values"""
        kws = {k.arg: k.value for k in n.keywords if k.arg is not None}
        if len(n.args) != 2 or set(kws) != {"mu"}:
            raise Shape("kernel call outside the subset: %s" % ast.unparse(n))
        kp = self.splat(n, "KP")
        xs = [self.materialise1(self.expr(a)) for a in n.args]
        mu = self.scalar(kws["mu"], "ROW")
        k = self.lookup(n.func.id, n)[0]
        t = "Arr1.ofList (%s.call %s %s %s.toList %s.toList)" % (k, kp, par(mu, 100), xs[0], xs[1])
        return Arr(("(%s).n" % t,), lambda i: ("(%s).get %s" % (t, arg(i)), 90))

    def method_call(self, n):
        """`self._ensure_iterable(x)`, `self.transform(x, skew=s[, n_jobs=j])` as expressions (`self.fit(…)` is a statement)"""
        m = n.func.attr
        spec = self.cfg.get("methods", {}).get(m)
        if spec is None:
            raise Shape("method self.%s is not in the translator's table" % m)
        if spec["kind"] == "helper":                                      # a model helper on plain arguments
            if len(n.args) != len(spec["params"]) or n.keywords:
                raise Shape("call outside the subset: %s" % ast.unparse(n))
            xs = [self.scalar(a, ty) for a, ty in zip(n.args, spec["params"])]
            return E("%s %s" % (spec["lean"], " ".join(par(x, 100) for x in xs)), spec["ret"], 90)
        if spec["kind"] == "generated":                                   # a translated method: bound against its `def` in the source
            fn = self.ctx["fns"].get(spec["func"])
            if fn is None:
                raise Shape("method %s not found" % spec["func"])
            vals = self.bind_args(n, fn, spec["types"], skip_self=True)
            snm = self.lookup("self", n)[0]
            lead = [self.fparam(f) for f in spec["fparams"]] + [snm] + [self.attr_param(a) for a in spec["attr_params"]]
            return E("%s %s" % (spec["lean"], " ".join(lead + [arg(v) for v in vals])), spec["ret"], 90)
        raise Shape("method self.%s as an expression" % m)

    def attr_param(self, a):
        self.ctx["attr_params"].add(a)
        return a

    def bind_args(self, call, fn, types, skip_self=False):
        """the Lean texts of the arguments of `call`, bound to the parameters of the source's `def fn` (in the order of that
        `def`): positional, keyword, else the parameter's default"""
        a = fn.args
        if a.vararg or a.kwarg or a.kwonlyargs or a.posonlyargs:
            raise Shape("signature of %s is outside the subset" % fn.name)
        names = [x.arg for x in a.args]
        if skip_self:
            if names[:1] != ["self"]:
                raise Shape("%s is not a method" % fn.name)
            names = names[1:]
        dfl = dict(zip([x.arg for x in a.args][len(a.args) - len(a.defaults):], a.defaults))
        if set(names) != set(types):
            raise Shape("parameters of %s are %s, the translator's table has %s" % (fn.name, names, sorted(types)))
        if len(call.args) > len(names) or any(k.arg is None for k in call.keywords):
            raise Shape("call outside the subset: %s" % ast.unparse(call))
        given = dict(zip(names, call.args))
        for k in call.keywords:
            if k.arg not in names or k.arg in given:
                raise Shape("keyword `%s` of the call does not bind a free parameter of %s" % (k.arg, fn.name))
            given[k.arg] = k.value
        out = []
        for nm in names:
            ty = types[nm]
            if nm in given:
                v = self.expr(given[nm], ty)
            else:
                d = dfl.get(nm)
                if d is None:
                    raise Shape("parameter `%s` of %s is not passed and has no default" % (nm, fn.name))
                if isinstance(d, ast.Constant) and isinstance(d.value, bool) and ty == "B":
                    v = E("true" if d.value else "false", "B")
                elif is_none(d) and ty == "NJOBS":
                    v = E("none", "NJOBS")
                else:
                    raise Shape("parameter `%s` of %s is not passed: its default `%s` is outside the subset"
                                % (nm, fn.name, ast.unparse(d)))
            if ty == "A1":
                out.append(self.materialise1(v))
                continue
            if not isinstance(v, E) or v.ty != ty:
                raise Shape("argument `%s` of %s is not a %s" % (nm, fn.name, LEAN_TY.get(ty, ty)))
            out.append(v.t)
        return out

    def mapped_worker(self, n):
        """`[_transform(...) for x in xs]` or `Parallel(n_jobs=n_jobs)(delayed(_transform)(...) for x in xs)`: `xs.mapM …`"""
        worker = self.cfg.get("worker")
        if worker is None:
            return None
        comp = None
        if isinstance(n, ast.ListComp):
            comp, inner = n, n.elt
            if not (isinstance(inner, ast.Call) and isinstance(inner.func, ast.Name) and inner.func.id == worker):
                return None
        elif isinstance(n, ast.Call) and isinstance(n.func, ast.Call) and isinstance(n.func.func, ast.Name) and n.func.func.id == "Parallel":
            pc = n.func
            ok = (len(pc.args) == 0 and len(pc.keywords) == 1 and pc.keywords[0].arg == "n_jobs") or (len(pc.args) == 1 and not pc.keywords)
            if not ok:
                raise Shape("Parallel(...) with other arguments than n_jobs: %s" % ast.unparse(pc))
            nj = pc.keywords[0].value if pc.keywords else pc.args[0]
            if not (isinstance(nj, ast.Name) and self.env.get(nj.id, (None, None))[1] == "NJOBS"):
                raise Shape("Parallel is not given the parameter n_jobs: %s" % ast.unparse(pc))
            self.lookup(nj.id, n)
            if len(n.args) != 1 or n.keywords or not isinstance(n.args[0], ast.GeneratorExp):
                raise Shape("Parallel(...)(…) is not applied to one generator: %s" % ast.unparse(n)[:80])
            comp, inner = n.args[0], n.args[0].elt
            if not (isinstance(inner, ast.Call) and isinstance(inner.func, ast.Call) and isinstance(inner.func.func, ast.Name)
                    and inner.func.func.id == "delayed" and len(inner.func.args) == 1 and not inner.func.keywords
                    and isinstance(inner.func.args[0], ast.Name) and inner.func.args[0].id == worker):
                raise Shape("the generator given to Parallel is not `delayed(%s)(…) for …`" % worker)
        else:
            return None
        if len(comp.generators) != 1 or comp.generators[0].ifs or comp.generators[0].is_async \
                or not isinstance(comp.generators[0].target, ast.Name):
            raise Shape("comprehension outside the subset: %s" % ast.unparse(comp)[:80])
        g = comp.generators[0]
        xs = self.scalar(g.iter, "LDGM")
        fn = self.ctx["fns"].get(worker)
        if fn is None:
            raise Shape("function %s not found" % worker)
        saved_env, saved_order, saved_count, saved_owned = dict(self.env), list(self.order), dict(self.count), set(self.owned)
        k = len(self.pre)
        var = self.bind(g.target.id, "DGM")
        try:
            vals = self.bind_args(inner, fn, self.cfg["worker_types"])
            if len(self.pre) > k:
                raise Shape("an argument of %s can raise" % worker)
        finally:
            self.env, self.order, self.count, self.owned = saved_env, saved_order, saved_count, saved_owned
        lead = [self.fparam(f) for f in self.cfg["worker_fparams"]]
        return E("%s.mapM (fun %s => %s %s)" % (par(xs, 100), var, self.cfg["worker_lean"], " ".join(lead + [arg(v) for v in vals])),
                 "OLIMG", 90)

    # -- statements
    def assigned(self, stmts):
        """python names (re)bound by the statements, nested blocks included"""
        out = []

        def add(x):
            if x not in out:
                out.append(x)

        def tgt(t):
            if isinstance(t, ast.Name):
                add(t.id)
            elif isinstance(t, (ast.Tuple, ast.List)):
                for e in t.elts:
                    tgt(e)
            elif isinstance(t, ast.Subscript):
                b = t
                while isinstance(b, ast.Subscript):
                    b = b.value
                tgt(b)
            elif isinstance(t, ast.Attribute) and isinstance(t.value, ast.Name) and t.value.id == "self":
                add("self")
            else:
                raise Shape("assignment target outside the subset: %s" % ast.unparse(t))
        for s in stmts:
            if isinstance(s, ast.Assign):
                for t in s.targets:
                    tgt(t)
            elif isinstance(s, ast.AugAssign):
                tgt(s.target)
            elif isinstance(s, ast.Expr):
                c = s.value
                if isinstance(c, ast.Call) and isinstance(c.func, ast.Attribute) and isinstance(c.func.value, ast.Name) \
                        and c.func.value.id == "self" and self.cfg.get("methods", {}).get(c.func.attr, {}).get("kind") == "state":
                    add("self")
            elif isinstance(s, ast.If):
                for x in self.assigned(s.body) + self.assigned(s.orelse):
                    add(x)
            elif isinstance(s, ast.For):
                tgt(s.target)
                for x in self.assigned(s.body):
                    add(x)
            elif isinstance(s, (ast.Return, ast.Pass)):
                pass
            else:
                raise Shape("statement outside the subset: %s" % ast.unparse(s).split("\n")[0])
        return out

    @staticmethod
    def returns(stmts):
        """every path through the statements ends in `return`"""
        if not stmts:
            return False
        s = stmts[-1]
        if isinstance(s, ast.Return):
            return True
        return isinstance(s, ast.If) and Tr.returns(s.body) and Tr.returns(s.orelse)

    def block(self, stmts, k):
        if not stmts:
            return k()
        s, rest = stmts[0], stmts[1:]
        return self.stmt(s, rest, lambda: self.block(rest, k), k)

    def bind_value(self, py, v, owned=False):
        """`py = v`: the `let` (an array is materialised), as a function of the continuation's IR"""
        if isinstance(v, Arr):
            if any(v.bc):
                raise Shape("a broadcasting view is bound to a name")
            if len(v.shape) == 1:
                nm = self.bind(py, "A1")
                return lambda body: Let(nm, LEAN_TY["A1"], "⟨%s, fun k => %s⟩" % (v.shape[0], v.fn("k")[0]), body)
            nm = self.bind(py, "A2")
            return lambda body: Let(nm, LEAN_TY["A2"], "⟨%s, %s, fun a b => %s⟩" % (v.shape[0], v.shape[1], v.fn("a", "b")[0]), body)
        if self.pre and self.pre[-1][0] == v.t:                 # the value is the guarded read itself: bind the name there
            nm = self.bind(py, v.ty, owned)
            self.pre[-1] = (nm, self.pre[-1][1])
            return lambda body: body
        nm = self.bind(py, v.ty, owned)
        if v.ty not in LEAN_TY:
            raise Shape("a value of type %s is bound to a name" % v.ty)
        return lambda body: Let(nm, LEAN_TY[v.ty], v.t, body)

    def stmt(self, s, rest, kk, k_end):
        if isinstance(s, ast.Pass):
            return kk()
        if isinstance(s, ast.Return):
            if rest:
                raise Shape("statements after a return")
            return self.ret(s)
        if isinstance(s, ast.Assign):
            return self.assign(s, kk)
        if isinstance(s, ast.AugAssign):
            return self.augassign(s, kk)
        if isinstance(s, ast.Expr):
            return self.expr_stmt(s, kk)
        if isinstance(s, ast.If):
            return self.if_stmt(s, rest, kk, k_end)
        if isinstance(s, ast.For):
            return self.for_stmt(s, kk)
        raise Shape("statement outside the subset: %s" % ast.unparse(s).split("\n")[0])

    def ret(self, s):
        if s.value is None:
            raise Shape("return without a value")
        kind = self.cfg["ret"]
        if isinstance(s.value, ast.Name) and self.env.get(s.value.id, (None, None))[1] == "A2":
            v = E(self.lookup(s.value.id, s)[0], "A2")
        else:
            v = self.expr(s.value)
        pre = self.take_pre()
        if kind == "mat":
            if isinstance(v, E) and v.ty == "A2":
                return self.with_pre(pre, Ret(["%s.toMat" % v.t]))
            raise Shape("the returned value is not a 2-D array: %s" % ast.unparse(s))
        if kind == "output":
            if isinstance(v, E) and v.ty == "A2":
                return self.with_pre(pre, Ret([".image %s.toMat" % v.t]))
            if isinstance(v, E) and v.ty == "IMG":
                return self.with_pre(pre, Ret([".image %s" % par(v, 100)]))
            if isinstance(v, E) and v.ty == "LIMG":
                return self.with_pre(pre, Ret([".images %s" % par(v, 100)]))
            raise Shape("the returned value is neither an image nor a list of images: %s" % ast.unparse(s))
        if kind == "state_output":
            if isinstance(v, E) and v.ty == "OOUT":
                return self.with_pre(pre, Ret([self.lookup("self")[0], v.t]))
            raise Shape("the returned value is not the result of self.transform: %s" % ast.unparse(s))
        raise Shape("internal: return kind %s" % kind)

    def assign(self, s, kk):
        if len(s.targets) != 1:
            raise Shape("chained assignment")
        t, v = s.targets[0], s.value
        # X[:, j] = e  (e built from the columns of X and scalars): the map over the rows
        if isinstance(t, ast.Subscript) and isinstance(t.value, ast.Name) and isinstance(t.slice, ast.Tuple) and len(t.slice.elts) == 2 \
                and full_slice(t.slice.elts[0]) and lit_int(t.slice.elts[1]) in (0, 1):
            nm, ty = self.lookup(t.value.id, s)
            if ty != "DGM" or self.row is not None:
                raise Shape("column assignment outside the subset: %s" % ast.unparse(s))
            if t.value.id not in self.owned:
                raise Shape("`%s` writes into an array that is not this function's own copy (np.copy)" % ast.unparse(s))
            self.row = (t.value.id, "r")
            try:
                e = self.scalar(v, "A")
            finally:
                self.row = None
            if self.pre:
                raise Shape("a column-wise expression can raise: %s" % ast.unparse(s))
            j = lit_int(t.slice.elts[1])
            new = self.bind(t.value.id, "DGM", owned=True)
            text = "%s.map (fun r => %s)" % (nm, "(r.1, %s)" % e.t if j == 1 else "(%s, r.2)" % e.t)
            return Let(new, LEAN_TY["DGM"], text, kk())
        if isinstance(t, ast.Tuple) and all(isinstance(e, ast.Name) for e in t.elts) and len(t.elts) == 2:
            a, b = t.elts[0].id, t.elts[1].id
            # bb, pp = np.meshgrid(x, y, indexing="ij")
            if isinstance(v, ast.Call) and self.safe_dotted(v.func) == "np.meshgrid":
                kws = self.kw(v, ("indexing",))
                if len(v.args) != 2 or not (isinstance(kws.get("indexing"), ast.Constant) and kws["indexing"].value == "ij"):
                    raise Shape("np.meshgrid of two arrays with indexing=\"ij\" is expected: %s" % ast.unparse(v))
                x, y = self.expr(v.args[0]), self.expr(v.args[1])
                for q in (x, y):
                    if isinstance(q, E) or len(q.shape) != 1:
                        raise Shape("np.meshgrid of something else than 1-D arrays: %s" % ast.unparse(v))
                pre = self.take_pre()
                l1 = self.bind_value(a, Arr((x.shape[0], y.shape[0]), lambda i, j: x.fn(i)))
                l2 = self.bind_value(b, Arr((x.shape[0], y.shape[0]), lambda i, j: y.fn(j)))
                return self.with_pre(pre, l1(l2(kk())))
            e = self.expr(v)
            pre = self.take_pre()
            if isinstance(e, E) and e.ty == "ITER":                       # pers_dgms, singular = self._ensure_iterable(pers_dgms)
                n1, n2 = self.bind(a, "LDGM"), self.bind(b, "B")
                return self.with_pre(pre, Let(n1, LEAN_TY["LDGM"], "(%s).1" % e.t, Let(n2, LEAN_TY["B"], "(%s).2" % e.t, kk())))
            raise Shape("tuple assignment outside the subset: %s" % ast.unparse(s))
        if not isinstance(t, ast.Name):
            raise Shape("assignment outside the subset: %s" % ast.unparse(s))
        m = self.mapped_worker(v)
        if m is not None:
            pre = self.take_pre()
            nm = self.bind(t.id, "LIMG")
            return self.with_pre(pre, MatchOpt(m.t, nm, kk()))
        if isinstance(v, ast.Name) and self.env.get(v.id, (None, None))[1] in ("A1", "A2", "DGM", "VEC"):
            raise Shape("a second name for an array (`%s`): arrays are values in the translation, an alias would not be" % ast.unparse(s))
        if isinstance(v, (ast.Subscript, ast.Attribute)) and isinstance(self.expr_quiet(v), Arr):
            raise Shape("a view of an array is bound to a name (`%s`): arrays are values in the translation" % ast.unparse(s))
        # arrays this function makes itself (and may update in place without anyone else seeing it): np.zeros(...), np.copy(X)
        fresh_array = isinstance(v, ast.Call) and (self.safe_dotted(v.func) == "np.zeros"
                                                  or self.cfg.get("calls", {}).get(self.safe_dotted(v.func), ("",))[0] == "id")
        if fresh_array and self.cfg.get("calls", {}).get(self.safe_dotted(v.func), ("",))[0] == "id":
            self.ctx["conversions"].append(ast.unparse(s))                 # the whole statement: target, call and argument
            self.rhs = v
        e = self.expr(v, self.env.get(t.id, (None, None))[1] if self.env.get(t.id, (None, None))[1] in ("A", "N", "Z") else None)
        lt = self.bind_value(t.id, e, owned=fresh_array)
        pre = self.take_pre()
        return self.with_pre(pre, lt(kk()))

    def expr_quiet(self, n):
        """the value of an expression, without keeping the guards it hoists (used to look at its kind only)"""
        k = len(self.pre)
        saved = dict(self.count)
        try:
            return self.expr(n)
        finally:
            del self.pre[k:]
            self.count = saved

    @staticmethod
    def safe_dotted(f):
        try:
            return dotted(f)
        except Shape:
            return None

    def augassign(self, s, kk):
        if not (isinstance(s.op, ast.Add) and isinstance(s.target, ast.Name)):
            raise Shape("augmented assignment outside the subset: %s" % ast.unparse(s).split("\n")[0])
        nm, ty = self.lookup(s.target.id, s)
        if ty != "A2":
            raise Shape("+= on something else than a 2-D array name: %s" % ast.unparse(s).split("\n")[0])
        if s.target.id not in self.owned:
            raise Shape("`%s` updates in place an array that this function did not make itself (np.zeros)" % ast.unparse(s).split("\n")[0])
        v = self.expr(s.value)
        if isinstance(v, E) or len(v.shape) != 2 or any(v.bc):
            raise Shape("+= of something else than a 2-D array: %s" % ast.unparse(s).split("\n")[0])
        pre = self.take_pre()
        new = self.bind(s.target.id, "A2", owned=True)
        return self.with_pre(pre, MatchOpt("Arr2.iadd? %s ⟨%s, %s, fun a b => %s⟩" % (nm, v.shape[0], v.shape[1], v.fn("a", "b")[0]),
                                           new, kk()))

    def expr_stmt(self, s, kk):
        c = s.value
        if isinstance(c, ast.Call) and isinstance(c.func, ast.Attribute) and isinstance(c.func.value, ast.Name) and c.func.value.id == "self":
            spec = self.cfg.get("methods", {}).get(c.func.attr)
            if spec is not None and spec["kind"] == "state":              # self.fit(x, skew=s): the next state, or the model's error
                fn = self.ctx["fns"].get(spec["func"])
                if fn is None:
                    raise Shape("method %s not found" % spec["func"])
                vals = self.bind_args(c, fn, spec["types"], skip_self=True)
                if self.pre:
                    raise Shape("an argument of self.%s can raise" % c.func.attr)
                snm = self.lookup("self", s)[0]
                by = dict(zip([x.arg for x in fn.args.args][1:], vals))
                text = spec["lean"] % dict(by, self=snm, **{f: self.fparam(f) for f in spec["fparams"]})
                new = self.bind("self", "STATE")
                return MatchExc(text, new, kk())
        raise Shape("expression statement outside the subset: %s" % ast.unparse(s).split("\n")[0])

    def cond(self, test):
        c = self.expr(test)
        if not isinstance(c, E) or c.ty != "B":
            raise Shape("test is not a condition: %s" % ast.unparse(test))
        if self.pre:
            raise Shape("a test can raise: %s" % ast.unparse(test))
        return c.t

    def isinstance_scalar(self, s):
        """`if isinstance(x, (int, float)): x = np.array([[x, 0.0], [0.0, x]], dtype=np.float64)` on a `Sigma`: its four entries"""
        t = s.test
        if not (isinstance(t, ast.Call) and isinstance(t.func, ast.Name) and t.func.id == "isinstance" and len(t.args) == 2
                and not t.keywords and isinstance(t.args[0], ast.Name)):
            return None
        x = t.args[0].id
        if self.env.get(x, (None, None))[1] != "SIGMA":
            return None
        cl = t.args[1]
        if not (isinstance(cl, ast.Tuple) and sorted(ast.unparse(e) for e in cl.elts) == ["float", "int"]):
            raise Shape("isinstance test outside the subset: %s" % ast.unparse(t))
        if s.orelse or len(s.body) != 1 or not (isinstance(s.body[0], ast.Assign) and len(s.body[0].targets) == 1
                                                 and isinstance(s.body[0].targets[0], ast.Name) and s.body[0].targets[0].id == x):
            raise Shape("the body of `if %s:` is not one assignment to `%s`" % (ast.unparse(t), x))
        v = s.body[0].value
        if not (isinstance(v, ast.Call) and self.safe_dotted(v.func) == "np.array" and len(v.args) == 1
                and isinstance(v.args[0], ast.List) and len(v.args[0].elts) == 2
                and all(isinstance(r, ast.List) and len(r.elts) == 2 for r in v.args[0].elts)):
            raise Shape("the scalar sigma is not made a 2x2 array literal: %s" % ast.unparse(v))
        kws = self.kw(v, ("dtype",))
        if "dtype" in kws and self.safe_dotted(kws["dtype"]) not in ("np.float64", "float"):
            raise Shape("dtype of the 2x2 array: %s" % ast.unparse(v))
        self.ctx["conversions"].append(ast.unparse(v))
        nm = self.lookup(x, s)[0]
        saved = dict(self.env)
        self.env[x] = ("s", "A")
        try:
            es = [self.scalar(e, "A").t for r in v.args[0].elts for e in r.elts]
        finally:
            self.env = saved
        if self.pre:
            raise Shape("an entry of the 2x2 array can raise")
        new = self.bind(x, "M2")
        return new, ("match %s with\n%%s  | .scalar s => (%s)\n%%s  | .matrix s00 s01 s10 s11 => (s00, s01, s10, s11)"
                     % (nm, ", ".join(es)))

    def if_stmt(self, s, rest, kk, k_end):
        iso = self.isinstance_scalar(s)
        if iso is not None:
            new, text = iso
            return LetMatch(new, LEAN_TY["M2"], text, kk())
        c = self.cond(s.test)
        saved, saved_order, saved_owned = dict(self.env), list(self.order), set(self.owned)
        if self.returns(s.body) and not s.orelse:                       # early return: the rest is the other branch
            a = self.block(list(s.body), lambda: Fail())
            self.env, self.order, self.owned = dict(saved), list(saved_order), set(saved_owned)
            return Ite(c, a, kk())
        if not rest:                                                     # last statement: nothing to join
            a = self.block(list(s.body), k_end)
            self.env, self.order, self.owned = dict(saved), list(saved_order), set(saved_owned)
            b = self.block(list(s.orelse), k_end)
            self.env, self.order, self.owned = dict(saved), list(saved_order), set(saved_owned)
            return Ite(c, a, b)
        asg_a, asg_b = self.assigned(s.body), self.assigned(s.orelse)
        names = [n for n in saved_order if n in asg_a or n in asg_b]
        names += [n for n in asg_a if n in asg_b and n not in saved]
        ndefs = len(self.ctx["defs"])
        loopno = self.ctx["loopno"][0]
        try:
            if not names:
                raise Shape("an `if` without effect: %s" % ast.unparse(s.test))
            tys, own = [], []

            def branch(stmts):
                self.env, self.order, self.owned = dict(saved), list(saved_order), set(saved_owned)

                def end():
                    for n in names:
                        if n not in self.env:
                            raise TypeChange()
                    tys.append([self.env[n][1] for n in names])
                    own.append({n for n in names if n in self.owned})
                    return Ret([self.env[n][0] for n in names])
                return self.block(list(stmts), end)
            a = branch(s.body)
            b = branch(s.orelse)
            if tys[0] != tys[1]:
                raise TypeChange()
        except TypeChange:                                               # a name changes its type in one branch: no join, the rest
            del self.ctx["defs"][ndefs:]                                 # of the function goes into both branches
            self.ctx["loopno"][0] = loopno
            self.env, self.order, self.owned = dict(saved), list(saved_order), set(saved_owned)
            a = self.block(list(s.body) + list(rest), k_end)
            self.env, self.order, self.owned = dict(saved), list(saved_order), set(saved_owned)
            b = self.block(list(s.orelse) + list(rest), k_end)
            return Ite(c, a, b)
        self.env, self.order, self.owned = dict(saved), list(saved_order), set(saved_owned)
        pats = [self.bind(n, ty, owned=(n in own[0] and n in own[1])) for n, ty in zip(names, tys[0])]
        ty = LEAN_TY[tys[0][0]] if len(tys[0]) == 1 else \
            " × ".join(("(%s)" % LEAN_TY[t] if " × " in LEAN_TY[t] else LEAN_TY[t]) for t in tys[0])
        return Join(Ite(c, a, b), tup(pats), ty, kk())

    def for_stmt(self, s, kk):
        if s.orelse or not isinstance(s.target, ast.Name):
            raise Shape("loop outside the subset: %s" % ast.unparse(s).split("\n")[0])
        it = s.iter
        if not (isinstance(it, ast.Call) and isinstance(it.func, ast.Name) and it.func.id == "range" and len(it.args) == 1 and not it.keywords):
            raise Shape("loop outside the subset: %s" % ast.unparse(s).split("\n")[0])
        n = self.scalar(it.args[0], "N")
        if self.pre:
            raise Shape("the bound of a loop can raise")
        k = self.ctx["loopno"][0]
        self.ctx["loopno"][0] += 1
        names = self.cfg.get("loops", [])
        name = names[k] if k < len(names) else "%s_loop_%d" % (self.cfg["lean"].strip("_"), k + 1)
        asg = self.assigned(s.body)
        carried = [x for x in self.order if x in asg and x != s.target.id]
        if len(carried) != 1:
            raise Shape("the loop `%s` re-assigns %s: exactly one accumulated name is in the subset"
                        % (ast.unparse(s).split("\n")[0], carried or "nothing bound before it"))
        cname = carried[0]
        sub = Tr(self.cfg, self.ctx, parent=self)
        sub.parent_names = set(self.env)
        for py in self.order:                                            # every visible name is a potential parameter
            if py != s.target.id:
                sub.env[py] = (sub.fresh(py), self.env[py][1])
                sub.order.append(py)
        params = dict(sub.env)
        sub.owned = {cname} & self.owned                                 # only the accumulated name may be updated in place
        ivar = sub.bind(s.target.id, "N")
        body = sub.block(list(s.body), lambda: Ret([sub.env[cname][0]]))
        if sub.pre:
            raise Shape("internal: pending guards")
        live(body, name)                                   # no dead store among the generated bindings of the loop body
        inv = [py for py in self.order if py in sub.reads and py != cname and py != s.target.id]
        fps = [f for f, _ in self.cfg["fparams"] if f in sub.used_f]
        for f in fps:
            self.fparam(f)
        binders = [(f, dict(self.cfg["fparams"])[f]) for f in fps] + [(params[py][0], LEAN_TY[params[py][1]]) for py in inv] \
            + [(params[cname][0], LEAN_TY[params[cname][1]]), (ivar, "Nat")]
        cty = LEAN_TY[self.env[cname][1]]
        lines = render(body, "  ", (lambda t: "some " + arg(t)) if can_fail(body) else (lambda t: "some " + arg(t)))
        self.ctx["defs"].append((name, "/-- one round of `%s` (the names its body only reads, the accumulated `%s`, the index) -/\n"
                                       "def %s %s : Option (%s) :=\n%s" % (ast.unparse(s).split("\n")[0].rstrip(":"), cname, name,
                                                                            " ".join("(%s : %s)" % b for b in binders), cty, "\n".join(lines))))
        args = fps + [self.lookup(py, s)[0] for py in inv]
        start = self.lookup(cname, s)[0]
        new = self.bind(cname, self.env[cname][1], owned=cname in self.owned)
        return MatchOpt("(List.range %s).foldlM (%s) %s" % (arg(n.t), " ".join([name] + args), start), new, kk())


class TypeChange(Exception):
    pass


# ----------------------------------------------------------------------------- one target

def find_function(tree, qual):
    """(FunctionDef | None, ClassDef | None) of `f` / `Class.m` (plain methods only)"""
    if "." not in qual:
        for n in tree.body:
            if isinstance(n, ast.FunctionDef) and n.name == qual:
                return n, None
        return None, None
    cls, name = qual.split(".")
    for n in tree.body:
        if isinstance(n, ast.ClassDef) and n.name == cls:
            for m in n.body:
                if isinstance(m, ast.FunctionDef) and m.name == name and not m.decorator_list:
                    return m, n
            return None, n
    return None, None


def translate(fn, cfg, ctx):
    """-> list of Lean definition texts (the loop definitions first)"""
    a = fn.args
    if a.vararg or a.kwarg or a.kwonlyargs or a.posonlyargs:
        raise Shape("signature of %s is outside the subset" % fn.name)
    names = [x.arg for x in a.args]
    if set(names) != set(cfg["params"]) or (names and cfg.get("method") and names[0] != "self"):
        raise Shape("parameters of %s are %s, the translator's table has %s" % (fn.name, names, list(cfg["params"])))
    ctx["idents"] = function_idents(fn)
    tr = Tr(cfg, ctx)
    ctx["loopno"] = [0]
    binders = list(cfg["fparams"])
    pybinders = []
    for py in names:
        nm = tr.bind(py, cfg["params"][py])
        pybinders.append((nm, LEAN_TY[cfg["params"][py]]))
        if py == "self":
            pybinders += [(p, t) for p, t in cfg.get("attr_params", [])]
    binders += pybinders
    for f, _ in cfg["fparams"]:
        tr.fparam(f)

    def end():
        raise Shape("a path through %s ends without `return`" % fn.name)
    n0 = len(ctx["defs"])
    node = tr.block(strip_doc(fn.body), end)
    if tr.pre:
        raise Shape("internal: pending guards")
    live(node, cfg["lean"])                                # no dead store among the generated bindings
    monad = cfg.get("monad", "option")
    if monad == "except":
        def has_opt(n):
            if isinstance(n, (Fail, MatchOpt, Raw)):
                return True
            if isinstance(n, (Let, LetMatch, MatchExc)):
                return has_opt(n.body)
            if isinstance(n, Ite):
                return has_opt(n.a) or has_opt(n.b)
            if isinstance(n, Join):
                return has_opt(n.inner) or has_opt(n.body)
            return False
        if has_opt(node):
            raise Shape("a statement of %s other than self.fit(…) can raise" % fn.name)
        wrap = lambda t: ".ok " + arg(t)                                  # noqa: E731
    else:
        wrap = lambda t: "some " + arg(t)                                 # noqa: E731
    groups = []
    for nm, ty in binders:
        if groups and groups[-1][1] == ty:
            groups[-1][0].append(nm)
        else:
            groups.append(([nm], ty))
    sig = " ".join("(%s : %s)" % (" ".join(ns), ty) for ns, ty in groups)
    defs = [t for _, t in ctx["defs"][n0:]]
    defs.append("/-- %s -/\ndef %s %s :\n    %s :=\n%s" % (cfg["doc"], cfg["lean"], sig, cfg["result"], "\n".join(render(node, "  ", wrap))))
    return defs


def attr_writes(cls, attrs):
    """every statement of the class body that (re)binds one of `self.<attrs>` -- or could bind any attribute by name
    (`setattr`, `__dict__`, `vars`) -- as (method, first line of the statement)"""
    out = []
    for m in cls.body:
        if not isinstance(m, (ast.FunctionDef, ast.AsyncFunctionDef)):
            continue
        q = m.name + (".setter" if any(isinstance(d, ast.Attribute) and d.attr == "setter" for d in m.decorator_list) else "")
        for st in ast.walk(m):
            if not isinstance(st, ast.stmt):
                continue
            hit = False
            tg = []
            if isinstance(st, ast.Assign):
                tg = st.targets
            elif isinstance(st, (ast.AugAssign, ast.AnnAssign)):
                tg = [st.target]
            elif isinstance(st, ast.Delete):
                tg = st.targets
            elif isinstance(st, (ast.For, ast.AsyncFor)):
                tg = [st.target]
            elif isinstance(st, (ast.With, ast.AsyncWith)):
                tg = [i.optional_vars for i in st.items if i.optional_vars is not None]
            for t in tg:
                for x in ast.walk(t):
                    if isinstance(x, ast.Attribute) and x.attr in attrs:
                        hit = True
            if isinstance(st, ast.Expr) or isinstance(st, ast.Assign):
                own = [st.value] if isinstance(st, ast.Expr) else [st.value]
                for x in (y for o in own for y in ast.walk(o)):
                    if isinstance(x, ast.Call) and isinstance(x.func, ast.Name) and x.func.id in ("setattr", "delattr", "vars"):
                        hit = True
                    if isinstance(x, ast.Attribute) and x.attr == "__dict__":
                        hit = True
            if hit:
                out.append((q, ast.unparse(st).split("\n")[0]))
    return out


def getter_texts(cls, props):
    out = []
    for m in cls.body:
        if isinstance(m, ast.FunctionDef) and m.name in props \
                and any(isinstance(d, ast.Name) and d.id == "property" for d in m.decorator_list):
            out.append((m.name, ast.unparse(ast.Module(body=strip_doc(m.body), type_ignores=[]))))
    return out


# ----------------------------------------------------------------------------- targets (fixed; reviewed against the models)

REF = "PersimVerif.SrcBridge.Image.Ref"
BR = "PersimVerif.SrcBridge.Image"
VARS1 = "{α WP KP : Type} [Add α] [Sub α] [Mul α] [Div α] [Zero α] [BEq α]"
VARS2 = ("{α WP KP : Type} [Add α] [Sub α] [Mul α] [Div α] [Zero α] [OfNat α 2] [IntCast α]\n"
         "  [LT α] [DecidableLT α] [DecidableEq α] [BEq α]")
F_SQRT, F_PHI, F_SIG = ("sqrt", "α → α"), ("Φ", "α → α"), ("kp_sigma", "KP → Image.Sigma α")
F_CEIL, F_COPY = ("ceil", "α → Int"), ("copy", "Input α → Input α")
WORKER_TYPES = {"pers_dgm": "DGM", "skew": "B", "resolution": "RES", "weight": "WEIGHT", "weight_params": "WP",
                "kernel": "KERNEL", "kernel_params": "KP", "_bpnts": "A1", "_ppnts": "A1"}
ATTR_PARAMS = [("weight", "α → α → WP → α"), ("weight_params", "WP"), ("kernel", "Kernel α KP"), ("kernel_params", "KP")]
SELF_ATTRS = {
    "resolution": ("pair", ("rx", "ry"), "RES"),                      # property: `return self._resolution`
    "weight": ("param", "weight", "WEIGHT"), "weight_params": ("param", "weight_params", "WP"),
    "kernel": ("param", "kernel", "KERNEL"), "kernel_params": ("param", "kernel_params", "KP"),
    "_bpnts": ("mesh", "meshB", "A1"), "_ppnts": ("mesh", "meshP", "A1"),
}
WATCHED_ATTRS = ("_bpnts", "_ppnts", "_resolution", "resolution", "weight", "weight_params", "kernel", "kernel_params")
METHODS = {
    "_ensure_iterable": dict(kind="helper", lean="ensureIterable", params=["INPUT"], ret="ITER"),
    "fit": dict(kind="state", func="PersistenceImager.fit", lean="PersimVerif.Imager.fit %(ceil)s %(self)s %(skew)s %(pers_dgms)s",
                fparams=["ceil"], types={"pers_dgms": "INPUT", "skew": "B"}),
    "transform": dict(kind="generated", func="PersistenceImager.transform", lean="transform", fparams=["sqrt", "Φ", "kp_sigma"],
                      attr_params=["weight", "weight_params", "kernel", "kernel_params"],
                      types={"pers_dgms": "INPUT", "skew": "B", "n_jobs": "NJOBS"}, ret="OOUT"),
}
ARGS1 = "sqrt Φ kp_sigma pers_dgm skew resolution weight weight_params kernel kernel_params _bpnts _ppnts"
BIND1 = ("(sqrt Φ : α → α) (kp_sigma : KP → Image.Sigma α) (pers_dgm : List (α × α)) (skew : Bool) (resolution : Int × Int)\n"
         "    (weight : α → α → WP → α) (weight_params : WP) (kernel : Kernel α KP) (kernel_params : KP) (_bpnts _ppnts : Arr1 α)")
ARGS2 = "sqrt Φ kp_sigma self weight weight_params kernel kernel_params"
BIND2 = ("(sqrt Φ : α → α) (kp_sigma : KP → Image.Sigma α) (self : State α) (weight : α → α → WP → α) (weight_params : WP)\n"
         "    (kernel : Kernel α KP) (kernel_params : KP)")

TARGETS = [
    dict(file="image", func="_transform", lean="_transform", variables=VARS1, fparams=[F_SQRT, F_PHI, F_SIG],
         params=WORKER_TYPES, ret="mat", result="Option (Image.Mat α)", loops=["fast_round", "general_round"],
         calls={"np.copy": ("id",), "np.sqrt": ("scalar_fn", "sqrt"), "images_kernels.norm_cdf": ("elementwise_fn", "Φ")},
         doc="`_transform(pers_dgm, skew, resolution, weight, weight_params, kernel, kernel_params, _bpnts, _ppnts)`, statement by "
             "statement: the image of one diagram (`none`: the source raises)",
         obligations=[
             ("src_fast_round_eq_ref", "", "@fast_round α _ _ _ _ = @%s.fast_round α _ _ _ _" % REF, "rfl",
              "one round of the isotropic loop (the two 1-D normal CDF arrays, their outer table, the inclusion-exclusion of its four "
              "slices, the weighted `+=`) is the reviewed Lean text of the same shape"),
             ("src_general_round_eq_ref", "", "@general_round α KP _ _ _ _ = @%s.general_round α KP _ _ _ _" % REF, "rfl",
              "one round of the general loop (kernel on the flat corner arrays, reshape, inclusion-exclusion, weighted `+=`)"),
             ("src__transform_eq_ref", BIND1, "_transform %s =\n      %s._transform %s" % (ARGS1, REF, ARGS1), "rfl",
              "the generated definition is the reviewed Lean text of the same shape"),
             ("src__transform_eq_model", "(sqrt Φ : α → α) (kp_sigma : KP → Image.Sigma α) (pers_dgm : List (α × α)) (skew : Bool) (rx ry : Nat)\n"
              "    (weight : α → α → WP → α) (weight_params : WP) (kernel : Kernel α KP) (kernel_params : KP) (bs ps : List α)\n"
              "    (h : PersimVerif.Image.meshOk rx ry bs ps)",
              "_transform sqrt Φ kp_sigma pers_dgm skew ((rx : Int), (ry : Int)) weight weight_params kernel kernel_params\n"
              "        (Arr1.ofList bs) (Arr1.ofList ps) =\n"
              "      (PersimVerif.Image.transformOne sqrt Φ (fun p => weight p.1 p.2 weight_params)\n"
              "        (%s.kernelChoice kernel.isGaussian (kp_sigma kernel_params)) (kernel.call kernel_params) rx ry bs ps skew pers_dgm).toOption" % BR,
              "by\n  rw [src__transform_eq_ref]; exact %s.transformOne_eq_model sqrt Φ kp_sigma pers_dgm skew rx ry weight weight_params kernel "
              "kernel_params bs ps h" % BR,
              "**the tie of C04 / C11's model**: for EVERY diagram, weight, kernel and `sigma`, on a mesh of `resolution + 1` points per axis "
              "the translated `_transform` returns exactly what the model `Image.transformOne` returns (`none` for the model's "
              "`Err.reshape`): the dispatch `kernel == gaussian` / scalar-or-matrix sigma / `sigma[0][0] == sigma[1][1] and sigma[0][1] == 0.0` "
              "is the model's `dispatch`, the isotropic loop its `fastPath`, the general loop its `generalPath` (entry-wise arrays "
              "against the model's lists of rows: Lemmas/SrcBridgeImage.lean)"),
             ("src__transform_neg_resolution", BIND1 + "\n    (h : resolution.1 < 0 ∨ resolution.2 < 0)",
              "_transform %s = none" % ARGS1,
              "by\n  rw [src__transform_eq_ref]; exact %s.transformOne_neg_resolution %s h" % (BR, ARGS1),
              "`np.zeros` of a negative dimension raises")]),
    dict(file="image", func="PersistenceImager.transform", lean="transform", variables=VARS2, method=True,
         fparams=[F_SQRT, F_PHI, F_SIG], attr_params=ATTR_PARAMS, self_attrs=SELF_ATTRS, methods=METHODS,
         params={"self": "STATE", "pers_dgms": "INPUT", "skew": "B", "n_jobs": "NJOBS"}, ret="output",
         result="Option (Output (Image.Mat α))", worker="_transform", worker_lean="_transform", worker_types=WORKER_TYPES,
         worker_fparams=["sqrt", "Φ", "kp_sigma"], calls={},
         doc="`PersistenceImager.transform(pers_dgms, skew, n_jobs)` on the geometry state `self` (`weight`, …, `kernel_params`: the "
             "attributes of the same names)",
         obligations=[
             ("src_transform_eq_ref", BIND2 + " (pers_dgms : Input α) (skew : Bool) (n_jobs : Option Nat)",
              "transform %s pers_dgms skew n_jobs =\n      %s.transform (_transform sqrt Φ kp_sigma) self weight weight_params kernel kernel_params pers_dgms skew n_jobs"
              % (ARGS2, REF), "rfl",
              "the generated definition is the reviewed Lean text of the same shape (with the generated `_transform` as the worker)"),
             ("src_transform_eq_model", BIND2 + " (X : Input α) (skew : Bool) (n_jobs : Option Nat)",
              "transform %s X skew n_jobs =\n      %s.seqOutput (PersimVerif.Transformers.imagerTransform\n"
              "        (fun s sk d => _transform sqrt Φ kp_sigma d sk (s.rx, s.ry) weight weight_params kernel kernel_params\n"
              "          (Arr1.ofList (meshB s)) (Arr1.ofList (meshP s)))\n"
              "        %s.npZeros self skew X)" % (ARGS2, BR, BR),
              "by\n  rw [src_transform_eq_ref]; exact %s.transform_eq_model _ self weight weight_params kernel kernel_params X skew n_jobs" % BR,
              "**C18's model**: for every state, input, `skew` and `n_jobs` (serial and joblib branch alike) the translated method is "
              "`Transformers.imagerTransform` with the translated `_transform` on the state's resolution and mesh as the per-diagram image "
              "and `np.zeros(resolution)` for the empty input (`seqOutput`: the first exception of a diagram is the exception of the call): "
              "both branches pass the same arguments, one diagram gives the bare image, a collection the list in order"),
             ("src_transform_eq_image_model", BIND2 + " (X : Input α) (skew : Bool) (n_jobs : Option Nat)\n"
              "    (hx : 0 ≤ self.rx) (hy : 0 ≤ self.ry)",
              "(transform %s X skew n_jobs).map PersimVerif.ImageModels.toOutput =\n"
              "      (PersimVerif.Image.transform (PersimVerif.Image.transformOne sqrt Φ (fun p => weight p.1 p.2 weight_params)\n"
              "          (%s.kernelChoice kernel.isGaussian (kp_sigma kernel_params)) (kernel.call kernel_params) self.rx.toNat self.ry.toNat\n"
              "          (meshB self) (meshP self) skew)\n"
              "        self.rx.toNat self.ry.toNat n_jobs (PersimVerif.ImageModels.toImage X)).toOption" % (ARGS2, BR),
              "by\n  rw [src_transform_eq_ref]\n"
              "  exact %s.transform_eq_image_model (_transform sqrt Φ kp_sigma) _ self weight weight_params kernel kernel_params X skew n_jobs hx hy\n"
              "    (fun d => src__transform_eq_model sqrt Φ kp_sigma d skew _ _ weight weight_params kernel kernel_params _ _\n"
              "      (%s.meshOk_state self hx hy))" % (BR, BR),
              "**C04 / C11's model**: on a state with a non-negative resolution (what `np.zeros` accepts) the translated method is "
              "`Image.transform` with the model's `transformOne` on the state's own mesh, for every `n_jobs`")]),
    dict(file="image", func="PersistenceImager.fit_transform", lean="fit_transform", variables=VARS2, method=True, monad="except",
         fparams=[F_CEIL, F_SQRT, F_PHI, F_SIG, F_COPY], attr_params=ATTR_PARAMS, self_attrs=SELF_ATTRS, methods=METHODS,
         params={"self": "STATE", "pers_dgms": "INPUT", "skew": "B"}, ret="state_output",
         result="Except PersimVerif.Imager.Err (State α × Option (Output (Image.Mat α)))",
         calls={"copy.deepcopy": ("input_fn", "copy")},
         doc="`PersistenceImager.fit_transform(pers_dgms, skew)`: the state after the call and what it returns (`.error`: `fit` raises)",
         obligations=[
             ("src_fit_transform_eq_ref", "(ceil : α → Int) (sqrt Φ : α → α) (kp_sigma : KP → Image.Sigma α) (copy : Input α → Input α) (self : State α)\n"
              "    (weight : α → α → WP → α) (weight_params : WP) (kernel : Kernel α KP) (kernel_params : KP) (pers_dgms : Input α) (skew : Bool)",
              "fit_transform ceil sqrt Φ kp_sigma copy self weight weight_params kernel kernel_params pers_dgms skew =\n"
              "      %s.fit_transform (transform sqrt Φ kp_sigma) ceil copy self weight weight_params kernel kernel_params pers_dgms skew" % REF,
              "rfl", "the generated definition is the reviewed Lean text of the same shape (with the generated `transform`)"),
             ("src_fit_transform_eq_model", "(ceil : α → Int) (sqrt Φ : α → α) (kp_sigma : KP → Image.Sigma α) (copy : Input α → Input α) (self : State α)\n"
              "    (weight : α → α → WP → α) (weight_params : WP) (kernel : Kernel α KP) (kernel_params : KP) (X : Input α) (skew : Bool)",
              "fit_transform ceil sqrt Φ kp_sigma copy self weight weight_params kernel kernel_params X skew =\n"
              "      (PersimVerif.Transformers.imagerFitTransform ceil\n"
              "        (fun s sk d => _transform sqrt Φ kp_sigma d sk (s.rx, s.ry) weight weight_params kernel kernel_params\n"
              "          (Arr1.ofList (meshB s)) (Arr1.ofList (meshP s)))\n"
              "        %s.npZeros copy self skew X).map fun r => (r.1, %s.seqOutput r.2)" % (BR, BR),
              "by\n  rw [src_fit_transform_eq_ref]\n"
              "  exact %s.fit_transform_eq_model _ _ ceil copy self weight weight_params kernel kernel_params X skew\n"
              "    (fun s X sk => src_transform_eq_model sqrt Φ kp_sigma s weight weight_params kernel kernel_params X sk none)" % BR,
              "**C18's model**: `deepcopy`, `fit` (the model's `Imager.fit`, tied by Generated/SrcImager.lean), then `transform` of the "
              "COPY with the SAME `skew` on the fitted state: `Transformers.imagerFitTransform`")]),
]
PIN_TARGET = dict(file="image", func="PersistenceImager._ensure_iterable", lean="ensure_iterable")

# reviewed texts
ENSURE_ITERABLE_BODY = (
    "try:\n    singular = not isinstance(pers_dgms[0][0], Iterable)\nexcept IndexError:\n    singular = False\n"
    "if singular:\n    pers_dgms = [pers_dgms]\nreturn (pers_dgms, singular)")
CONVERSIONS = ["pers_dgm = np.copy(pers_dgm)", "np.array([[sigma, 0.0], [0.0, sigma]], dtype=np.float64)"]
ATTR_WRITES = [
    ("__init__", "self.weight, self.kernel = self._ensure_callable(weight=weight, kernel=kernel)"),
    ("__init__", "self.weight_params = weight_params"),
    ("__init__", "self.kernel_params = kernel_params"),
    ("__init__", "self._resolution = (self._n_pixels(birth_range[1] - birth_range[0]), self._n_pixels(pers_range[1] - pers_range[0]))"),
    ("pixel_size.setter", "self._resolution = (self._n_pixels(self.birth_range[1] - self.birth_range[0]), self._n_pixels(self.pers_range[1] - self.pers_range[0]))"),
    ("birth_range.setter", "self._resolution = (self._n_pixels(self.birth_range[1] - self.birth_range[0]), self._resolution[1])"),
    ("pers_range.setter", "self._resolution = (self._resolution[0], self._n_pixels(self.pers_range[1] - self.pers_range[0]))"),
    ("_create_mesh", "self._bpnts = np.linspace(self._birth_range[0], self._birth_range[1] + self._pixel_size, self._resolution[0] + 1, endpoint=False, dtype=np.float64)"),
    ("_create_mesh", "self._ppnts = np.linspace(self._pers_range[0], self._pers_range[1] + self._pixel_size, self._resolution[1] + 1, endpoint=False, dtype=np.float64)"),
]
GETTERS = [("resolution", "return self._resolution")]
BINDINGS = {
    "image": [
        ("IndexError", "builtin"),
        ("Iterable", "from typing import Iterable"),
        ("Parallel", "from joblib import Parallel"),
        ("TransformerMixin", "from sklearn.base import TransformerMixin"),
        ("_transform", "def _transform"),
        ("copy", "import copy"),
        ("delayed", "from joblib import delayed"),
        ("float", "builtin"),
        ("images_kernels", "from persim import images_kernels"),
        ("int", "builtin"),
        ("isinstance", "builtin"),
        ("len", "builtin"),
        ("np", "import numpy as np"),
        ("range", "builtin"),
        ("class PersistenceImager", "class PersistenceImager(TransformerMixin)"),
        ("PersistenceImager._ensure_iterable", "def _ensure_iterable"),
        ("PersistenceImager.fit", "def fit"),
        ("PersistenceImager.fit_transform", "def fit_transform"),
        ("PersistenceImager.resolution", "@property def resolution"),
        ("PersistenceImager.transform", "def transform"),
    ],
}
SIGNATURES = {
    ("image", "_transform"): "def _transform(pers_dgm, skew=True, resolution=None, weight=None, weight_params=None, kernel=None, "
                             "kernel_params=None, _bpnts=None, _ppnts=None)",
    ("image", "PersistenceImager.transform"): "def transform(self, pers_dgms, skew=True, n_jobs=None)",
    ("image", "PersistenceImager.fit_transform"): "def fit_transform(self, pers_dgms, skew=True)",
    ("image", "PersistenceImager._ensure_iterable"): "def _ensure_iterable(self, pers_dgms)",
}

FILES = {
    # key: (python source, generated Lean file, Lean namespace, imports, property, opened namespaces)
    "image": ("persim/images.py", "SrcImage.lean", "PersimVerif.Src.images_image",
              "PersimVerif.Model.Image\nimport PersimVerif.Model.Transformers\nimport PersimVerif.Lemmas.SrcLibImage\n"
              "import PersimVerif.Lemmas.SrcBridgeImage", "C04",
              "PersimVerif PersimVerif.Imager PersimVerif.Transformers PersimVerif.SrcLib.Image"),
}
BRIDGES = {"image": ["PersimVerif/Lemmas/SrcLibImage.lean", "PersimVerif/Lemmas/SrcBridgeImage.lean"]}


# ----------------------------------------------------------------------------- notes for the harness modules

def trusted_note(key):
    """the entry a harness module adds to its TRUSTED list"""
    return ("harness/translator/py2lean.py + py2lean_image.py (statement-level ast translation of _transform, "
            "PersistenceImager.transform and PersistenceImager.fit_transform of %s into Generated/%s, proved equal on every run to the "
            "reviewed Lean text `Ref.*` of Lemmas/SrcBridgeImage.lean and through it to the hand-written models Image.transformOne / "
            "Image.transform / Transformers.imagerTransform / imagerFitTransform; its stated conventions -- SSA, `none` for an exception, "
            "NumPy float arrays read entry-wise with their shapes computed alongside (slices, x[None, :] * y[:, None], meshgrid(ij), "
            "flatten(C), reshape(C), += on equal shapes), an (n, 2) diagram as its list of rows, the weight / kernel callables and their "
            "parameter dicts as opaque values with the operations performed on them as parameters (elementwise weight, "
            "kernel == images_kernels.gaussian, kernel_params[\"sigma\"] a scalar or a 2x2 matrix), calls of _transform bound against its "
            "`def` with defaults filled in, a list comprehension and joblib.Parallel(n_jobs)(delayed(f)(..) for ..) both as the ordered map, "
            "self._bpnts / self._ppnts as the mesh of the geometry state, names resolved by spelling with their bindings pinned as text -- "
            "its tables (parameter types, the attribute and method maps, loop names, the obligation statements and proof scripts, the "
            "reviewed texts of _ensure_iterable / signatures / bindings / attribute writes / getters) and Lemmas/SrcLibImage.lean (Arr1, "
            "Arr2, zeros?, iadd?, reshape?, Kernel, inputLen) are trusted)" % (FILES[key][0], FILES[key][1]))


def manifest_note(key):
    """sentence appended to MANIFEST['note'] of a property that uses `key`"""
    return ("Source translator (image assembly): _transform, PersistenceImager.transform and PersistenceImager.fit_transform of %s are "
            "re-translated from the source text into Lean on every run (Generated/%s), statement by statement -- NumPy arrays read "
            "entry-wise (`pers_img[a][b]`), each loop over the points a `foldlM` of its own definition, the dispatch "
            "`kernel == gaussian` / scalar-or-matrix sigma / `sigma[0][0] == sigma[1][1] and sigma[0][1] == 0.0` translated as written, "
            "both the serial and the joblib branch of `transform` with the arguments they pass bound against `_transform`'s `def`, "
            "`none` where the source raises -- and proved EQUAL to the hand-written models: `src__transform_eq_model` (for every "
            "diagram, weight, kernel and sigma, on a mesh of resolution + 1 points: translated `_transform` = `Image.transformOne`, "
            "the model of C04 / C11's theorems; both paths), `src_transform_eq_model` / `src_fit_transform_eq_model` (every state, "
            "input, skew, n_jobs: = `Transformers.imagerTransform` / `imagerFitTransform`, C18's models, with the translated "
            "`_transform` as the per-diagram image), `src_transform_eq_image_model` (= `Image.transform`, C11's model of the call "
            "styles), via the reviewed Lean text `Ref.*` of the same shape (`src_<def>_eq_ref`, by rfl) and the lemmas of "
            "Lemmas/SrcBridgeImage.lean (entry-wise arrays against the model's lists of rows: the four slices, reshape, the flattened "
            "meshgrid, the loops).  An edit of a translated line breaks the obligation of the definition it lands in (or "
            "`srcShape_<f>_recognised` when it leaves the subset) and triggers the failing-input search, except a renaming of locals or "
            "a reordering that the `let`s absorb.  Pinned as text: the body of `_ensure_iterable` (`src_ensure_iterable_skeleton`; its "
            "model is `Imager.ensureIterable`), the four signatures, the constructions `pers_dgm = np.copy(pers_dgm)` and `np.array([[sigma, 0.0], "
            "[0.0, sigma]], dtype=np.float64)` (`src__transform_conversions`), the module- and class-level bindings of the names used "
            "(`src_image_bindings`), every assignment in the class to the attributes `transform` reads (`src_image_attr_writes`) and "
            "the getter of `resolution` (`src_image_getters`).  Not tied by this translator: float rounding, `_validate_parameters` / "
            "`_ensure_callable`, that the weight and kernel callables act elementwise, joblib itself (trusted: the translator's stated "
            "conventions, its tables, Lemmas/SrcLibImage.lean)." % (FILES[key][0], FILES[key][1]))


# ----------------------------------------------------------------------------- output

def header(key):
    py, out, ns, imports, prop, opens = FILES[key]
    doc = __doc__.strip().split("\n")
    conv = "\n".join(doc[doc.index("Semantics of the subset (the translator's conventions):"):])
    return (
        "import %s\n"
        "/-!\n"
        "GENERATED by harness/translator/py2lean.py (image engine py2lean_image.py) from %s — do not edit;\n"
        "rewritten on every run (`pre_build` of C04, C11, C18).\n\n"
        "`_transform`, `PersistenceImager.transform`, `PersistenceImager.fit_transform` translated STATEMENT BY STATEMENT (`ast`).\n"
        "Obligations:\n"
        "  * `src_<def>_eq_ref`: every generated definition equals the reviewed Lean text of the same shape in\n"
        "    Lemmas/SrcBridgeImage.lean (`Ref.*`) by `rfl`, so an edit of a translated line -- other than a renaming of locals or a\n"
        "    reordering the `let`s absorb -- breaks the obligation of the definition it lands in;\n"
        "  * `src__transform_eq_model`: the translated `_transform` EQUALS the hand-written model `Image.transformOne` of\n"
        "    Model/Image.lean for every diagram, weight, kernel and sigma on a mesh of `resolution + 1` points per axis (both paths\n"
        "    and the dispatch between them); `src__transform_neg_resolution`: a negative resolution raises;\n"
        "  * `src_transform_eq_model`, `src_fit_transform_eq_model`: the translated methods equal `Transformers.imagerTransform` /\n"
        "    `imagerFitTransform` of Model/Transformers.lean for every state, input, `skew`, `n_jobs`, with the translated `_transform`\n"
        "    on the state's resolution and mesh as the per-diagram image; `src_transform_eq_image_model`: … equals `Image.transform`\n"
        "    with the model's `transformOne` (C11's model of the call styles) on a state of non-negative resolution;\n"
        "  * text pins: `src_ensure_iterable_skeleton`, `src_…_signature`, `src__transform_conversions`, `src_image_bindings`,\n"
        "    `src_image_attr_writes`, `src_image_getters`.\n\n"
        "%s\n"
        "A source outside the subset gives `def srcShape_<f> : Bool := false`, and `srcShape_<f>_recognised` fails.\n"
        "-/\n"
        "set_option linter.unusedVariables false\n"
        "set_option linter.unusedSectionVars false\n"
        "set_option linter.unusedSimpArgs false\n\n"
        "namespace %s\nopen %s\n" % (imports, py, conv, ns, opens))


def sig_label(func):
    """`_transform` keeps its underscore (`src__transform_signature`); methods as `sanitize` names them"""
    return func if "." not in func else sanitize(func)


def render_sig(func, text, expected):
    s = sig_label(func)
    return ("/-- decorators and `def` line of `%s` (defaults and annotations as `ast.unparse` prints them) -/\n"
            "def srcSignature_%s : String :=\n  %s\n"
            "theorem src_%s_signature : srcSignature_%s =\n  %s := rfl\n" % (func, s, lean_str(text), s, s, lean_str(expected)))


def str_pairs(name, doc, entries, expected, thm):
    def lst(es, ind):
        return "[" + (",\n" + ind).join("(%s, %s)" % (lean_str(a), lean_str(b)) for a, b in es) + "]"
    return ("/-- %s -/\ndef %s : List (String × String) :=\n  %s\ntheorem %s : %s =\n  %s := rfl\n"
            % (doc, name, lst(entries, "   "), thm, name, lst(expected, "   ")))


def render_file(key, root):
    from . import py2lean as _base
    py, out, ns, imports, prop, opens = FILES[key]
    o = [header(key)]
    info = {"source": py, "output": "/".join([GEN.replace(os.sep, "/"), out]), "functions": {}}
    tree, ferr = None, None
    try:
        tree = ast.parse(open(os.path.join(root, py)).read())
    except (OSError, SyntaxError) as e:
        ferr = "%s: %s" % (type(e).__name__, e)
    cfgs = TARGETS + [PIN_TARGET]
    found = {c["func"]: (find_function(tree, c["func"]) if tree is not None else (None, None)) for c in cfgs}
    o.append(bindings_section(key, tree, [(c["func"], found[c["func"]][0], found[c["func"]][1]) for c in cfgs],
                              BINDINGS.get(key), ferr, info))
    fns = {q: f for q, (f, _) in found.items() if f is not None}
    for spec in METHODS.values():                                        # methods that are called but translated elsewhere (`fit`)
        if spec.get("func") and spec["func"] not in fns and tree is not None:
            m = find_function(tree, spec["func"])[0]
            if m is not None:
                fns[spec["func"]] = m
    ctx = {"fns": fns, "defs": [], "loopno": [0], "attr_params": set(), "conversions": []}
    cls = next((c for _, c in found.values() if c is not None), None)
    for cfg in TARGETS:
        f = cfg["lean"]
        o.append("/-! ### `%s`  (from `%s` of %s) -/" % (f, cfg["func"], py))
        o.append("section")
        o.append("variable " + cfg["variables"] + "\n")
        err, defs = ferr, None
        if err is None and cfg["func"] not in fns:
            err = "Shape: function %s not found" % cfg["func"]
        if err is None:
            try:
                ctx["conversions"] = []
                defs = translate(fns[cfg["func"]], cfg, ctx)
            except Shape as e:
                err = "Shape: %s" % e
            except Exception as e:                       # anything else the source makes the translator do: outside the subset
                err = "%s: %s" % (type(e).__name__, e)
        if err is not None:
            o.append("/-- the translator could not read the source: %s -/" % err.replace("-/", "- /").replace("/-", "/ -").replace("\n", " "))
            o.append("def srcShape_%s : Bool := false" % f)
            o.append("theorem srcShape_%s_recognised : srcShape_%s = true := by decide\n" % (f, f))
            o.append("end\n")
            info["functions"][f] = {"error": err}
            continue
        o.append("def srcShape_%s : Bool := true" % f)
        o.append("theorem srcShape_%s_recognised : srcShape_%s = true := by decide\n" % (f, f))
        for d in defs:
            o.append(d + "\n")
        names = ["srcShape_%s_recognised" % f]
        for name, binders, stmt, proof, doc in cfg["obligations"]:
            o.append("/-- %s -/" % doc)
            o.append("theorem %s%s :\n    %s := %s\n" % (name, (" " + binders) if binders else "", stmt, proof))
            names.append(name)
        o.append(render_sig(cfg["func"], signature_text(fns[cfg["func"]]), SIGNATURES.get((key, cfg["func"]), "")))
        names.append("src_%s_signature" % sig_label(cfg["func"]))
        if cfg["lean"] == "_transform":
            o.append("/-- the array constructions of `_transform` that the translation reads through (the private copy of the diagram; a "
                     "scalar `sigma` becomes the four entries of the 2x2 array), as written: the dtype is part of the text -/")
            o.append("def srcConversions__transform : List String :=\n  [%s]" % ", ".join(lean_str(t) for t in ctx["conversions"]))
            o.append("theorem src__transform_conversions : srcConversions__transform =\n  [%s] := rfl\n" % ", ".join(lean_str(t) for t in CONVERSIONS))
            names.append("src__transform_conversions")
        o.append("end\n")
        info["functions"][f] = {"obligations": names}
    # text pins
    o.append("/-! ### text pins -/\n")
    pf = fns.get(PIN_TARGET["func"])
    names = []
    body = ast.unparse(ast.Module(body=strip_doc(pf.body), type_ignores=[])) if pf is not None else "(not found)"
    o.append("/-- the body of `PersistenceImager._ensure_iterable`, as `ast.unparse` prints it (nothing of it is translated: try / except / "
             "isinstance glue on Python values; its model is `Imager.ensureIterable`, which the translations of `fit` and `transform` call) -/")
    o.append("def srcSkeleton_ensure_iterable : String :=\n  %s" % lean_str(body))
    o.append("theorem src_ensure_iterable_skeleton : srcSkeleton_ensure_iterable =\n  %s := rfl\n" % lean_str(ENSURE_ITERABLE_BODY))
    names.append("src_ensure_iterable_skeleton")
    if pf is not None:
        o.append(render_sig(PIN_TARGET["func"], signature_text(pf), SIGNATURES.get((key, PIN_TARGET["func"]), "")))
        names.append("src_%s_signature" % sig_label(PIN_TARGET["func"]))
    o.append(str_pairs("srcAttrWrites_image",
                       "every statement of the class that (re)binds `self.<a>` for an attribute `a` that `transform` reads (or could bind any "
                       "attribute by name: `setattr`, `__dict__`): the translation reads `self._bpnts` / `self._ppnts` as the mesh of the geometry "
                       "state and `self.weight`, … as what `__init__` stored -- this is where they are written (method, first line of the statement)",
                       attr_writes(cls, WATCHED_ATTRS) if cls is not None else [("(class not found)", "")], ATTR_WRITES, "src_image_attr_writes"))
    names.append("src_image_attr_writes")
    o.append(str_pairs("srcGetters_image", "the getters of the properties the translated methods read, as `ast.unparse` prints their bodies",
                       getter_texts(cls, [g for g, _ in GETTERS]) if cls is not None else [("(class not found)", "")], GETTERS,
                       "src_image_getters"))
    names.append("src_image_getters")
    info["functions"]["pins"] = {"obligations": names}
    if tree is not None:
        nt = {py: not_translated(py, tree, _base.all_target_functions(py))}
        info["not_translated"] = nt
        o.append(not_translated_comment(sorted(nt.items())))
    o.append("end %s\n" % ns)
    return "\n".join(o), info
