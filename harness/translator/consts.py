"""
Constant translator for C13 (DESIGN.md 3.2).

Parses  <PERSIM_ROOT>/persim/images_kernels.py  with `ast` and writes
lean/PersimVerif/Generated/KernelConsts.lean  containing, as exact `Rat` literals (the decimal literal
*as written in the source* -> the rational it denotes, before any float rounding):

  * the `if/elif/else` chain of `gauss_legendre_quad`: per branch its threshold, `lg`, the weight array `w`
    and the node array `x`;
  * every comparison against a numeric literal in `gaussian`, `bvn_cdf`, `gauss_legendre_quad`
    (function, left operand as source text, operator, literal), in source order;
  * every numeric literal of `uniform`, `norm_cdf`, `sbvn_cdf`, `bvn_cdf`, in source order
    (this is what pins 4.0/8.0, 12.0/16.0, 5.0, 3.0, 2.0*pi … of Genz's expansion);
  * the EXPRESSION STRUCTURE of `bvn_cdf` and `gauss_legendre_quad`: the text of each function (decorators, `def` line, every
    statement as `ast.unparse` prints it; the docstring dropped, the long numeric tables -- pinned digit by digit above --
    written `[...]`), line by line, compared with the reviewed text EXPECTED_STRUCTURE below.  The digits say which numbers
    occur; this says how they are combined (`np.maximum(dh, dk)`, `(1.0 - x)` / `(1.0 + x)`, `return (lg, w, x)`, …);
  * the module-level bindings of the names those two functions use (`np`, `norm_cdf`, `gauss_legendre_quad`, `abs`, `len`);

together with the proof obligations (all discharged by kernel evaluation over `Rat`, `decide +kernel`; no Mathlib):
counts match `lg`; weights sum to 1 within 1e-15; nodes strictly inside (0,1) and strictly decreasing; the
Gauss-Legendre moment conditions  sum_i w_i x_i^(2k) = 1/(2k+1)  for k = 0 .. 2*lg-1  within 1e-15 (2*lg equations
for 2*lg unknowns: they determine the rule); every node is a root of the Legendre polynomial P_{2 lg} within 1e-14 and
every weight equals 2/((1-x^2) P'_{2 lg}(x)^2) within 1e-15; the tables and thresholds equal, digit for digit, the
ones in the hand-written model (PersimVerif/Model/Kernels.lean: gl3/gl6/gl10, thrGL3, thrGL6, thrBranch, cut*);
the comparisons equal Genz's (0.3, 0.75, 0.925, -100 three times, with their operators and operands).

The file is rewritten on every run (check.py calls `pre_build`); on an unchanged source tree the output is
byte-identical.  A changed digit, threshold, operator or literal in the source makes an obligation fail to build, and so
does any other edit of a statement of `bvn_cdf` / `gauss_legendre_quad` (`structure_*`), harmless or not.  The structure
obligations pin the TEXT only: that Genz's expansion as written is accurate is C13's [T] part, not a theorem.
"""
import ast, copy, os
from fractions import Fraction

from .py2lean import lean_str, file_bindings

FILE = os.path.join("persim", "images_kernels.py")
OUT = os.path.join("PersimVerif", "Generated", "KernelConsts.lean")

OPS = {ast.Lt: "<", ast.Gt: ">", ast.LtE: "<=", ast.GtE: ">=", ast.Eq: "==", ast.NotEq: "!="}

# what the source must say (Genz's bvnl.m / tvpack thresholds; the dispatch test of `gaussian`)
EXPECTED_COMPARES = [
    ("gaussian", "sigma[0][1]", "==", "0.0"),
    ("bvn_cdf", "abs(r)", "<", "0.925"),
    ("bvn_cdf", "r", "<", "0"),
    ("bvn_cdf", "abs(r)", "<", "1"),
    ("bvn_cdf", "asr", ">", "-100"),
    ("bvn_cdf", "hk", ">", "-100"),
    ("bvn_cdf", "asr1", ">", "-100"),
    ("bvn_cdf", "r", ">", "0"),
    ("bvn_cdf", "r", "<", "0"),
    ("gauss_legendre_quad", "np.abs(r)", "<", "0.3"),
    ("gauss_legendre_quad", "np.abs(r)", "<", "0.75"),
]
# numeric literals of the anchored functions in source order (defaults included), as reviewed against the model
EXPECTED_LITERALS = {
    "uniform": "1 1 0 2 0 1 2 0",                      # width=1 height=1 mu[0] /2 ,0) mu[1] /2 ,0)
    "norm_cdf": "2.0 2.0",
    "sbvn_cdf": "0.0 0.0 1.0 1.0",
    "bvn_cdf": "0.0 0.0 1.0 1.0 0.0 "                  # defaults
               "0.925 2.0 1.0 2.0 1.0 2.0 1 1 1 4 "    # |r| < 0.925: hs/2, sn1, sn2, 1-sn12, 1-sn22, axis=1, 4*pi
               "0 1 1.0 1.0 4.0 8.0 12.0 16.0 -1.0 2.0 "   # r<0, |r|<1, opmr, rhk8, rhk16, asr
               "-100 1.0 1.0 5.0 3.0 5.0 "             # asr > -100 and the leading term
               "-100 2.0 2.0 1.0 1.0 5.0 3.0 "         # hk > -100, sqrt(2 pi), exp(-hk/2), correction term
               "2 -1 1 1 -1.0 2.0 -100 1.0 1.0 1.0 2.0 1.0 1 2.0 "  # sopmr/2, ix, rs, asr1, cut, sp1, ep1, axis, 2 pi
               "0 0 0",                                # r > 0, r < 0, maximum(0, …)
}
EXPECTED_LG = [3, 6, 10]
# how the constants are combined: the reviewed text of the two functions (see `structure`); Genz's bvnl.m, Drezner-Wesolowsky
EXPECTED_STRUCTURE = {
    'gauss_legendre_quad': """
def gauss_legendre_quad(r):
    if np.abs(r) < 0.3:
        lg = 3
        w = np.array([...])
        x = np.array([...])
    elif np.abs(r) < 0.75:
        lg = 6
        w = np.array([...])
        x = np.array([...])
    else:
        lg = 10
        w = np.array([...])
        x = np.array([...])
    return (lg, w, x)
""",
    'bvn_cdf': """
def bvn_cdf(x, y, mu_x=0.0, mu_y=0.0, sigma_xx=1.0, sigma_yy=1.0, sigma_xy=0.0):
    dh = -(x - mu_x) / np.sqrt(sigma_xx)
    dk = -(y - mu_y) / np.sqrt(sigma_yy)
    hk = np.multiply(dh, dk)
    r = sigma_xy / np.sqrt(sigma_xx * sigma_yy)
    lg, w, x = gauss_legendre_quad(r)
    dim1 = np.ones((len(dh),), dtype=np.float64)
    dim2 = np.ones((lg,), dtype=np.float64)
    bvn = np.zeros((len(dh),), dtype=np.float64)
    if abs(r) < 0.925:
        hs = (np.multiply(dh, dh) + np.multiply(dk, dk)) / 2.0
        asr = np.arcsin(r)
        sn1 = np.sin(asr * (1.0 - x) / 2.0)
        sn2 = np.sin(asr * (1.0 + x) / 2.0)
        dim1w = np.outer(dim1, w)
        hkdim2 = np.outer(hk, dim2)
        hsdim2 = np.outer(hs, dim2)
        dim1sn1 = np.outer(dim1, sn1)
        dim1sn2 = np.outer(dim1, sn2)
        sn12 = np.multiply(sn1, sn1)
        sn22 = np.multiply(sn2, sn2)
        bvn = asr * np.sum(np.multiply(dim1w, np.exp(np.divide(np.multiply(dim1sn1, hkdim2) - hsdim2, 1 - np.outer(dim1, sn12)))) + np.multiply(dim1w, np.exp(np.divide(np.multiply(dim1sn2, hkdim2) - hsdim2, 1 - np.outer(dim1, sn22)))), axis=1) / (4 * np.pi) + np.multiply(norm_cdf(-dh), norm_cdf(-dk))
    else:
        if r < 0:
            dk = -dk
            hk = -hk
        if abs(r) < 1:
            opmr = (1.0 - r) * (1.0 + r)
            sopmr = np.sqrt(opmr)
            xmy2 = np.multiply(dh - dk, dh - dk)
            xmy = np.sqrt(xmy2)
            rhk8 = (4.0 - hk) / 8.0
            rhk16 = (12.0 - hk) / 16.0
            asr = -1.0 * (np.divide(xmy2, opmr) + hk) / 2.0
            ind = asr > -100
            bvn[ind] = sopmr * np.multiply(np.exp(asr[ind]), 1.0 - np.multiply(np.multiply(rhk8[ind], xmy2[ind] - opmr), (1.0 - np.multiply(rhk16[ind], xmy2[ind]) / 5.0) / 3.0) + np.multiply(rhk8[ind], rhk16[ind]) * opmr * opmr / 5.0)
            ind = hk > -100
            ncdfxmyt = np.sqrt(2.0 * np.pi) * norm_cdf(-xmy / sopmr)
            bvn[ind] = bvn[ind] - np.multiply(np.multiply(np.multiply(np.exp(-hk[ind] / 2.0), ncdfxmyt[ind]), xmy[ind]), 1.0 - np.multiply(np.multiply(rhk8[ind], xmy2[ind]), (1.0 - np.multiply(rhk16[ind], xmy2[ind]) / 5.0) / 3.0))
            sopmr = sopmr / 2
            for ix in [-1, 1]:
                xs = np.multiply(sopmr + sopmr * ix * x, sopmr + sopmr * ix * x)
                rs = np.sqrt(1 - xs)
                xmy2dim2 = np.outer(xmy2, dim2)
                dim1xs = np.outer(dim1, xs)
                dim1rs = np.outer(dim1, rs)
                dim1w = np.outer(dim1, w)
                rhk16dim2 = np.outer(rhk16, dim2)
                hkdim2 = np.outer(hk, dim2)
                asr1 = -1.0 * (np.divide(xmy2dim2, dim1xs) + hkdim2) / 2.0
                ind1 = asr1 > -100
                cdim2 = np.outer(rhk8, dim2)
                sp1 = 1.0 + np.multiply(np.multiply(cdim2, dim1xs), 1.0 + np.multiply(rhk16dim2, dim1xs))
                ep1 = np.divide(np.exp(np.multiply(np.divide(-np.multiply(hkdim2, 1.0 - dim1rs), 2.0 * (1.0 + dim1rs)), ind1)), dim1rs)
                bvn = bvn + np.sum(np.multiply(np.multiply(np.multiply(sopmr, dim1w), np.exp(np.multiply(asr1, ind1))), np.multiply(ep1, ind1) - np.multiply(sp1, ind1)), axis=1)
            bvn = -bvn / (2.0 * np.pi)
        if r > 0:
            bvn = bvn + norm_cdf(-np.maximum(dh, dk))
        elif r < 0:
            bvn = -bvn + np.maximum(0, norm_cdf(-dh) - norm_cdf(-dk))
    return bvn
""",
}
EXPECTED_BINDINGS = [
    ('abs', 'builtin'),
    ('bvn_cdf', 'def bvn_cdf'),
    ('gauss_legendre_quad', 'def gauss_legendre_quad'),
    ('len', 'builtin'),
    ('norm_cdf', 'def norm_cdf'),
    ('np', 'import numpy as np'),
]
EXPECTED_THRESHOLDS = ["0.3", "0.75"]


class Shape(Exception):
    """the source no longer has the shape the translator understands"""


def _lit(src, node):
    """numeric literal (with folded unary minus) -> (Fraction, text) or None"""
    neg = False
    n = node
    while isinstance(n, ast.UnaryOp) and isinstance(n.op, (ast.USub, ast.UAdd)):
        if isinstance(n.op, ast.USub):
            neg = not neg
        n = n.operand
    if not isinstance(n, ast.Constant) or isinstance(n.value, bool) or not isinstance(n.value, (int, float)):
        return None
    text = ast.get_source_segment(src, n)
    try:
        q = Fraction(text.replace("_", ""))       # the decimal literal as written, exactly
    except (ValueError, ZeroDivisionError):
        raise Shape("cannot read numeric literal %r" % text)
    return (-q if neg else q), ("-" if neg else "") + text


def _functions(tree):
    return {n.name: n for n in tree.body if isinstance(n, ast.FunctionDef)}


def _ordered(node, kinds):
    ns = [n for n in ast.walk(node) if isinstance(n, kinds)]
    return sorted(ns, key=lambda n: (n.lineno, n.col_offset))


def compares(src, fns):
    out = []
    for fname in ("gaussian", "bvn_cdf", "gauss_legendre_quad"):
        if fname not in fns:
            raise Shape("function %s not found" % fname)
        for c in _ordered(fns[fname], ast.Compare):
            if len(c.ops) != 1 or type(c.ops[0]) not in OPS:
                continue
            rhs = _lit(src, c.comparators[0])
            lhs = _lit(src, c.left)
            if rhs is not None:
                out.append((fname, ast.unparse(c.left), OPS[type(c.ops[0])], rhs[0]))
            elif lhs is not None:   # literal on the left: record it mirrored so a swap is visible
                out.append((fname, "lit:" + ast.unparse(c.comparators[0]), OPS[type(c.ops[0])], lhs[0]))
    return out


def literals(src, fn):
    """all numeric literals of a function in source order, unary minus folded"""
    out, skip = [], set()
    nodes = _ordered(fn, (ast.UnaryOp, ast.Constant))
    for n in nodes:
        if id(n) in skip:
            continue
        v = _lit(src, n)
        if v is None:
            continue
        m = n
        while isinstance(m, ast.UnaryOp):
            skip.add(id(m.operand))
            m = m.operand
        out.append(v[0])
    return out


def gl_chain(src, fn):
    """[(threshold | None, lg, [w], [x])] for the if/elif/else chain of gauss_legendre_quad"""
    ifs = [n for n in fn.body if isinstance(n, ast.If)]
    if len(ifs) != 1:
        raise Shape("gauss_legendre_quad: expected one if-chain, found %d" % len(ifs))

    def branch(body):
        vals = {}
        for st in body:
            if isinstance(st, ast.Assign) and len(st.targets) == 1 and isinstance(st.targets[0], ast.Name):
                vals[st.targets[0].id] = st.value
        for k in ("lg", "w", "x"):
            if k not in vals:
                raise Shape("gauss_legendre_quad: branch without an assignment to %s" % k)
        lg = _lit(src, vals["lg"])
        if lg is None or lg[0].denominator != 1 or lg[0] < 0:
            raise Shape("gauss_legendre_quad: lg is not a natural-number literal")

        def arr(v):
            if not (isinstance(v, ast.Call) and len(v.args) == 1 and isinstance(v.args[0], (ast.List, ast.Tuple))):
                raise Shape("gauss_legendre_quad: w/x is not np.array([...])")
            xs = [_lit(src, e) for e in v.args[0].elts]
            if any(x is None for x in xs):
                raise Shape("gauss_legendre_quad: non-literal entry in a table")
            return [x[0] for x in xs]
        return int(lg[0]), arr(vals["w"]), arr(vals["x"])

    chain, node = [], ifs[0]
    while True:
        t = node.test
        if not (isinstance(t, ast.Compare) and len(t.ops) == 1 and isinstance(t.ops[0], ast.Lt)):
            raise Shape("gauss_legendre_quad: branch test is not `… < literal`")
        thr = _lit(src, t.comparators[0])
        if thr is None:
            raise Shape("gauss_legendre_quad: threshold is not a literal")
        chain.append((thr[0],) + branch(node.body))
        if len(node.orelse) == 1 and isinstance(node.orelse[0], ast.If):
            node = node.orelse[0]
            continue
        chain.append((None,) + branch(node.orelse))
        return chain


def structure(fn):
    """lines of the function as `ast.unparse` prints it: decorators and `def` line kept, docstring dropped, every list of
    three or more numeric literals (the quadrature tables, pinned digit by digit elsewhere) written `[...]`"""
    fn = copy.deepcopy(fn)
    if fn.body and isinstance(fn.body[0], ast.Expr) and isinstance(fn.body[0].value, ast.Constant) \
            and isinstance(fn.body[0].value.value, str):
        fn.body = fn.body[1:] or [ast.Pass()]

    def num(e):
        while isinstance(e, ast.UnaryOp) and isinstance(e.op, (ast.USub, ast.UAdd)):
            e = e.operand
        return isinstance(e, ast.Constant) and isinstance(e.value, (int, float)) and not isinstance(e.value, bool)

    class R(ast.NodeTransformer):
        def visit_List(self, node):
            self.generic_visit(node)
            if len(node.elts) >= 3 and all(num(e) for e in node.elts):
                return ast.List(elts=[ast.Constant(Ellipsis)], ctx=ast.Load())
            return node
    return ast.unparse(ast.fix_missing_locations(R().visit(fn))).split("\n")


STRUCTURE_FUNCS = ("gauss_legendre_quad", "bvn_cdf")


def extract(root):
    path = os.path.join(root, FILE)
    src = open(path).read()
    tree = ast.parse(src)
    fns = _functions(tree)
    for f in ("uniform", "gaussian", "norm_cdf", "sbvn_cdf", "bvn_cdf", "gauss_legendre_quad"):
        if f not in fns:
            raise Shape("function %s not found in %s" % (f, FILE))
    return {
        "chain": gl_chain(src, fns["gauss_legendre_quad"]),
        "compares": compares(src, fns),
        "literals": {f: literals(src, fns[f]) for f in EXPECTED_LITERALS},
        "structure": {f: structure(fns[f]) for f in STRUCTURE_FUNCS},
        "bindings": file_bindings(tree, [(f, fns[f], None) for f in STRUCTURE_FUNCS]),
    }


# ----------------------------------------------------------------------------- Lean output

def rat(q):
    """exact rational as a Lean term; decimals keep their digits: numerator / 10^k"""
    q = Fraction(q)
    sign = "-" if q < 0 else ""
    a = abs(q)
    if a.denominator == 1:
        return "(%s%d : Rat)" % (sign, a.numerator)
    k, d = 0, a.denominator
    while (10 ** k) % d != 0:
        k += 1
        if k > 60:                       # not a decimal fraction (cannot come from a literal)
            return "(%s%d / %d : Rat)" % (sign, a.numerator, a.denominator)
    return "(%s%d / %d : Rat)" % (sign, a.numerator * (10 ** k // d), 10 ** k)


def rats(qs, indent="   "):
    return "[" + (",\n" + indent).join(rat(q) for q in qs) + "]"


def strs(lines, indent="   "):
    return "[" + (",\n" + indent).join(lean_str(l) for l in lines) + "]"


def pairs(es, indent="   "):
    return "[" + (",\n" + indent).join("(%s, %s)" % (lean_str(a), lean_str(b)) for a, b in es) + "]"


def cmp_list(cs):
    return "[" + ",\n   ".join('("%s", "%s", "%s", %s)' % (f, l.replace('"', "'"), o, rat(v)) for f, l, o, v in cs) + "]"


PRELUDE = '''import PersimVerif.Model.Kernels
/-!
GENERATED by harness/translator/consts.py from persim/images_kernels.py — do not edit; rewritten on every run.

The constants of `gauss_legendre_quad` / `bvn_cdf` as exact rationals (each decimal literal as written in
the source), and the obligations that tie them to Gauss–Legendre quadrature, to Genz's thresholds and to the
hand-written model.  Every proof is kernel evaluation over `Rat` (`decide +kernel`): no Mathlib, no axioms
beyond those `Rat` itself uses.
-/
namespace PersimVerif.C13.Consts
open PersimVerif.Kernels

/-! ### fixed vocabulary (not generated from the source) -/

def rsum : List Rat → Rat
  | [] => 0
  | a :: t => a + rsum t

/-- `|a - b| < tol` -/
def Within (a b tol : Rat) : Prop := -tol < a - b ∧ a - b < tol
instance (a b tol : Rat) : Decidable (Within a b tol) := by unfold Within; infer_instance

def tol15 : Rat := 1 / 10 ^ 15
def tol14 : Rat := 1 / 10 ^ 14

/-- `Σ_i w_i x_i^(2k)` : the 2k-th moment of the symmetric rule (±x_i, weight w_i) over [-1,1], halved -/
def moment (w x : List Rat) (k : Nat) : Rat := rsum (List.zipWith (fun w x => w * x ^ (2 * k)) w x)

/-- `(P_n x, P_{n-1} x)` by Bonnet's recurrence `(k+1) P_{k+1} = (2k+1) x P_k − k P_{k−1}` -/
def legendre (x : Rat) : Nat → Rat × Rat
  | 0 => (1, 0)
  | k + 1 =>
    let (p, q) := legendre x k
    (((2 * (k : Rat) + 1) * x * p - (k : Rat) * q) / ((k : Rat) + 1), p)

/-- `P_n' x = n (x P_n − P_{n−1}) / (x² − 1)` -/
def legendreDeriv (x : Rat) (n : Nat) : Rat :=
  let (p, q) := legendre x n
  (n : Rat) * (x * p - q) / (x * x - 1)

def StrictlyDecreasing : List Rat → Prop
  | a :: b :: t => b < a ∧ StrictlyDecreasing (b :: t)
  | _ => True
instance : (l : List Rat) → Decidable (StrictlyDecreasing l)
  | [] => isTrue trivial
  | [_] => isTrue trivial
  | a :: b :: t => by
    unfold StrictlyDecreasing
    have := instDecidableStrictlyDecreasing (b :: t)
    infer_instance

/-- everything a half Gauss–Legendre table (positive nodes of the 2·lg-point rule on [-1,1]) must satisfy -/
structure IsGaussLegendre (lg : Nat) (w x : List Rat) : Prop where
  counts : w.length = lg ∧ x.length = lg
  weights_sum : Within (rsum w) 1 tol15
  weights_pos : ∀ a ∈ w, 0 < a
  nodes_in_unit : ∀ a ∈ x, 0 < a ∧ a < 1
  nodes_decreasing : StrictlyDecreasing x
  moments : ∀ k ∈ List.range (2 * lg), Within (moment w x k) (1 / (2 * (k : Rat) + 1)) tol15
  legendre_roots : ∀ a ∈ x, Within (legendre a (2 * lg)).1 0 tol14
  weights_closed_form : ∀ p ∈ w.zip x,
    Within p.1 (2 / ((1 - p.2 * p.2) * legendreDeriv p.2 (2 * lg) * legendreDeriv p.2 (2 * lg))) tol15

/-! ### extracted from the source -/
'''


def render(ex, err=None):
    o = [PRELUDE]
    if err is not None:
        o.append("/-- the translator could not read the source: %s -/" % err.replace("-/", "- /"))
        o.append("def sourceShapeRecognised : Bool := false\n")
        o.append("theorem source_shape_recognised : sourceShapeRecognised = true := by decide\n")
        o.append("end PersimVerif.C13.Consts\n")
        return "\n".join(o)
    chain = ex["chain"]
    o.append("def sourceShapeRecognised : Bool := true\n")
    o.append("/-- number of branches of the `if/elif/else` chain of `gauss_legendre_quad` -/")
    o.append("def srcBranches : Nat := %d\n" % len(chain))
    o.append("/-- the thresholds of the chain, in order (`np.abs(r) < …`) -/")
    o.append("def srcGLThresholds : List Rat := %s\n" % rats([c[0] for c in chain if c[0] is not None]))
    for i, (thr, lg, w, x) in enumerate(chain):
        o.append("def srcRule%d_lg : Nat := %d" % (i, lg))
        o.append("def srcRule%d_w : List Rat :=\n  %s" % (i, rats(w)))
        o.append("def srcRule%d_x : List Rat :=\n  %s\n" % (i, rats(x)))
    o.append("/-- comparisons against numeric literals: (function, left operand, operator, literal) -/")
    o.append("def srcCompares : List (String × String × String × Rat) :=\n  %s\n" % cmp_list(ex["compares"]))
    for f in EXPECTED_LITERALS:
        o.append("/-- numeric literals of `%s` in source order (unary minus folded, defaults included) -/" % f)
        o.append("def srcLiterals_%s : List Rat :=\n  %s\n" % (f, rats(ex["literals"][f])))

    for f in STRUCTURE_FUNCS:
        o.append("/-- `%s` as `ast.unparse` prints it, line by line (docstring dropped, numeric tables written `[...]`) -/" % f)
        o.append("def srcStructure_%s : List String :=\n  %s\n" % (f, strs(ex["structure"][f])))
    o.append("/-- module-level bindings of the names `gauss_legendre_quad` and `bvn_cdf` use (they are resolved by spelling) -/")
    o.append("def srcKernelBindings : List (String × String) :=\n  %s\n" % pairs(ex["bindings"]))
    o.append("/-! ### obligations -/\n")
    o.append("theorem source_shape_recognised : sourceShapeRecognised = true := by decide\n")
    o.append("/-- three rules, chosen by `|r| < 0.3`, `|r| < 0.75`, otherwise -/")
    o.append("theorem gl_chain_shape : srcBranches = 3 ∧ srcGLThresholds = %s := by decide +kernel\n"
             % rats([Fraction(t) for t in EXPECTED_THRESHOLDS], " "))
    for i in range(len(chain)):
        want = EXPECTED_LG[i] if i < len(EXPECTED_LG) else -1
        o.append("theorem rule%d_lg : srcRule%d_lg = %d := by decide" % (i, i, want))
        o.append("/-- the table of branch %d is the positive half of the %d-point Gauss–Legendre rule -/" % (i, 2 * want))
        o.append("theorem rule%d_is_gauss_legendre : IsGaussLegendre srcRule%d_lg srcRule%d_w srcRule%d_x :=\n"
                 "  ⟨by decide +kernel, by decide +kernel, by decide +kernel, by decide +kernel, by decide +kernel,\n"
                 "   by decide +kernel, by decide +kernel, by decide +kernel⟩" % (i, i, i, i))
        name = "gl%d" % want
        o.append("/-- the model's table `%s` is the source's table, digit for digit -/" % name)
        o.append("theorem rule%d_eq_model : (%s (α := Rat)).lg = srcRule%d_lg ∧ (%s (α := Rat)).w = srcRule%d_w ∧\n"
                 "    (%s (α := Rat)).x = srcRule%d_x := by decide +kernel\n" % (i, name, i, name, i, name, i))
    o.append("/-- every comparison against a literal is Genz's: 0.3, 0.75, 0.925, and `> -100` three times -/")
    o.append("theorem compares_are_genz : srcCompares =\n  %s := by decide +kernel\n"
             % cmp_list([(f, l, op, Fraction(v)) for f, l, op, v in EXPECTED_COMPARES]))
    o.append("/-- the thresholds and cut-offs used by the model are the source's -/")
    o.append("theorem thresholds_eq_model :\n"
             "    srcGLThresholds = [thrGL3, thrGL6] ∧\n"
             "    (srcCompares.map fun c => c.2.2.2) =\n"
             "      [0, thrBranch, 0, 1, cutAsr, cutHk, cutAsr1, 0, 0, thrGL3, thrGL6] := by decide +kernel\n")
    o.append("/-- the pre-378a266 cut-off (`asr > 100`) is *not* what the source says -/")
    o.append("theorem old_cutoff_is_not_source : ¬ (\"bvn_cdf\", \"asr\", \">\", (cutAsrOld : Rat)) ∈ srcCompares := by decide +kernel\n")
    for f, want in EXPECTED_LITERALS.items():
        o.append("theorem literals_%s : srcLiterals_%s =\n  %s := by decide +kernel\n"
                 % (f, f, rats([Fraction(t) for t in want.split()])))
    o.append("/-! every statement of `gauss_legendre_quad` / `bvn_cdf` is, as text, the one this check was reviewed against: how the\n"
             "quadrature nodes, weights and thresholds pinned above are COMBINED (no claim that the combination is accurate: that is\n"
             "C13's tested part).  (No doc comment directly above these theorems: a failing `rfl` is reported at the first line of\n"
             "the declaration, which must be the `theorem` line for the harness to name it.) -/\n")
    for f in STRUCTURE_FUNCS:
        o.append("theorem structure_%s : srcStructure_%s =\n  %s := rfl\n"
                 % (f, f, strs(EXPECTED_STRUCTURE[f].strip("\n").split("\n"))))
    o.append("theorem kernel_bindings : srcKernelBindings =\n  %s := rfl\n" % pairs(EXPECTED_BINDINGS))
    o.append("end PersimVerif.C13.Consts\n")
    return "\n".join(o)


def generate(root, lean_dir):
    """write the generated file; returns (path, error-or-None, extracted-or-None)"""
    err, ex = None, None
    try:
        ex = extract(root)
        if len(ex["chain"]) != 3:
            raise Shape("gauss_legendre_quad has %d branches, expected 3" % len(ex["chain"]))
    except (Shape, OSError, SyntaxError) as e:
        err = "%s: %s" % (type(e).__name__, e)
    text = render(ex, err)
    path = os.path.join(lean_dir, OUT)
    os.makedirs(os.path.dirname(path), exist_ok=True)
    old = open(path).read() if os.path.exists(path) else None
    if old != text:
        with open(path, "w") as f:
            f.write(text)
    return path, err, ex


if __name__ == "__main__":
    import sys
    here = os.path.dirname(os.path.dirname(os.path.dirname(os.path.abspath(__file__))))
    root = sys.argv[1] if len(sys.argv) > 1 else os.environ.get("PERSIM_ROOT", "/repo")
    p, e, _ = generate(root, os.path.join(here, "lean"))
    print(p, "ERROR: " + e if e else "ok")
