"""
Classification tables of the C19 translator (TRUSTED: part of the trusted base, printed into the evidence).

Keys are canonical dotted names (`numpy` -> `np`, `matplotlib.pyplot` -> `plt`, `matplotlib` -> `mpl`) for
functions, bare method names for method calls on receivers the translator cannot resolve to persim code.
"""

# --- functions returning a FRESH buffer that holds no reference to its arguments; arguments are only read
FRESH_FUNCS = set("""
np.copy copy.deepcopy np.zeros np.ones np.empty np.full np.zeros_like np.ones_like np.empty_like np.full_like
np.arange np.linspace np.eye np.identity
np.abs np.absolute np.sum np.max np.min np.amax np.amin np.maximum np.minimum np.multiply np.divide np.add np.subtract
np.outer np.dot np.matmul np.exp np.log np.sqrt np.sin np.cos np.arcsin np.arccos np.ceil np.floor np.round np.prod np.power
np.cumsum np.sort np.unique np.pad np.delete np.vstack np.hstack np.concatenate np.column_stack np.stack np.where
np.interp np.isfinite np.isinf np.isnan np.any np.all np.logical_and np.logical_or np.logical_not np.argmax np.argmin
np.argsort np.tril_indices np.triu_indices np.triu_indices_from np.tril_indices_from np.meshgrid np.iinfo np.finfo
np.issubdtype np.ma.masked_less np.mean np.median np.std np.var np.clip np.sign np.square np.tile np.repeat
np.expm1 np.log1p np.log2 np.log10 np.tan np.arctan np.arctan2 np.hypot np.sinh np.cosh np.tanh np.mod np.remainder
np.negative np.reciprocal np.nan_to_num np.count_nonzero np.searchsorted np.cross np.inner np.trace np.linalg.norm np.nanmax np.nanmin
np.nansum np.sign np.trunc np.rint np.fabs np.floor_divide np.true_divide np.bincount np.histogram np.percentile np.quantile
np.array_equal np.allclose np.isclose
len int float str bool abs round repr hash id isinstance issubclass callable type print range all any format divmod pow
bisect.bisect_left bisect.bisect_right warnings.warn
pprint.pformat
""".split())

# --- functions whose result is FRESH OR THE FIRST ARGUMENT ITSELF, depending on the value / dtype of the argument
#     (`np.float64(a) is a` for a float64 array, `np.diff(a, 0) is a`): result = alias of the first argument or fresh.
#     The dynamic probe of c19.table_check found these in FRESH_FUNCS (audit R1); it runs on every check against the
#     installed numpy, so an entry of FRESH_FUNCS that starts returning its argument or a view of it is a harness error.
ALIAS_OR_FRESH_FUNCS = set("""
np.float64 np.float32 np.float16 np.int64 np.int32 np.int16 np.int8 np.uint8 np.uint16 np.uint32 np.uint64 np.complex128
np.complex64 np.bool_ np.double np.single np.intp np.longdouble np.diff
""".split())
# --- fresh container of the ELEMENTS OF THE ELEMENTS of the arguments, or the arithmetic sum (fresh): `sum(lists, [])`
#     concatenates, so the result holds the very objects the inner lists hold
SUM_FUNCS = set("sum".split())

# --- entries of FRESH_FUNCS / FRESH_METHODS (`.name`) that the dynamic probe of c19.table_check cannot call on an array or a
#     list (they take shapes, types or hashable values): nothing to alias.  Every other entry must be probed on every run.
PROBE_EXEMPT = set("hash isinstance issubclass np.eye np.finfo np.identity np.iinfo np.issubdtype range round".split())

# --- external routines known not to mutate their inputs; the result is fresh
READONLY_FUNCS = set("""
scipy.sparse.csgraph.shortest_path scipy.sparse.csgraph.connected_components scipy.sparse.issparse
scipy.optimize.linear_sum_assignment sklearn.metrics.pairwise.pairwise_distances sklearn.metrics.pairwise_distances
scipy.spatial.distance.cityblock scipy.special.erfc scipy.stats.norm.cdf scipy.stats.norm.pdf
scipy.stats.multivariate_normal.pdf scipy.stats.multivariate_normal.cdf
""".split())

# --- `out` accepted POSITIONALLY by functions of FRESH_FUNCS: index of the parameter.  A call with that many positional
#     arguments writes the argument and returns it.  (ufuncs: index = number of inputs.)  Checked against the installed numpy's
#     own signatures on every run (c19.self_test: `table_out_positions`).
OUT_POS = {
    # unary ufuncs
    "np.abs": 1, "np.absolute": 1, "np.exp": 1, "np.log": 1, "np.sqrt": 1, "np.sin": 1, "np.cos": 1, "np.arcsin": 1,
    "np.arccos": 1, "np.ceil": 1, "np.floor": 1, "np.isfinite": 1, "np.isinf": 1, "np.isnan": 1, "np.logical_not": 1,
    "np.sign": 1, "np.square": 1, "np.expm1": 1, "np.log1p": 1, "np.log2": 1, "np.log10": 1, "np.tan": 1, "np.arctan": 1,
    "np.sinh": 1, "np.cosh": 1, "np.tanh": 1, "np.negative": 1, "np.reciprocal": 1, "np.trunc": 1, "np.rint": 1, "np.fabs": 1,
    # binary ufuncs
    "np.maximum": 2, "np.minimum": 2, "np.multiply": 2, "np.divide": 2, "np.add": 2, "np.subtract": 2, "np.matmul": 2,
    "np.power": 2, "np.logical_and": 2, "np.logical_or": 2, "np.arctan2": 2, "np.hypot": 2, "np.mod": 2, "np.remainder": 2,
    "np.floor_divide": 2, "np.true_divide": 2,
    # reductions and other functions with an `out` parameter
    "np.sum": 3, "np.prod": 3, "np.mean": 3, "np.std": 3, "np.var": 3, "np.cumsum": 3, "np.nansum": 3, "np.clip": 3,
    "np.max": 2, "np.min": 2, "np.amax": 2, "np.amin": 2, "np.any": 2, "np.all": 2, "np.argmax": 2, "np.argmin": 2,
    "np.round": 2, "np.dot": 2, "np.outer": 2, "np.concatenate": 2, "np.stack": 2, "np.median": 2, "np.nanmax": 2,
    "np.nanmin": 2, "np.trace": 5, "np.percentile": 3, "np.quantile": 3,
}
# --- `copy` accepted positionally (index); by keyword it is recognised on every function of FRESH_FUNCS / READONLY_FUNCS.
#     `copy` anything but the literal True: the result may be the first argument itself, converted in place.
COPY_POS = {"np.nan_to_num": 1, "np.ma.masked_less": 2}
# --- keywords that let a routine use its inputs as scratch space (anything but the literal False: all arguments written)
INPLACE_KW = set("overwrite overwrite_input overwrite_a overwrite_b overwrite_x overwrite_y inplace".split())
# --- `overwrite_input` accepted POSITIONALLY (index): anything but the literal False there lets the routine use its input as
#     scratch space.  Checked against the installed numpy's signatures on every run (every function of FRESH_FUNCS that has
#     a parameter named in INPLACE_KW must be listed here with its position).
INPLACE_POS = {"np.median": 3, "np.percentile": 4, "np.quantile": 4}
# --- the same for methods of FRESH_METHODS (index among the method's own positional arguments)
METHOD_OUT_POS = {"clip": 2, "sum": 2, "cumsum": 2, "prod": 2, "mean": 2, "std": 2, "var": 2, "dot": 1, "round": 1, "max": 1,
                  "min": 1, "any": 1, "all": 1, "argmin": 1, "argmax": 1, "trace": 4}
METHOD_COPY_POS = {"astype": 4}                # astype(dtype, order, casting, subok, copy)

# --- functions returning a read-only accessor (calling it yields an element / attribute of its argument)
GETTER_FUNCS = set("operator.itemgetter operator.attrgetter".split())

# --- library-level state: function -> (name of the state, reads it, writes it); `warnings.warn` is not listed (warnings are not
#     results).  plt.* is handled apart (the PYPLOT global).
STATE_FUNCS = {
    "np.seterr": ("numpy error state", True, True), "np.geterr": ("numpy error state", True, False),
    "np.errstate": ("numpy error state", True, True), "np.seterrcall": ("numpy error state", True, True),
    "np.set_printoptions": ("numpy print options", False, True), "np.get_printoptions": ("numpy print options", True, False),
    "np.printoptions": ("numpy print options", True, True), "np.setbufsize": ("numpy error state", True, True),
    "warnings.filterwarnings": ("warnings filters", False, True), "warnings.simplefilter": ("warnings filters", False, True),
    "warnings.resetwarnings": ("warnings filters", False, True), "warnings.catch_warnings": ("warnings filters", True, True),
    "os.environ.get": ("os.environ", True, False), "os.getenv": ("os.environ", True, False),
    "os.putenv": ("os.environ", False, True), "os.unsetenv": ("os.environ", False, True),
    "os.getcwd": ("working directory", True, False), "os.chdir": ("working directory", False, True),
    "sys.setrecursionlimit": ("recursion limit", False, True), "sys.getrecursionlimit": ("recursion limit", True, False),
    "time.time": ("clock", True, False), "time.perf_counter": ("clock", True, False), "time.monotonic": ("clock", True, False),
    "time.process_time": ("clock", True, False), "datetime.datetime.now": ("clock", True, False),
    "datetime.datetime.today": ("clock", True, False), "datetime.date.today": ("clock", True, False),
    "os.urandom": ("os entropy", True, False), "os.getpid": ("process id", True, False),
    "np.random.seed": ("numpy global generator", False, True), "np.random.set_state": ("numpy global generator", False, True),
    "np.random.get_state": ("numpy global generator", True, False), "random.seed": ("python global generator", False, True),
    "random.setstate": ("python global generator", False, True), "random.getstate": ("python global generator", True, False),
}
# --- library objects whose mere evaluation reads module-level state
STATE_READS = {"os.environ": "os.environ", "sys.argv": "sys.argv", "sys.path": "sys.path", "plt.rcParams": "<pyplot>",
               "mpl.rcParams": "<pyplot>"}
PYPLOT_STATE_FUNCS = set("mpl.use mpl.rc mpl.rcdefaults mpl.rc_context mpl.interactive mpl.rc_file".split())

# --- names of parameters / instance attributes documented as CALLER-SUPPLIED callables (PersistenceImager(weight=, kernel=),
#     images._transform(weight, kernel)): calls through them are assumed read-only (ASSUMPTIONS).  A call through any other
#     value the translator cannot resolve is an unknown call.
CALLER_CALLABLES = set("weight kernel".split())

# --- functions returning a VIEW / the very object (alias of their first argument); `np.array(x)` is handled apart
VIEW_FUNCS = set("""
np.asarray np.asanyarray np.ascontiguousarray np.reshape np.ravel np.transpose np.squeeze np.atleast_1d np.atleast_2d
np.real np.imag np.expand_dims np.swapaxes np.flip np.diagonal
""".split())

# --- fresh CONTAINER whose slots alias the elements of the arguments:  new + elem + store
CONTAINER_OF_ITEMS = set("""
list tuple set frozenset sorted reversed iter dict np.array map filter joblib.Parallel()
""".split())
# --- fresh container of fresh tuples of the arguments' elements (two levels)
CONTAINER_OF_TUPLES = set("zip enumerate itertools.zip_longest itertools.product".split())
# --- fresh container of the elements of the elements
CONTAINER_FLATTEN = set("itertools.chain.from_iterable itertools.chain".split())
# --- fresh container holding views of the arguments themselves
CONTAINER_OF_ARGS = set("""
np.broadcast_arrays hopcroftkarp.HopcroftKarp mpl.collections.LineCollection mpl.colors.Normalize
mpl.cm.ScalarMappable
""".split())
# --- result is one of the arguments or one of their elements
SELECT_FUNCS = set("min max next".split())

# --- functions writing into an argument (index of the written argument)
MUTATING_FUNCS = {"np.fill_diagonal": 0, "np.random.shuffle": 0, "np.put": 0, "np.place": 0, "np.copyto": 0,
                  "np.putmask": 0, "random.shuffle": 0, "heapq.heappush": 0, "heapq.heappop": 0, "heapq.heapify": 0,
                  "setattr": 0, "delattr": 0, "np.put_along_axis": 0, "operator.setitem": 0, "operator.delitem": 0,
                  "operator.iadd": 0, "operator.isub": 0, "operator.imul": 0, "operator.itruediv": 0, "operator.iconcat": 0}

# --- TYPES whose methods may be called through the type: `list.sort(x)`, `np.ndarray.fill(a, 0)`, `dict.update(d, …)`,
#     `type(x).reverse(x)`, `x.__class__.sort(x)`, `map(list.sort, xs)`: the call is the method call `x.m(…)` on its first
#     argument (audit R4), classified by the method tables below
METHOD_OWNER_TYPES = set("""
list dict set frozenset tuple str bytes bytearray object np.ndarray np.matrix np.generic np.ma.MaskedArray collections.deque
collections.OrderedDict collections.defaultdict collections.Counter scipy.sparse.csr_matrix scipy.sparse.csc_matrix
scipy.sparse.coo_matrix scipy.sparse.lil_matrix scipy.sparse.spmatrix
""".split())

# --- method names (receiver not resolvable to persim code)
FRESH_METHODS = set("""
astype copy flatten dot min max sum mean std var prod cumsum argmin argmax argsort any all round clip nonzero tolist
format join split strip lower upper startswith endswith replace count index trace tobytes item
todense toarray isdigit encode decode
""".split())
VIEW_METHODS = set("reshape ravel squeeze transpose view swapaxes".split())                 # alias of the receiver
# the receiver itself or fresh, depending on its type / dtype: `a.conj() is a` for a real array, `m.tocoo() is m` for a COO
# matrix and shares `m.data` for a CSR one (audit R2; found by the dynamic probe of c19.table_check)
ALIAS_OR_FRESH_METHODS = set("tocsr tocsc tocoo tolil todia tobsr todok asformat conj conjugate".split())
ELEM_METHODS = set("get keys values items".split())                                         # element(s) of the receiver
MUTATOR_METHODS = set("""
sort append extend insert pop remove clear fill resize reverse update setdefault add discard put itemset setflags
popitem partition byteswap appendleft popleft setfield
""".split())
INSERTING_METHODS = set("append insert add extend update setdefault appendleft".split())      # keep a reference to the argument
POPPING_METHODS = set("pop popitem popleft setdefault".split())                               # return an element
# matplotlib handles: the receiver (axes / figure / mappable) is updated and may keep references to the arguments
HANDLE_METHODS = set("""
plot scatter imshow matshow axis legend margins add_collection add_subplot view_init to_rgba savefig annotate text hist bar
fill_between axhline axvline grid tight_layout colorbar set_ticks maximum_matching
""".split())
HANDLE_PREFIXES = ("set_", "get_")

# attributes
VIEW_ATTRS = set("T mT real imag flat data base".split())    # alias of the object itself
SCALAR_ATTRS = set("shape size ndim dtype __name__ itemsize nbytes".split())
# assigning these rewrites the array in place (`x.flat = 0`, `x.real = v`, `x.shape = s`; audit R3); `x.flags.writeable = b`
# (an attribute of `x.flags`) likewise.  Assignment to ANY attribute no persim class defines is a write as well: only
# attribute tables of persim instances are "not arrays or lists"
ARRAY_META_ATTRS = set("shape dtype flags strides data flat real imag T mT base".split())
ARRAY_META_OWNERS = set("flags".split())

# parameters that are matplotlib handles, not "arrays or lists" (drawing on them is the function's purpose)
HANDLE_PARAMS = set("ax fig axes".split())

PYPLOT_GLOBAL = 0            # GlobalId of pyplot's state machine

# --- special methods of a persim class that act on its SUBCLASSES and their instances without the subclass naming them
#     (audit 4, IR-1): they run when a subclass is created (`__init_subclass__`, `__set_name__` of a descriptor bound in the
#     body, `__prepare__` / `__mro_entries__` / `__class_getitem__`), when it is instantiated (`__new__`) or whenever an
#     attribute of an instance is looked up / stored (`__getattribute__` & co.), so they can replace what `Sub.method` is.  A
#     persim BASE class that defines one is an unreviewed class decorator on every subclass: the subclass's entry points are
#     refused unless policy.json `base_hooks_reviewed` holds the hook's text word for word.
CLASS_HOOK_METHODS = set("""
__init_subclass__ __class_getitem__ __prepare__ __mro_entries__ __set_name__ __new__
__getattribute__ __getattr__ __setattr__ __delattr__ __get__ __set__ __delete__
__instancecheck__ __subclasscheck__ __subclasshook__
""".split())

# the ones that act on the instances of the class that DEFINES them as well (what `obj.method` is, what `Class(...)` returns): a
# persim class that defines one is refused itself unless the text is reviewed (its definition is an entry point of its own, but
# the obligations of the methods it rewires would not see it)
CLASS_SELF_HOOKS = set("__new__ __getattribute__ __getattr__ __setattr__ __delattr__".split())

# --- names under persim/ the translator does NOT look into, with the reason (printed into Generated/ApiIR.lean `unparsedAllowed`;
#     the other non-`*.py` files it finds are printed as `unparsedFiles`).
#     Every `*.py` file is parsed (also `_version.py`, audit 4 IR-2); a file that is not listed here and is not `*.py` is a
#     translation problem when Python could import it (IMPORTABLE_SUFFIXES), and is listed otherwise.
UNPARSED_ALLOWED = {
    "__pycache__": "byte-code caches of the parsed `*.py` files, written by the interpreter (not tracked, not source)",
}
IMPORTABLE_SUFFIXES = (".pyc", ".pyo", ".pyw", ".pyd", ".so", ".dll", ".dylib", ".pth", ".pyx", ".zip", ".egg")
# `persim/_version.py` is run by `persim/__init__.py` on every import and has no entry point: it must be this one statement
VERSION_MODULE = "_version"
VERSION_STATEMENT = '__version__ = "<string literal>"'
EXC_SUFFIXES = ("Error", "Exception", "Warning", "StopIteration")

TABLE_DOC = [
    ("copy/elem (alias)", "names, attribute loads (elem), basic slices and subscripts (copy+elem), iteration targets and tuple "
     "unpacking (copy+elem), `a or b` / `x if c else y` (copy from both), " + " ".join(sorted(VIEW_FUNCS)) +
     "; methods " + " ".join(sorted(VIEW_METHODS)) + "; attributes " + " ".join(sorted(VIEW_ATTRS)) +
     "; ALIAS OR FRESH (the argument / receiver itself for some dtypes or formats, `np.float64(a) is a`, `a.conj() is a`, "
     "`m.tocoo()` on m's buffers): " + " ".join(sorted(ALIAS_OR_FRESH_FUNCS)) + "; methods " + " ".join(sorted(ALIAS_OR_FRESH_METHODS)) +
     "; an index that is syntactically a NumPy boolean (a comparison with a multi-dimensional slice `S[:, 1]` on one side, "
     "np.isfinite/isinf/isnan/logical_*/any/all, `~` / `&` / `|` of those) selects a copy (new); any other comparison / `~x` index "
     "(`x[flag == True]`, `x[~0]`) is an element access"),
    ("new (fresh, no references kept)", "constants, arithmetic / comparison / unary operators, boolean-mask subscripts, f-strings, "
     "`np.array(x, ...)`-free numeric producers: " + " ".join(sorted(FRESH_FUNCS)) + "; methods " + " ".join(sorted(FRESH_METHODS)) +
     "; read-only external routines " + " ".join(sorted(READONLY_FUNCS)) + "; builtin exception constructors. Every function and method of this "
     "row is PROBED on every run against the installed numpy / scipy (c19.fresh_probe: identity, np.shares_memory, in-place write to "
     "the result, arguments unchanged; not probed, nothing array-like accepted: " + " ".join(sorted(PROBE_EXEMPT)) + "). A library "
     "function of this row given a persim function / lambda / mutating bound method as an argument is an unknown call; "
     "`sum` is a fresh container of the elements of the elements (sum(lists, []) concatenates)"),
    ("new + elem + store (fresh container aliasing elements)", " ".join(sorted(CONTAINER_OF_ITEMS)) + "; two-level: " +
     " ".join(sorted(CONTAINER_OF_TUPLES)) + "; flattening: " + " ".join(sorted(CONTAINER_FLATTEN)) + "; holding the arguments: " +
     " ".join(sorted(CONTAINER_OF_ARGS)) + "; list/tuple/set/dict literals and comprehensions; binary operators also keep the "
     "operands' elements (list concatenation / repetition)"),
    ("copy+elem of the arguments (selection)", " ".join(sorted(SELECT_FUNCS))),
    ("write x (in-place mutation)", "`x[...] = v` (write x, store x v), `x op= v` on a name (write x) or on a subscript (write x, "
     "write x[...]), `del x[...]`, assignment to array attributes " + " ".join(sorted(ARRAY_META_ATTRS)) + "; functions " +
     " ".join("%s(arg %d)" % kv for kv in sorted(MUTATING_FUNCS.items())) + "; methods " + " ".join(sorted(MUTATOR_METHODS)) +
     " (inserting ones also `store`). A method called through its type or a class object is the method call on its first "
     "argument (`list.sort(x)`, `np.ndarray.fill(a, 0)`, `type(x).reverse(x)`, `x.__class__.sort(x)`, `L = list; L.sort(x)`, "
     "`map(list.sort, xs)`): types " + " ".join(sorted(METHOD_OWNER_TYPES))),
    ("out / copy / overwrite arguments", "`out=x` by keyword on any call, or POSITIONALLY at the index of OUT_POS / METHOD_OUT_POS (" +
     " ".join("%s:%d" % kv for kv in sorted(OUT_POS.items())) + "; methods " + " ".join("%s:%d" % kv for kv in sorted(METHOD_OUT_POS.items())) +
     "): x (and, for `out=(x,)`, its element) is written and is the result; with *args every argument is taken as a possible out. "
     "`copy=` anything but the literal True, by keyword on any fresh / read-only function or positionally (" +
     " ".join("%s:%d" % kv for kv in sorted(COPY_POS.items())) + "; astype:4): the result may be the first argument itself, converted in "
     "place (np.array(x, copy=False/None/variable) is np.asarray). Keywords " + " ".join(sorted(INPLACE_KW)) +
     " not literally False, by keyword or positionally (" + " ".join("%s:%d" % kv for kv in sorted(INPLACE_POS.items())) +
     "): every argument written. The positions are checked against the installed numpy on every run"),
    ("setattr y v", "`self.attr = v`, and `y.attr = v` for an attribute name some persim class defines (assigned through `self` in a "
     "method, class-level data, property): instances are not arrays or lists, methods may update their object; assignments to a "
     "property with a persim setter inline the setter. `y.attr = v` / `y.attr op= v` for ANY OTHER attribute of anything but `self` "
     "is `write y` (an ndarray / sparse-matrix / library-object attribute), and so is `y.flags.<x> = v`"),
    ("matplotlib handles", "parameters named " + " ".join(sorted(HANDLE_PARAMS)) + " and every result of plt.* are handles (fresh site, "
     "not caller-owned); methods " + " ".join(sorted(HANDLE_METHODS)) + " and set_*/get_* write the receiver and may store the arguments; "
     "plt.* reads and writes the global PYPLOT"),
    ("rng", "np.random.* (np.random.shuffle also writes its argument)"),
    ("persim calls", "functions, methods (self., super()., Class., by method name on unknown receivers; a method `self`'s class "
     "leaves to its subclasses: every persim method of that name), constructors, nested functions, lambdas and `delayed(f)(...)` are "
     "inlined per call site (fresh variables and sites per call site)"),
    ("function values", "a variable may hold function values: persim functions / lambdas / nested defs, external or builtin functions "
     "(`g = np.fill_diagonal`), persim classes, BOUND METHODS (`s = a.sort`, `getattr(a, 'sort')`, `getattr(a, name)`), "
     "operator.itemgetter / attrgetter accessors, np.vectorize(f). A call through the variable applies every function value it "
     "holds (a bound method as the method call it stands for). `map(f, xs)` / `filter(f, xs)` apply f to the elements, `key=` of "
     "sorted / min / max / list.sort is applied to the elements, a vectorized function to the elements of its arguments"),
    ("caller-supplied callables", "ONLY the parameters / instance attributes named " + " ".join(sorted(CALLER_CALLABLES)) +
     " (documented as callables supplied by the caller) are assumed read-only when called; result fresh or an alias of an argument"),
    ("unknown calls", "a call through anything else the translator cannot resolve (an unlisted library function, a method name in no "
     "table on an unknown receiver, a parameter / attribute / call result used as a function, recursion): HAVOC — every object "
     "reachable from the arguments and from the receiver / bound object may be written and linked to any other, the result is any "
     "of them or fresh, function-valued arguments may be called on anything reachable, module-level state may be read and written"),
    ("globals", "module-level data names: readGlobal (value caller-visible, i.e. OWNED) unless listed as constants in policy.json; "
     "`global x; x = …` writeGlobal; mutable default arguments are caller-visible (OWNED); a name bound by nothing the translator reads "
     "is module-level state (readGlobal, OWNED). Verification hooks: ONLY the statements listed word for word in policy.json "
     "`verif_hooks` (with the reviewed module-level binding of their `_VERIF_*` name) are left out; any other `if` on such a name, an "
     "`else` branch, any other use of the name is translated like any other code. "
     "CLASS attributes (`C.x`, `type(self).x`, `self.__class__.x`; dunder names excepted), FUNCTION attributes (`f.calls`), attributes / "
     "items of modules and library objects (`os.environ[k] = v`, `np.core.x = v`; matplotlib's are the PYPLOT global) are module-level "
     "state: reads readGlobal, stores writeGlobal. Library state functions: " +
     " ".join("%s(%s%s:%s)" % (k, "r" if v[1] else "", "w" if v[2] else "", v[0].replace(" ", "_")) for k, v in sorted(STATE_FUNCS.items())) +
     "; evaluating " + " ".join(sorted(STATE_READS)) + " is a read"),
    ("module-level code, decorators, __init__.py", "a module may hold: a docstring, imports, `def`s, classes, and `NAME = <plain data>` (literals, "
     "operators, conditional expressions, calls / attributes of non-persim library names). Anything else at module level (a statement, a "
     "tuple / conditional binding, `f = wrap(f)`, a lambda bound to a name, a name bound twice, an import that makes a private persim "
     "name public), in a class body (anything but docstring / def / plain data; a name bound twice; class keywords), a function "
     "decorator other than property / <prop>.setter / staticmethod / abstractmethod, a class decorator not listed word for word in "
     "policy.json `decorators_reviewed`, a decorated nested def: the translator REFUSES every entry point that runs code of that module / "
     "class / function (TranslatorError: deliberately failing obligation). `__init__.py` files are modules like any other: their `def`s "
     "are entry points, their problems refuse every entry point of the package. `persim/_version.py` is parsed like every other module and "
     "must consist of the single statement `" + VERSION_STATEMENT + "`: anything else there is code of the package init (every entry point "
     "refused, and listed in `translationProblems`). Files under persim/ that are not parsed: only " + " ".join(sorted(UNPARSED_ALLOWED)) +
     " (printed as `unparsedAllowed`; other non-source files found are printed as `unparsedFiles`); any other file Python could import (" + " ".join(IMPORTABLE_SUFFIXES) + ") is a translation problem. "
     "A module-level statement that ASSIGNS an attribute of another persim module / class / function (`_b.bottleneck = _w`, "
     "`setattr(persim.bottleneck, 'bottleneck', _w)`, `sys.modules['persim.bottleneck'].bottleneck = _w`, `f.__code__ = …`) refuses the "
     "entry points of the file that holds it AND the assigned target (the function, the class, or — for any other attribute — every entry "
     "point of the target module); a target that cannot be resolved is said so in the problem's text"),
    ("class lines, base classes", "the `class` line of EVERY persim class (name, bases as written, keywords) and what each base resolves to "
     "(`sklearn.base.TransformerMixin`, `persim.landscapes.base.PersLandscape`) must be, word for word, the entry of policy.json "
     "`class_lines`; a class that is not listed, another base list, the same base name imported from elsewhere: every entry point of the "
     "class is refused. The problems of a persim base class (class keywords, class-body code, decorators …) are problems of every "
     "subclass. A persim base class that defines one of " + " ".join(sorted(CLASS_HOOK_METHODS)) + " (as a method or as a class-level "
     "binding) acts on its subclasses like a class decorator: the subclass is refused unless policy.json `base_hooks_reviewed` holds "
     "the text of that definition word for word (audit 4, IR-1); " + " ".join(sorted(CLASS_SELF_HOOKS)) + " act on the defining class's "
     "own instances too: the defining class is refused as well, under the same condition"),
    ("private classes, context managers, default values", "the special methods of a PUBLIC class are entry points; an instance of a "
     "PRIVATE class that defines special methods other than __init__ is an unknown call on what it was built from (they run implicitly: "
     "with / operators / len / iteration / subscripts / repr). `with cm as x`: x is cm or what the `__enter__` of a persim class returns; "
     "`__exit__` is inlined. Default values of nested defs / lambdas are evaluated where the function is defined (`def g(col=a.T)`); "
     "defaults of module-level functions naming a function (`kernel=gaussian`, `f=np.ndarray.sort`) are function values the parameter may hold"),
    ("obligations that must not disappear", "harness/translator/expected_obligations.json (committed) lists the obligations of the unchanged "
     "tree; `repeat_<entry>` of that list is emitted whether or not the entry point is still repeatable; names no longer generated, "
     "modules with unmodelled module-level code and no entry point, and flagged writes of dynamic-only / in-place-by-contract entry points "
     "that are not in policy.json `reviewed_unsafe_writes` are listed in Generated/ApiIR.lean `translationProblems`, obligation "
     "`expected_obligations_present : translationProblems = []`"),
    ("loops", "a loop body (and a comprehension) is re-translated until the version sets of the names are stable; not stable after "
     "8 passes: TranslatorError (the entry point then gets a deliberately failing obligation)"),
]
