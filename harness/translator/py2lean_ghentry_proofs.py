"""
Obligation statements and proof scripts of the mGH entry-point translator (py2lean_ghentry.py), per Python function.
Fixed text: the generated DEFINITIONS change with /repo, these statements and scripts do not (they are part of the translator's
reviewed table); a definition that no longer is what the script expects makes the obligation fail (DESIGN.md 3.2/3.3).
Model-level facts are proved by hand in lean/PersimVerif/Lemmas/SrcBridgeGHEntry.lean.
Each entry: (name, binders, statement, proof, doc).
"""

CSGB = ("(shortest_path : Container → Except GhErr DMat) (connected_components : Container → Except GhErr (Nat × List Nat))")
ESTB = "(estimate : σ → Mat → Mat → Except GhErr ((β × β) × σ))"

OBLIGATIONS = {}
EXAMPLES = {}

OBLIGATIONS["determine_optimal_int_type"] = [
    ("src_determine_optimal_int_type_eq_model", "(value : Option Nat)",
     "determine_optimal_int_type value = optimalIntTypeTop value",
     "by\n"
     "  cases value with\n"
     "  | none => rfl\n"
     "  | some v =>\n"
     "    simp only [determine_optimal_int_type, optimalIntTypeTop, optimalIntType, List.head?_filter, PersimVerif.SrcNp.leTop]\n"
     "    cases List.find? (fun int_type => decide (v ≤ int_type.max)) [IntType.i8, IntType.i16, IntType.i32, IntType.i64] <;> rfl",
     "the generator over `[np.int8, np.int16, np.int32, np.int64]` filtered by `value <= np.iinfo(t).max`, `next` of it, "
     "`StopIteration` turned into `ValueError`: the model's `optimalIntType` (`find?`) for a finite value, `ValueError` for `inf` "
     "(no comparison `inf <= max` holds)"),
]
EXAMPLES["determine_optimal_int_type"] = [
    "/-- the generated definition evaluated at the thresholds and at `inf` -/\n"
    "example : determine_optimal_int_type (some 127) = .ok IntType.i8 ∧ determine_optimal_int_type (some 128) = .ok IntType.i16 ∧\n"
    "    determine_optimal_int_type (some (2 ^ 63)) = .error (GhErr.value Err.tooLarge) ∧\n"
    "    determine_optimal_int_type none = .error (GhErr.value Err.tooLarge) := by decide +kernel",
]

OBLIGATIONS["cast_distance_matrix_to_optimal_int_type"] = [
    ("src_cast_distance_matrix_to_optimal_int_type_eq_ref", "(DX : DMat)",
     "cast_distance_matrix_to_optimal_int_type DX = castRef determine_optimal_int_type DX",
     "rfl",
     "the three statements are the reviewed text `castRef` (Lemmas/SrcBridgeGHEntry.lean) with the generated "
     "`determine_optimal_int_type`"),
    ("src_cast_distance_matrix_to_optimal_int_type_eq_model", "(DX : DMat) (hne : DX.flatten ≠ []) (warned : Bool)",
     "(cast_distance_matrix_to_optimal_int_type DX).map (fun r => (⟨r.1, warned, r.2⟩ : DistResult)) = liftE (Graph.cast DX warned)",
     "by\n"
     "  rw [src_cast_distance_matrix_to_optimal_int_type_eq_ref, funext src_determine_optimal_int_type_eq_model]\n"
     "  exact castRef_eq DX hne warned",
     "`np.max` / `determine_optimal_int_type` / `astype` on a float matrix with at least one entry: the model's `cast` (entries as "
     "integers and the smallest sufficient signed type; `ValueError` if an entry is `inf` or exceeds int64), for every matrix"),
]
EXAMPLES["cast_distance_matrix_to_optimal_int_type"] = [
    "/-- a matrix with entries meets the hypothesis; the generated definition evaluated on it and on one with an `inf` -/\n"
    "example : ([[some 0, some 200], [some 200, some 0]] : DMat).flatten ≠ [] ∧\n"
    "    cast_distance_matrix_to_optimal_int_type [[some 0, some 200], [some 200, some 0]] = .ok ([[0, 200], [200, 0]], IntType.i16) ∧\n"
    "    cast_distance_matrix_to_optimal_int_type [[some 0, none], [none, some 0]] = .error (GhErr.value Err.tooLarge) := by decide +kernel",
]

# the proof of `src_make_distance_matrix_eq_model` for one container kind: `{c}` is what csgraph is called with, `A` the entries
MD_CASE = (
    "    have h1 : shortest_path {c} = if isSquare A then .ok (bfsAll (adjOf A)) else .error (.value .notSquare) := hc.sp_ok {c} rfl\n"
    "    have h2 : isSquare A = true → connected_components {c} = .ok (numComponents (bfsAll (adjOf A)), labels (bfsAll (adjOf A))) :=\n"
    "      hc.cc_ok {c} rfl\n"
    "    show _ = liftE (makeDist A)\n"
    "    simp only [make_distance_matrix_from_adjacency_matrix, issparse, ascontiguousarray, tocsr, Bool.not_true, Bool.not_false,\n"
    "      Bool.and_self, Bool.and_false, Bool.false_and, Bool.false_eq_true, if_true, if_false, h1]\n"
    "    unfold makeDist\n"
    "    by_cases hsq : isSquare A = true\n"
    "    · simp only [if_pos hsq]\n"
    "      obtain ⟨f1, f2⟩ := fallback_eq A hsq\n"
    "      by_cases hi : hasInf (bfsAll (adjOf A)) = true\n"
    "      · simp only [if_pos hi, h2 hsq, f1, f2]\n"
    "        have := src_cast_distance_matrix_to_optimal_int_type_eq_model _ (flatten_restrict_ne_nil A hsq) true\n"
    "        revert this\n"
    "        cases cast_distance_matrix_to_optimal_int_type (restrict (bfsAll (adjOf A))) with\n"
    "        | error e => intro h; rw [← h]; rfl\n"
    "        | ok r => intro h; rw [← h]; rfl\n"
    "      · simp only [if_neg hi]\n"
    "        have := src_cast_distance_matrix_to_optimal_int_type_eq_model _ (flatten_bfsAll_ne_nil A hsq) false\n"
    "        revert this\n"
    "        cases cast_distance_matrix_to_optimal_int_type (bfsAll (adjOf A)) with\n"
    "        | error e => intro h; rw [← h]; rfl\n"
    "        | ok r => intro h; rw [← h]; rfl\n"
    "    · simp only [if_neg hsq]; rfl\n")

OBLIGATIONS["make_distance_matrix_from_adjacency_matrix"] = [
    ("src_make_distance_matrix_eq_model",
     CSGB + " (hc : CsgraphContract shortest_path connected_components) (AG : Container) (hAG : AG ≠ Container.other)",
     "make_distance_matrix_from_adjacency_matrix shortest_path connected_components AG = liftE (makeDist AG.mat)",
     "by\n"
     "  cases AG with\n"
     "  | other => exact absurd rfl hAG\n"
     "  | nested A =>\n" + MD_CASE.replace("{c}", "(.dense A)") +
     "  | dense A =>\n" + MD_CASE.replace("{c}", "(.dense A)") +
     "  | sparse f A =>\n" + MD_CASE.replace("{c}", "(.sparse .csr A)").rstrip("\n"),
     "THE WHOLE FUNCTION, for every container kind (nested lists, ndarray, every sparse format) and every matrix of entries: the "
     "container conversion (`np.ascontiguousarray` of what is not sparse, `.tocsr()` of what is) hands csgraph a C-contiguous dense "
     "array or a CSR matrix of the same entries; with `shortest_path` / "
     "`connected_components` any implementation of the model's contract, the connectedness test, the warning flag, the "
     "largest-component fallback (`np.unique`, first `argmax`, mask on rows and columns) and the cast are the model's `makeDist`: "
     "same `ValueError`s, same distance matrix, same flag, same dtype"),
]
EXAMPLES["make_distance_matrix_from_adjacency_matrix"] = [
    "/-- non-vacuity: the model's own BFS and labelling implement the contract (`csgraphContract_model`), a COO matrix is a known\n"
    "    container, and the generated definition evaluated with them on the two-edge graph 0-1, 2-3 (upper triangle only, COO):\n"
    "    disconnected, the first largest component `{0, 1}` is kept, the flag is set; and on a connected path in nested lists -/\n"
    "example : CsgraphContract spModel ccModel ∧ Container.sparse Fmt.coo [[0, 1, 0, 0], [0, 0, 0, 0], [0, 0, 0, 1], [0, 0, 0, 0]] ≠ Container.other ∧\n"
    "    make_distance_matrix_from_adjacency_matrix spModel ccModel (.sparse .coo [[0, 1, 0, 0], [0, 0, 0, 0], [0, 0, 0, 1], [0, 0, 0, 0]]) =\n"
    "      .ok ⟨[[0, 1], [1, 0]], true, IntType.i8⟩ ∧\n"
    "    make_distance_matrix_from_adjacency_matrix spModel ccModel (.nested [[0, 1, 0], [0, 0, 1], [0, 0, 0]]) =\n"
    "      .ok ⟨[[0, 1, 2], [1, 0, 1], [2, 1, 0]], false, IntType.i8⟩ ∧\n"
    "    make_distance_matrix_from_adjacency_matrix spModel ccModel (.dense [[0, 1], [0, 0], [0, 0]]) = .error (GhErr.value Err.notSquare) :=\n"
    "  ⟨csgraphContract_model, by decide, by decide +kernel, by decide +kernel, by decide +kernel⟩",
]

LOOPB = CSGB + " " + ESTB
OBLIGATIONS["gromov_hausdorff"] = [
    ("src_gromov_hausdorff_loop_2_eq_ref", LOOPB + " (As : List Container) (i : Nat) (js : List Nat) (lbs ubs : List (List β)) (s : σ)",
     "gromov_hausdorff_loop_2 shortest_path connected_components estimate As i js lbs ubs s =\n"
     "      loop2Ref (make_distance_matrix_from_adjacency_matrix shortest_path connected_components) estimate As i js lbs ubs s",
     "by\n"
     "  induction js generalizing lbs ubs s with\n"
     "  | nil => rfl\n"
     "  | cons j js ih => simp only [gromov_hausdorff_loop_2, loop2Ref, ih] <;> rfl",
     "the inner loop `for j in range(i + 1, N)` is the reviewed text `loop2Ref` (one induction step each): both distance matrices "
     "recomputed, `estimate` on the current generator state, `lbs[i, j]` then `ubs[i, j]` written"),
    ("src_gromov_hausdorff_loop_eq_ref", LOOPB + " (As : List Container) (N : Nat) (is : List Nat) (lbs ubs : List (List β)) (s : σ)",
     "gromov_hausdorff_loop shortest_path connected_components estimate As N is lbs ubs s =\n"
     "      loopRef (make_distance_matrix_from_adjacency_matrix shortest_path connected_components) estimate As N is lbs ubs s",
     "by\n"
     "  induction is generalizing lbs ubs s with\n"
     "  | nil => rfl\n"
     "  | cons i is ih => simp only [gromov_hausdorff_loop, loopRef, ih, src_gromov_hausdorff_loop_2_eq_ref] <;> rfl",
     "the outer loop `for i in range(N)` is the reviewed text `loopRef`"),
    ("src_gromov_hausdorff_eq_ref", LOOPB + " (zero : β) (args : GHArgs) (s : σ)",
     "gromov_hausdorff shortest_path connected_components estimate zero args s =\n"
     "      ghRef (make_distance_matrix_from_adjacency_matrix shortest_path connected_components) estimate zero args s",
     "by\n"
     "  cases args <;> simp only [gromov_hausdorff, ghRef, src_gromov_hausdorff_loop_eq_ref] <;> rfl",
     "both call forms of `gromov_hausdorff` are the reviewed text `ghRef`: the guard `len(AG) < 2`, `As`, `N`, the two zero "
     "matrices, the loops, `lbs[tril] = lbs.T[tril]` then `ubs[tril] = ubs.T[tril]` and `return lbs, ubs` / `return lbs[0, 1], ubs[0, 1]`"),
    ("src_gromov_hausdorff_eq_model_raising",
     CSGB + " (hc : CsgraphContract shortest_path connected_components) " + ESTB + " (zero : β) (args : GHArgs) (hk : args.Known) (s : σ)",
     "gromov_hausdorff shortest_path connected_components estimate zero args s = gromovHausdorffE estimate zero args.input s",
     "by\n"
     "  rw [src_gromov_hausdorff_eq_ref]\n"
     "  exact ghRef_eq_model _ (fun c h => src_make_distance_matrix_eq_model shortest_path connected_components hc c h) estimate zero args hk s",
     "for EVERY `estimate` (raising or not), both call forms, every collection size and generator state: the translated entry point "
     "is the model's dispatch `gromovHausdorffE` (= `Graph.gromovHausdorff` with an `estimate` that may raise): pairs in the order "
     "`i < j` row by row, the state threaded through, the matrices N x N symmetric with zero diagonal, entry (i, j) the pair result"),
    ("src_gromov_hausdorff_eq_model",
     CSGB + " (hc : CsgraphContract shortest_path connected_components) (est : σ → Mat → Mat → (β × β) × σ) (zero : β) (args : GHArgs) "
     "(hk : args.Known) (s : σ)",
     "gromov_hausdorff shortest_path connected_components (fun s X Y => .ok (est s X Y)) zero args s =\n"
     "      liftE (gromovHausdorff est zero args.input s)",
     "by\n"
     "  rw [src_gromov_hausdorff_eq_model_raising shortest_path connected_components hc _ zero args hk s]\n"
     "  exact gromovHausdorffE_pure est zero args.input s",
     "with an `estimate` that never raises -- the `est` of Model/Graph.lean, about which Props/C17.lean is stated -- the translated "
     "entry point IS `Graph.gromovHausdorff`: it raises the model's `ValueError`s (too few graphs, a malformed matrix, an entry beyond "
     "int64) and otherwise returns the model's result and generator state"),
]
EXAMPLES["gromov_hausdorff"] = [
    "/-- non-vacuity and evaluation: with the model's csgraph and the `estimate` `(|X|, |Y|)` that counts its calls in the state, the\n"
    "    collection form on the path 0-1-2, the two-edge graph (fallback to 2 vertices) and the single vertex gives the symmetric\n"
    "    matrices below and 3 calls; the pair form gives entry (0, 1); a collection of one graph is rejected -/\n"
    "example :\n"
    "    (GHArgs.coll [.nested [[0, 1, 0], [0, 0, 1], [0, 0, 0]], .sparse .coo [[0, 1, 0, 0], [0, 0, 0, 0], [0, 0, 0, 1], [0, 0, 0, 0]], .dense [[0]]]).Known ∧\n"
    "    (match gromov_hausdorff spModel ccModel (fun (s : Nat) X Y => .ok ((X.length, Y.length), s + 1)) 0\n"
    "        (.coll [.nested [[0, 1, 0], [0, 0, 1], [0, 0, 0]], .sparse .coo [[0, 1, 0, 0], [0, 0, 0, 0], [0, 0, 0, 1], [0, 0, 0, 0]], .dense [[0]]]) 0 with\n"
    "      | .ok (.mats l u, s) => l == [[0, 3, 3], [3, 0, 2], [3, 2, 0]] && u == [[0, 2, 1], [2, 0, 1], [1, 1, 0]] && s == 3\n"
    "      | _ => false) = true ∧\n"
    "    (match gromov_hausdorff spModel ccModel (fun (s : Nat) X Y => .ok ((X.length, Y.length), s + 1)) 0\n"
    "        (.pair (.nested [[0, 1, 0], [0, 0, 1], [0, 0, 0]]) (.dense [[0]])) 7 with\n"
    "      | .ok (.pair a b, s) => a == 3 && b == 1 && s == 8\n"
    "      | _ => false) = true ∧\n"
    "    (match gromov_hausdorff spModel ccModel (fun (s : Nat) X Y => .ok ((X.length, Y.length), s + 1)) 0 (.coll [.dense [[0]]]) 0 with\n"
    "      | .error (GhErr.value Err.tooFewGraphs) => true\n"
    "      | _ => false) = true :=\n"
    "  ⟨by intro c hc; simp only [List.mem_cons, List.not_mem_nil, or_false] at hc; rcases hc with rfl | rfl | rfl <;> simp, by decide +kernel, by decide +kernel, by decide +kernel⟩",
]
