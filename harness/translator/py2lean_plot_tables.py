"""
Tables of the plot translator (py2lean_plot.py): targets with their parameter types, obligation statements and proof scripts,
and the reviewed texts that the text pins compare with.  Fixed text: the generated DEFINITIONS change with /repo, these do not.
"""
PYFILE = "persim/visuals.py"
PYFILE_L = "persim/landscapes/visuals.py"

LEAD_PD = [("cast", "α → α"), ("infv", "α")]
LEAD_M = [("cos", "α → α"), ("sin", "α → α"), ("pi", "α")] + LEAD_PD

BR = "PersimVerif.SrcBridge.Plot"
PD_BINDERS = ("(cast : α → α) (infv : α) (fig : SFig α) (diagrams : DgmsArg α) (plot_only : Option (List Int)) (title : Option String)\n"
              "    (xy_range : Option (α × α × α × α)) (labels : Labels) (diagonal lifetime legend : Bool)")
M_BINDERS = ("(cos sin : α → α) (pi : α) (cast : α → α) (infv : α) (fig : SFig α) (dgm1 dgm2 : Dgm α) (matching : List (Row α))\n"
             "    (labels : List String)")

OBLIGATIONS = {
    "plot_diagrams": [
        ("src_plot_diagrams_eq_model", PD_BINDERS,
         "plot_diagrams cast infv Axes.given fig diagrams plot_only title xy_range labels diagonal lifetime legend =\n"
         "      (plotDiagrams cast diagrams { plotOnly := plot_only, title := title, xyRange := xy_range, labels := labels, "
         "diagonal := diagonal, lifetime := lifetime, legend := legend }).map (SFig.after fig)",
         "by\n  rw [src_plot_diagrams_eq_ref]\n"
         "  exact %s.plot_diagrams_eq_model cast infv fig diagrams plot_only title xy_range labels diagonal lifetime legend" % BR,
         "**the tie of C20's model**: for EVERY `diagrams` argument (one array or a list of arrays, of any sizes, deaths finite or "
         "`inf`), every `plot_only` (`None`, `[]`, any list of Python indices), `title`, `xy_range`, `labels` (`None`, a string, a list "
         "of any length), `diagonal`, `lifetime`, `legend`, every float32 `cast`, every stand-in `infv` and every state `fig` of the "
         "figure before the call, the translated `plot_diagrams` called with the axes handle `Axes.given` raises exactly what "
         "`Plot.plotDiagrams` rejects (`IndexError` of `plot_only`, `ValueError` of `np.concatenate([])` / `np.min` of nothing) and "
         "otherwise leaves the figure in the state `SFig.after fig m` for the model's figure `m`: the model's artists (horizon / "
         "diagonal / infinity line, one scatter per zipped diagram and label) appended in the model's order, each on the given axes "
         "with the styling arguments its style stands for, the model's limits, axis labels, title and legend"),
    ],
    "bottleneck_matching": [
        ("src_bottleneck_matching_eq_model", M_BINDERS,
         "bottleneck_matching cos sin pi cast infv Axes.given fig dgm1 dgm2 matching labels =\n"
         "      (bottleneckMatching cast (cos (pi / 4)) (sin (pi / 4)) dgm1 dgm2 matching labels).map (SFig.after fig)",
         "by\n  rw [src_bottleneck_matching_eq_ref]\n"
         "  exact %s.bottleneck_matching_eq_model plot_diagrams src_plot_diagrams_eq_model cos sin pi cast infv fig dgm1 dgm2 matching labels" % BR,
         "for EVERY pair of diagrams (points of infinite death included, either one empty), every matching (rows `(i, j, d)` with any "
         "integers `i`, `j`; no row at all) and label list, and every `cos`, `sin`, `pi`: the translated `bottleneck_matching` = "
         "`Plot.bottleneckMatching` with `c = cos (pi / 4)`, `s = sin (pi / 4)` -- the nested `plot_diagrams([dgm1, dgm2], labels=labels, "
         "ax=ax)` on the same axes first, the finite-death filter and the `(0, 0)` placeholder, `np.argmax` of the distance column "
         "(`ValueError` on no rows), then one segment per row that is not `(-1, -1)`, in row order, ALL on the given axes, the arg-max "
         "row in the `matchMax` style and every other row in `matchOther`; `IndexError` where the model has it"),
    ],
    "wasserstein_matching": [
        ("src_wasserstein_matching_eq_model", M_BINDERS,
         "wasserstein_matching cos sin pi cast infv Axes.given fig dgm1 dgm2 matching labels =\n"
         "      (wassersteinMatching cast (cos (pi / 4)) (sin (pi / 4)) dgm1 dgm2 matching labels).map (SFig.after fig)",
         "by\n  rw [src_wasserstein_matching_eq_ref]\n"
         "  exact %s.wasserstein_matching_eq_model plot_diagrams src_plot_diagrams_eq_model cos sin pi cast infv fig dgm1 dgm2 matching labels" % BR,
         "likewise `wasserstein_matching` = `Plot.wassersteinMatching`: the placeholder for an empty diagram BEFORE the filter (it is "
         "what the scatter plot shows), the segments first (all in the `wass` style, all on the given axes), then the nested "
         "`plot_diagrams([shown1, shown2], labels=labels, ax=ax)`"),
    ],
}

TARGETS = [
    dict(func="plot_diagrams", lean="plot_diagrams", pyfile=PYFILE, lead=LEAD_PD,
         params=[("diagrams", "DA"), ("plot_only", "OLI"), ("title", "OSTR"), ("xy_range", "OXY"), ("labels", "LBL"),
                 ("colormap", "opaque"), ("size", "opaque"), ("ax_color", "opaque"), ("diagonal", "B"), ("lifetime", "B"),
                 ("legend", "B"), ("show", "opaque"), ("ax", "AX")]),
    dict(func="bottleneck_matching", lean="bottleneck_matching", pyfile=PYFILE, lead=LEAD_M,
         params=[("dgm1", "D"), ("dgm2", "D"), ("matching", "MT"), ("labels", "LS"), ("ax", "AX")]),
    dict(func="wasserstein_matching", lean="wasserstein_matching", pyfile=PYFILE, lead=LEAD_M,
         params=[("dgm1", "D"), ("dgm2", "D"), ("matching", "MT"), ("labels", "LS"), ("ax", "AX")]),
]

for _c in TARGETS:
    _c["obligations"] = OBLIGATIONS.get(_c["func"], [])

BINDINGS = {
    'plot': [
        ('bottleneck_matching', 'def bottleneck_matching'),
        ('enumerate', 'builtin'),
        ('int', 'builtin'),
        ('isinstance', 'builtin'),
        ('len', 'builtin'),
        ('list', 'builtin'),
        ('np', 'import numpy as np'),
        ('plot_a_bar', 'def plot_a_bar'),
        ('plot_diagrams', 'def plot_diagrams'),
        ('plt', 'import matplotlib.pyplot as plt'),
        ('wasserstein_matching', 'def wasserstein_matching'),
        ('zip', 'builtin'),
    ],
}
SIGNATURES = {
    'plot_diagrams': "def plot_diagrams(diagrams, plot_only=None, title=None, xy_range=None, labels=None, colormap='default', size=20, ax_color=np.array([0.0, 0.0, 0.0]), diagonal=True, lifetime=False, legend=True, show=False, ax=None)",
    'bottleneck_matching': "def bottleneck_matching(dgm1, dgm2, matching, labels=['dgm1', 'dgm2'], ax=None)",
    'wasserstein_matching': "def wasserstein_matching(dgm1, dgm2, matching, labels=['dgm1', 'dgm2'], ax=None)",
}
# the statements that are effects the model does not carry (Model/Plot.lean: "Not modelled: plt.style.use(colormap), … show")
EFFECTS = {
    'plot_diagrams': ['plt.style.use(colormap)', "ax.set_aspect('equal', 'box')", 'if show is True:\n    plt.show()'],
    'bottleneck_matching': [],
    'wasserstein_matching': [],
}
# conversions read as the identity: a matching row holds integer-valued floats, `int(i)` makes the Python int the model's `Row` carries
CONVERSIONS = {
    'bottleneck_matching': ['i = int(i)', 'j = int(j)'],
    'wasserstein_matching': ['i = int(i)', 'j = int(j)'],
}
RETURNS = {
}
MODULE_SKELETON = {
    'plot': ['import numpy as np', 'import matplotlib.pyplot as plt', "__all__ = ['plot_diagrams', 'bottleneck_matching', 'wasserstein_matching']"],
}
# helper functions that no translated function calls: signature and body pinned as text
PINNED_FUNCTIONS = {PYFILE: {"plot_a_bar": ("def plot_a_bar(p, q, c='b', linestyle='-')",
                                            "plt.plot([p[0], q[0]], [p[1], q[1]], c=c, linestyle=linestyle, linewidth=1)")}}
