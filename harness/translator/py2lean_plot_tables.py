"""
Tables of the plot translator (py2lean_plot.py): targets with their parameter types, obligation statements and proof scripts,
and the reviewed texts that the text pins compare with.  Fixed text: the generated DEFINITIONS change with /repo, these do not.
"""
PYFILE = "persim/visuals.py"
PYFILE_L = "persim/landscapes/visuals.py"

LEAD_PD = [("cast", "α → α"), ("infv", "α")]
LEAD_M = [("cos", "α → α"), ("sin", "α → α"), ("pi", "α")] + LEAD_PD

BR = "PersimVerif.SrcBridge.Plot"
PD_BINDERS = ("(cast : α → α) (infv : α) (fig : SFig α) (diagrams : DgmsArg α) (plot_only : Option (List Int)) (title : Option String)\n"
              "    (xy_range : Option (α × α × α × α)) (labels : Labels) (diagonal lifetime legend : Bool)")
M_BINDERS = ("(cos sin : α → α) (pi : α) (cast : α → α) (infv : α) (fig : SFig α) (dgm1 dgm2 : Dgm α) (matching : List (Row α))\n"
             "    (labels : List String)")

OBLIGATIONS = {
    "plot_diagrams": [
        ("src_plot_diagrams_eq_model", PD_BINDERS,
         "plot_diagrams cast infv Axes.given fig diagrams plot_only title xy_range labels diagonal lifetime legend =\n"
         "      (plotDiagrams cast diagrams { plotOnly := plot_only, title := title, xyRange := xy_range, labels := labels, "
         "diagonal := diagonal, lifetime := lifetime, legend := legend }).map (SFig.after fig)",
         "by\n  rw [src_plot_diagrams_eq_ref]\n"
         "  exact %s.plot_diagrams_eq_model cast infv fig diagrams plot_only title xy_range labels diagonal lifetime legend" % BR,
         "**the tie of C20's model**: for EVERY `diagrams` argument (one array or a list of arrays, of any sizes, deaths finite or "
         "`inf`), every `plot_only` (`None`, `[]`, any list of Python indices), `title`, `xy_range`, `labels` (`None`, a string, a list "
         "of any length), `diagonal`, `lifetime`, `legend`, every float32 `cast`, every stand-in `infv` and every state `fig` of the "
         "figure before the call, the translated `plot_diagrams` called with the axes handle `Axes.given` raises exactly what "
         "`Plot.plotDiagrams` rejects (`IndexError` of `plot_only`, `ValueError` of `np.concatenate([])` / `np.min` of nothing) and "
         "otherwise leaves the figure in the state `SFig.after fig m` for the model's figure `m`: the model's artists (horizon / "
         "diagonal / infinity line, one scatter per zipped diagram and label) appended in the model's order, each on the given axes "
         "with the styling arguments its style stands for, the model's limits, axis labels, title and legend"),
    ],
    "bottleneck_matching": [
        ("src_bottleneck_matching_eq_model", M_BINDERS,
         "bottleneck_matching cos sin pi cast infv Axes.given fig dgm1 dgm2 matching labels =\n"
         "      (bottleneckMatching cast (cos (pi / 4)) (sin (pi / 4)) dgm1 dgm2 matching labels).map (SFig.after fig)",
         "by\n  rw [src_bottleneck_matching_eq_ref]\n"
         "  exact %s.bottleneck_matching_eq_model plot_diagrams src_plot_diagrams_eq_model cos sin pi cast infv fig dgm1 dgm2 matching labels" % BR,
         "for EVERY pair of diagrams (points of infinite death included, either one empty), every matching (rows `(i, j, d)` with any "
         "integers `i`, `j`; no row at all) and label list, and every `cos`, `sin`, `pi`: the translated `bottleneck_matching` = "
         "`Plot.bottleneckMatching` with `c = cos (pi / 4)`, `s = sin (pi / 4)` -- the nested `plot_diagrams([dgm1, dgm2], labels=labels, "
         "ax=ax)` on the same axes first, the finite-death filter and the `(0, 0)` placeholder, `np.argmax` of the distance column "
         "(`ValueError` on no rows), then one segment per row that is not `(-1, -1)`, in row order, ALL on the given axes, the arg-max "
         "row in the `matchMax` style and every other row in `matchOther`; `IndexError` where the model has it"),
    ],
    "wasserstein_matching": [
        ("src_wasserstein_matching_eq_model", M_BINDERS,
         "wasserstein_matching cos sin pi cast infv Axes.given fig dgm1 dgm2 matching labels =\n"
         "      (wassersteinMatching cast (cos (pi / 4)) (sin (pi / 4)) dgm1 dgm2 matching labels).map (SFig.after fig)",
         "by\n  rw [src_wasserstein_matching_eq_ref]\n"
         "  exact %s.wasserstein_matching_eq_model plot_diagrams src_plot_diagrams_eq_model cos sin pi cast infv fig dgm1 dgm2 matching labels" % BR,
         "likewise `wasserstein_matching` = `Plot.wassersteinMatching`: the placeholder for an empty diagram BEFORE the filter (it is "
         "what the scatter plot shows), the segments first (all in the `wass` style, all on the given axes), then the nested "
         "`plot_diagrams([shown1, shown2], labels=labels, ax=ax)`"),
    ],
}

LE_BINDERS = ("(fig : SFig α) (landscape : LandExact α) (title : Option String) (labels : Option (List String))\n"
              "    (depth_range : Option (List Nat))")
LA_BINDERS = "(natCast : Nat → α) " + LE_BINDERS.replace("LandExact", "LandApprox")
# the hypothesis speaks about the COMPUTED object (for a lazily built one it holds by itself: `src_…_lazy`)
H_MAX = " (hmax : landscape.compute_landscape.depths.length ≤ (landscape.compute_landscape.max_depth + 1).toNat)"
H_LAZY_E = " (hlazy : landscape.depths = [])"
H_LAZY_A = " (hlazy : (landscape.depths.all (·.isEmpty)) = true)"
H_LAB = " (hlab : truthy labels = true → 2 ≤ (seqOf labels).length)"
H_BAD = " (hl : truthy labels = true) (h2 : (seqOf labels).length < 2)"
LAND_DOC = ("for EVERY landscape object in EVERY state it can be passed in (a stored landscape, or built with `compute=False`: nothing "
            "stored yet; any number of depths, each any list; after `landscape.compute_landscape()` -- the state transformer "
            "`compute_landscape` of Lemmas/SrcLibPlot.lean, translated where the statement stands -- `max_depth` at least the number of "
            "depths minus one: the classes set `max_depth = len(...)`), every `depth_range` (`None`, `[]`, any list of depths), `title`, "
            "`labels` and every state of the figure: the translated function adds exactly the model's lines FOR THE COMPUTED LANDSCAPE "
            "(`%s`: one per depth of `landscape.compute_landscape` that `depth_range` keeps -- all of them for `None` / `[]`, the default "
            "being read from the computed `max_depth` -- in depth order, labelled `λ_k`, on the given axes, `alpha=alpha`), then "
            "`legend()`, the title if it is a non-empty string, the two axis labels if a non-empty list is given (hypothesis: then it has "
            "two entries; otherwise `src_…_index`: IndexError)")
LAZY_DOC = ("a landscape built with `compute=False` (nothing stored): the lines drawn are those of what `compute_landscape()` computes "
            "(`fromDgms`), ALL of them when `depth_range` is `None` / `[]` -- no hypothesis on `max_depth`, the method sets it")
OBLIGATIONS_L = {
    "plot_landscape_exact_simple": [
        ("src_plot_landscape_exact_simple_eq_model", LE_BINDERS + "\n   " + H_MAX + H_LAB,
         "plot_landscape_exact_simple Axes.given fig landscape title labels depth_range =\n"
         "      .ok ((fig.afterArtists (landscapeExactSimple landscape.compute_landscape.depths depth_range)).landAfter title labels)",
         "by\n  rw [src_plot_landscape_exact_simple_eq_ref]\n"
         "  exact %s.plot_landscape_exact_simple_eq_model fig landscape title labels depth_range hmax hlab" % BR,
         LAND_DOC % "Plot.landscapeExactSimple"),
        ("src_plot_landscape_exact_simple_lazy", LE_BINDERS + "\n   " + H_LAZY_E + H_LAB,
         "plot_landscape_exact_simple Axes.given fig landscape title labels depth_range =\n"
         "      .ok ((fig.afterArtists (landscapeExactSimple landscape.fromDgms depth_range)).landAfter title labels)",
         "by\n  rw [src_plot_landscape_exact_simple_eq_ref]\n"
         "  exact %s.plot_landscape_exact_simple_lazy fig landscape title labels depth_range hlazy hlab" % BR,
         LAZY_DOC),
        ("src_plot_landscape_exact_simple_index", LE_BINDERS + "\n   " + H_BAD,
         "plot_landscape_exact_simple Axes.given fig landscape title labels depth_range = .error Err.index",
         "by\n  rw [src_plot_landscape_exact_simple_eq_ref]\n"
         "  exact %s.plot_landscape_exact_simple_index fig landscape title labels depth_range hl h2" % BR,
         "a non-empty `labels` with fewer than two entries: `labels[0]` / `labels[1]` raises IndexError (after the lines were drawn)"),
    ],
    "plot_landscape_approx_simple": [
        ("src_plot_landscape_approx_simple_eq_model", LA_BINDERS + "\n   " + H_MAX + H_LAB,
         "plot_landscape_approx_simple natCast Axes.given fig landscape title labels depth_range =\n"
         "      .ok ((fig.afterArtists (landscapeApproxSimple natCast landscape.start landscape.stop landscape.compute_landscape.depths depth_range)).landAfter title labels)",
         "by\n  rw [src_plot_landscape_approx_simple_eq_ref]\n"
         "  exact %s.plot_landscape_approx_simple_eq_model natCast fig landscape title labels depth_range hmax hlab" % BR,
         LAND_DOC % "Plot.landscapeApproxSimple: depth k over `linspace(start, stop, len(values[k]))`"),
        ("src_plot_landscape_approx_simple_lazy", LA_BINDERS + "\n   " + H_LAZY_A + H_LAB,
         "plot_landscape_approx_simple natCast Axes.given fig landscape title labels depth_range =\n"
         "      .ok ((fig.afterArtists (landscapeApproxSimple natCast landscape.start landscape.stop landscape.fromDgms depth_range)).landAfter title labels)",
         "by\n  rw [src_plot_landscape_approx_simple_eq_ref]\n"
         "  exact %s.plot_landscape_approx_simple_lazy natCast fig landscape title labels depth_range hlazy hlab" % BR,
         LAZY_DOC),
        ("src_plot_landscape_approx_simple_index", LA_BINDERS + "\n   " + H_BAD,
         "plot_landscape_approx_simple natCast Axes.given fig landscape title labels depth_range = .error Err.index",
         "by\n  rw [src_plot_landscape_approx_simple_eq_ref]\n"
         "  exact %s.plot_landscape_approx_simple_index natCast fig landscape title labels depth_range hl h2" % BR,
         "a non-empty `labels` with fewer than two entries raises IndexError"),
    ],
}
EXAMPLES = {
    "plot_landscape_exact_simple": [
        "/-- non-vacuity of the hypotheses: three stored depths with `max_depth = 3`, and the same landscape built with `compute=False`\n"
        "    (nothing stored, `max_depth = 0`: `compute_landscape` stores the three depths and sets `max_depth = 3`); two axis labels -/\n"
        "example : (⟨[[(0, 0), (1, 1), (2, 0)], [(0, 0), (2, 0)], [(1, 0)]], 3, []⟩ : LandExact Int).compute_landscape.depths.length ≤\n"
        "      ((⟨[[(0, 0), (1, 1), (2, 0)], [(0, 0), (2, 0)], [(1, 0)]], 3, []⟩ : LandExact Int).compute_landscape.max_depth + 1).toNat ∧\n"
        "    (⟨[], 0, [[(0, 0), (1, 1), (2, 0)], [(0, 0), (2, 0)], [(1, 0)]]⟩ : LandExact Int).compute_landscape.depths.length = 3 ∧\n"
        "    (⟨[], 0, [[(0, 0), (1, 1), (2, 0)], [(0, 0), (2, 0)], [(1, 0)]]⟩ : LandExact Int).compute_landscape.max_depth = 3 ∧\n"
        "    (truthy (some [\"t\", \"value\"]) = true → 2 ≤ (seqOf (some [\"t\", \"value\"])).length) := by decide",
        "/-- the auditor's case (ly15): a landscape built with `compute=False` whose computation gives three depths, default\n"
        "    `depth_range`: THREE lines are drawn (the default range is read from the computed `max_depth`, not from the stored `0`) -/\n"
        "example : (plot_landscape_exact_simple Axes.given SFig.empty\n"
        "      (⟨[], 0, [[(0, 0), (1, 1), (2, 0)], [(0, 0), (2, 0)], [(1, 0)]]⟩ : LandExact Int) none none none).toOption.map\n"
        "      (fun f => f.artists.length) = some 3 := by decide"],
}

TARGETS = [
    dict(func="plot_diagrams", lean="plot_diagrams", pyfile=PYFILE, lead=LEAD_PD,
         params=[("diagrams", "DA"), ("plot_only", "OLI"), ("title", "OSTR"), ("xy_range", "OXY"), ("labels", "LBL"),
                 ("colormap", "opaque"), ("size", "opaque"), ("ax_color", "opaque"), ("diagonal", "B"), ("lifetime", "B"),
                 ("legend", "B"), ("show", "opaque"), ("ax", "AX")]),
    # `calls`: the translated plotting functions the reviewed text `Ref.<f>` takes as parameters (used for the stand-in of an unreadable <f>)
    dict(func="bottleneck_matching", lean="bottleneck_matching", pyfile=PYFILE, lead=LEAD_M, calls=["plot_diagrams"],
         params=[("dgm1", "D"), ("dgm2", "D"), ("matching", "MT"), ("labels", "LS"), ("ax", "AX")]),
    dict(func="wasserstein_matching", lean="wasserstein_matching", pyfile=PYFILE, lead=LEAD_M, calls=["plot_diagrams"],
         params=[("dgm1", "D"), ("dgm2", "D"), ("matching", "MT"), ("labels", "LS"), ("ax", "AX")]),
]

TARGETS += [
    dict(func="plot_landscape_exact_simple", lean="plot_landscape_exact_simple", pyfile=PYFILE_L, lead=[],
         params=[("landscape", "LE0"), ("alpha", "opaque"), ("padding", "opaque"), ("title", "OSTR"), ("ax", "AX"), ("labels", "OLS"),
                 ("depth_range", "OLN")]),
    dict(func="plot_landscape_approx_simple", lean="plot_landscape_approx_simple", pyfile=PYFILE_L, lead=[("natCast", "Nat → α")],
         params=[("landscape", "LA0"), ("alpha", "opaque"), ("padding", "opaque"), ("num_steps", "opaque"), ("title", "OSTR"), ("ax", "AX"),
                 ("labels", "OLS"), ("depth_range", "OLN")]),
]
for _c in TARGETS:
    _c["obligations"] = OBLIGATIONS.get(_c["func"], OBLIGATIONS_L.get(_c["func"], []))
    _c["examples"] = EXAMPLES.get(_c["func"], [])

BINDINGS = {
    'plot': [
        ('bottleneck_matching', 'def bottleneck_matching'),
        ('enumerate', 'builtin'),
        ('int', 'builtin'),
        ('isinstance', 'builtin'),
        ('len', 'builtin'),
        ('list', 'builtin'),
        ('np', 'import numpy as np'),
        ('plot_a_bar', 'def plot_a_bar'),
        ('plot_diagrams', 'def plot_diagrams'),
        ('plt', 'import matplotlib.pyplot as plt'),
        ('wasserstein_matching', 'def wasserstein_matching'),
        ('zip', 'builtin'),
    ],
    'plot_landscape': [
        ('PersLandscape', 'from .base import PersLandscape'),
        ('PersLandscapeApprox', 'from .approximate import PersLandscapeApprox'),
        ('PersLandscapeExact', 'from .exact import PersLandscapeExact'),
        ('enumerate', 'builtin'),
        ('isinstance', 'builtin'),
        ('len', 'builtin'),
        ('np', 'import numpy as np'),
        ('plot_landscape_approx_simple', 'def plot_landscape_approx_simple'),
        ('plot_landscape_exact_simple', 'def plot_landscape_exact_simple'),
        ('plot_landscape_simple', 'def plot_landscape_simple'),
        ('plt', 'import matplotlib.pyplot as plt'),
        ('range', 'builtin'),
    ],
}
SIGNATURES = {
    'plot_diagrams': "def plot_diagrams(diagrams, plot_only=None, title=None, xy_range=None, labels=None, colormap='default', size=20, ax_color=np.array([0.0, 0.0, 0.0]), diagonal=True, lifetime=False, legend=True, show=False, ax=None)",
    'bottleneck_matching': "def bottleneck_matching(dgm1, dgm2, matching, labels=['dgm1', 'dgm2'], ax=None)",
    'wasserstein_matching': "def wasserstein_matching(dgm1, dgm2, matching, labels=['dgm1', 'dgm2'], ax=None)",
    'plot_landscape_exact_simple': 'def plot_landscape_exact_simple(landscape: PersLandscapeExact, alpha=1, padding=0.1, title=None, ax=None, labels=None, depth_range=None)',
    'plot_landscape_approx_simple': 'def plot_landscape_approx_simple(landscape: PersLandscapeApprox, alpha=1, padding=0.1, num_steps=1000, title=None, ax=None, labels=None, depth_range=None)',
}
# the statements that are effects the model does not carry (Model/Plot.lean: "Not modelled: plt.style.use(colormap), … show"), each
# WITH ITS POSITION `[k|n]`: `k` the path of the statement in the function body (docstring excluded; `5.then.0` = first statement
# of the `if` that is statement 5), `n` the number of names the translation has bound before it (every translated statement binds
# at least one, so moving an effect across a translated statement changes `n` even when `k` stays).
# `landscape.compute_landscape()` is NOT here: it writes state that translated statements read and is translated (state transformer).
EFFECTS = {
    'plot_diagrams': ['[1|1] plt.style.use(colormap)', "[19|53] ax.set_aspect('equal', 'box')", '[22|57] if show is True:\n    plt.show()'],
    'bottleneck_matching': [],
    'wasserstein_matching': [],
    'plot_landscape_exact_simple': ['[5|5] ax.margins(padding)'],
    'plot_landscape_approx_simple': ['[5|5] ax.margins(padding)'],
}
# conversions read as the identity, with the statement they stand in: a matching row holds integer-valued floats, `int(i)` makes the
# Python int the model's `Row` carries; `np.array(l)` of a list of pairs is the list of its rows
CONVERSIONS = {
    'bottleneck_matching': ['i = int(i)', 'j = int(j)'],
    'wasserstein_matching': ['i = int(i)', 'j = int(j)'],
    'plot_landscape_exact_simple': ['ls = np.array(l)'],
}
RETURNS = {
    'plot_landscape_exact_simple': ['return ax'],
    'plot_landscape_approx_simple': ['return ax'],
}
MODULE_SKELETON = {
    'plot': ['import numpy as np', 'import matplotlib.pyplot as plt', "__all__ = ['plot_diagrams', 'bottleneck_matching', 'wasserstein_matching']"],
    'plot_landscape': ['import itertools', 'from operator import itemgetter', 'import matplotlib as mpl', 'import matplotlib.pyplot as plt', 'import numpy as np', 'from .base import PersLandscape', 'from .exact import PersLandscapeExact', 'from .approximate import PersLandscapeApprox', "__all__ = ['plot_landscape', 'plot_landscape_simple']"],
}
# helper functions that no translated function calls / dispatchers: signature and body pinned as text
PINNED_FUNCTIONS = {PYFILE: {"plot_a_bar": ("def plot_a_bar(p, q, c='b', linestyle='-')",
                                            "plt.plot([p[0], q[0]], [p[1], q[1]], c=c, linestyle=linestyle, linewidth=1)")},
                    PYFILE_L: {"plot_landscape_simple": ('def plot_landscape_simple(landscape: PersLandscape, alpha=1, padding=0.1, num_steps=1000, title=None, ax=None, labels=None, depth_range=None)',
                                                         'if isinstance(landscape, PersLandscapeExact):\n    return plot_landscape_exact_simple(landscape=landscape, alpha=alpha, padding=padding, title=title, ax=ax, labels=labels, depth_range=depth_range)\nif isinstance(landscape, PersLandscapeApprox):\n    return plot_landscape_approx_simple(landscape=landscape, alpha=alpha, padding=padding, num_steps=num_steps, title=title, ax=ax, labels=labels, depth_range=depth_range)')}}
