"""
Source translator Python -> Lean (DESIGN.md 3.2): ties the hand-written models to the *text* of /repo.

On every run (`pre_build` of C13, C04, C14, C10, C16, C15)  generate(repo_root, out_dir)  parses selected
pure-arithmetic functions of  <repo_root>/persim  with `ast` and writes, expression by expression, a Lean
definition per function into  <out_dir>/PersimVerif/Generated/Src*.lean , each followed by GENERATED OBLIGATIONS
stating that the generated definition EQUALS the hand-written model definition (polymorphically, over the same
core classes as the model, hence at Rat, Float and the reals alike).  The proofs are `rfl`: the two definitions
must unfold to the same term.

WHAT AN EDIT OF /repo DOES (the tie is exactly this strong, no stronger):
  (a) inside a translated region every statement and expression is read.  An edit there changes the generated term and
      `src_<f>_eq_model` no longer checks -- unless the edit is one of the value-preserving rewrites listed under
      "Conventions" below (`a > b` / `b < a`, `1.0` / `1`, `+e` / `e` on numbers, `0.5 * e` / `e / 2` in the matrix regions,
      `e ** 2` / `e * e` in heat), a renaming of local variables, or produces a term that still unfolds to the model's (then
      nothing breaks, and nothing should).  The obligations hold UP TO DEFINITIONAL UNFOLDING, which erases a `let` that is
      never read; the engines therefore REFUSE (Shape) what would only add such a `let` or no text at all: a store whose value
      nothing reads; a store, inside a loop body or a region, to a name that is bound outside it and is not its declared
      result (Python carries it to the next iteration and past the loop); a loop index bound twice; a second name for an
      array / list / record (`y = x`; in-place operations are read only on names that own their value); SSA suffixes and
      made-up binders are never spelled like an identifier of the Python function or a helper the text mentions;
  (b) what the translation NORMALISES AWAY or never reads is pinned as TEXT (`ast.unparse`, so comments, blank lines and
      docstrings do not count) against the reviewed text in the tables of this file:
        * the rest of the function around a region                        srcSkeleton_<f> / srcSkeletonAfter_<f>
        * decorators, parameters, defaults, annotations                   srcSignature_<function>
        * array conversions read as the identity (`np.array(x, dtype=float)` -> `x`)   srcConversions_<f>
        * skipped guards `if p is None: p = <default>` (text and numeric entries)        srcNoneDefaults_<f>
        * numeric / Boolean keyword defaults, as numbers                  srcDefaults_<f> / srcBoolDefaults_<f>
        * every module-level binding (import, def, class, assignment, loop/with/except target, `del`, `global`, star import)
          of every name a translated function reads and does not bind itself, its own name included, and the class-level
          bindings of the `self.<attr>` it uses and of the attribute hooks (`__setattr__`, …)       srcBindings_<file>
        * `bvn_cdf` / `gauss_legendre_quad` statement by statement        KernelConsts.srcStructure_* (consts.py)
      any edit that changes one of these texts breaks the obligation of that name, harmless or not (DESIGN.md 3.3: the
      check then searches for a failing input; for a harmless rewrite the documented outcome is `no-failing-input-found`);
  (c) NOT tied to anything by the translators: functions that have no target (listed at the end of every generated file
      and in the evidence, `not_translated`), the callers of
      the translated functions (`persim/__init__.py`), rebinding that is not a statement of the module's own scope
      (`globals()[...] = …`, `setattr(module, …)`, another module assigning `persim.heat.np`, `sys.modules` tricks,
      `exec`), the behaviour of base classes (`sklearn.base`) and of the libraries behind the imported names, and the
      Python semantics of the subset itself.  Those are the correspondence streams' job (DESIGN.md 3.1).

What is generated from the source: the bodies of the definitions, the defaults tables, the pinned texts.
What is fixed in this file (reviewed by hand, part of the trusted base): the TARGETS table -- which function /
region is read, the Lean binders and class assumptions (copied from the model's section header), which Python
callee is which Lean function parameter or model helper, and the statements of the obligations.

Supported subset (anything else raises Shape -> `def srcShape_<f> : Bool := false` and the obligation
`srcShape_<f>_recognised : srcShape_<f> = true := by decide` fails to build, like `source_shape_recognised` of
KernelConsts.lean):  + - * / ** unary -/+ ; comparisons (chains of one operator) and `and`/`or` ; conditional
expressions ; names, numeric literals, `mu[0]`-style constant indexing of tuple parameters ; calls of the named
NumPy/SciPy functions of the target's table ; keyword arguments of internal calls (resolved against the callee's
`def` in the same file) ; straight-line assignments (SSA-renamed) ; `if/elif/else` whose branches return / yield
or assign a single name ; accumulation loops `for i in range(X.shape[0])` over the rows of a diagram (-> `List.foldl`
with the accumulator, rows are pairs) ; the elementwise vector forms `dgm[:, k]`, vector (op) scalar,
`np.sum/all/len` of a vector ; list comprehensions over a diagram (-> `List.map`).

Conventions (all value-preserving in exact arithmetic; they are the translator's semantics of the subset):
  * NumPy broadcasting is modelled ELEMENTWISE: an array argument stands for one of its entries (the model is per
    point / per persistence pair); `pers[i]` in an elementwise loop is `pers`.
  * `a > b` is written `b < a` and `a >= b` is written `b <= a` (the models assume only `<`/`<=`).
  * `np.maximum/np.minimum` -> `max/min`; `np.sqrt/np.exp/np.log/np.expm1/erfc/np.abs/...` -> the function
    parameter or model helper named in the target's table; `np.pi` -> the parameter `pi`; `np.array(x)` and
    `np.array(x, dtype=float)` -> `x` (conversion to floating point is the identity of the exact-arithmetic model; the
    call is recorded as written in `srcConversions_<f>`, so dropping or changing the dtype breaks `src_<f>_conversions`).
  * float literals: per target either as written (`2.0`, class `OfScientific`) or, where the model uses numerals,
    the integer they denote (`1.0` -> `1`); a float literal that is not integral is then a Shape error.
  * `e ** 2` on a difference of points -> `e * e` (heat only); every other `**` -> the binary parameter `pow`.
  * unary `+e` on a number -> `e`;  `flag == True` on a Boolean parameter -> `flag` (the bare truthiness test `if flag:` is
    outside the subset: it differs from `== True` for a flag that is not a bool).
  * `np.array(x, dtype=float)` is read only as the whole right-hand side of a top-level statement `y = np.array(x, …)`; the pin
    records the statement with its index in the function.
  * a 2-vector (row `A[i, 0:2]` of a diagram, `[e] * 2`) is a pair; `A[j, 1::-1]` swaps it; arithmetic on pairs is
    componentwise, `np.sum` of a pair is `.1 + .2`, `np.dot(u, x)` is `u.1 * x.1 + u.2 * x.2`.
  * a vector bound to a name is materialised as a `List` iff that name is a direct argument of `np.sum/len/all`
    (or of `all(name > 0)`); otherwise elementwise intermediates are fused into one `List.map`.
  * `sorted((a, b))` -> `if b < a then (b, a) else (a, b)` (Python's sort is stable).

The output is deterministic: on an unchanged source tree the files are rewritten byte-identically (and not touched).

STATEMENT-LEVEL ENGINE (py2lean_stmt.py; keys imager, landscaper, plarith, graph, approx, bottleneck, wasserstein of FILES;
`pre_build` of C12, C18, C09, C17, C08, C01, C02).  The same  generate(repo_root, out_dir, only=[...])  also renders the files
of the second engine, which translates small statement-level Python -- methods reading and writing attributes of `self`
(fields of the model's state record), raising calls (`Except`), `if/elif/else` that re-assign several names, `for` loops
(structural recursions carrying the re-assigned names), a `while` loop with a decreasing measure (well-founded recursion split
on the shapes of the consumed lists) and NumPy block assignments read entry-wise -- and emits obligations proved by `rfl`, by
case analysis, or by an induction that relates the generated loop to the model's recursion (proof scripts fixed in its
TARGETS table; model-only helper lemmas in lean/PersimVerif/Lemmas/SrcBridge*.lean, the Python builtins it uses in
lean/PersimVerif/Lemmas/SrcLib.lean).  Its conventions are stated in its module docstring and in every generated header.

MATCHING ENGINE (py2lean_matching.py; keys bottleneck_search, wasserstein_assign of FILES; `pre_build` of C01, C02, C06).  What
`persim.bottleneck` / `persim.wasserstein` do around the augmented matrix -- the preamble, the bisection with the Hopcroft-Karp
oracle, `linear_sum_assignment` and the sum, the two `matching=True` extractions -- statement by statement, each loop its own
recursion (the `while` on a fuel), the external solvers as parameters; proved equal to reviewed Lean text of the same shape and
through it to the hand-written models (Lemmas/SrcBridgeMatching.lean, SrcLibMatching.lean).  It also blanks, in the
`srcSkeleton(After)_aug_entry` pins of the statement-level targets `bottleneck` / `wasserstein`, what it translates.

LANDSCAPE ENGINE (py2lean_landscape.py; keys plexact, plgrid, plnorm, plvec, pltransform of FILES; `pre_build` of C09, C10, C08, C18).  The
operators of `PersLandscapeExact` / `PersLandscapeApprox` with the guards of base.py behind `super()`, `auxiliary.union_crit_pairs`,
`tools.snap_pl / lc_approx / average_approx / vectorize`, the `p_norm` / `sup_norm` entry points with `_p_norm` around its segment region,
and `PersistenceLandscaper.transform`, statement by statement: landscape objects as records, the lazy `compute_landscape()` a library
operation with the computation a parameter, loops as `foldl` / `foldlM` of their own definitions; proved equal to reviewed Lean text and
through it to the models of Model/PLArith.lean, PNorm.lean, Approx.lean, Transformers.lean (Lemmas/SrcBridgeLandscape*.lean,
SrcLibLandscape.lean).  Its files import the generated files of the callees they use (SrcPLArith.lean, SrcPNorm.lean).
"""
import ast, os, re
from fractions import Fraction

GEN = os.path.join("PersimVerif", "Generated")


class Shape(Exception):
    """the source is outside the subset / no longer has the shape the translator understands"""


# ----------------------------------------------------------------------------- values

class Val:
    """a translated Python value.  k: 'S' scalar, 'B' condition, 'P' pair, 'V' vector/list (base.map fn),
    'N' natural number (a length), 'X' result of the target's result type"""
    __slots__ = ("k", "t", "p", "c", "base", "ek", "fn")

    def __init__(self, k, t=None, p=100, c=None, base=None, ek=None, fn=None):
        self.k, self.t, self.p, self.c, self.base, self.ek, self.fn = k, t, p, c, base, ek, fn


def paren(v, minp):
    return "(%s)" % v.t if v.p < minp else v.t


def atom_text(t):
    """`t` if it is an identifier / projection chain or already enclosed in one pair of parentheses, else `(t)`"""
    if re.match(r"^[\w.']+$", t):
        return t
    if t.startswith("(") and t.endswith(")"):
        d = 0
        for i, ch in enumerate(t):
            d += ch == "("
            d -= ch == ")"
            if d == 0 and i < len(t) - 1:
                break
        else:
            return t
    return "(%s)" % t


def S(t, p=100):
    return Val("S", t, p)


def comp(v, i):
    """component i (0/1) of a pair"""
    if v.k != "P":
        raise Shape("component of a non-pair")
    if v.c is not None:
        return v.c[i]
    return S("%s.%d" % (paren(v, 100), i + 1))


def pair_text(v):
    if v.t is not None:
        return v
    return Val("P", "(%s, %s)" % (comp(v, 0).t, comp(v, 1).t), 100, c=v.c)


BIN = {ast.Add: ("+", 65), ast.Sub: ("-", 65), ast.Mult: ("*", 70), ast.Div: ("/", 70)}
CMP = {ast.Lt: ("<", False), ast.Gt: ("<", True), ast.LtE: ("≤", False), ast.GtE: ("≤", True), ast.Eq: ("==", False),
       ast.NotEq: ("!=", False)}
LEAN_RESERVED = {
    "end", "from", "at", "fun", "let", "in", "do", "then", "else", "if", "open", "show", "have", "with", "by", "where",
    "instance", "def", "theorem", "Type", "Prop", "Sort", "section", "namespace", "variable", "import", "mutual", "match",
    "structure", "class", "deriving", "export", "universe", "local", "private", "protected", "macro", "syntax", "notation",
    "infix", "prefix", "postfix", "return", "for", "unless", "try", "catch", "finally", "mut", "nomatch", "nofun", "using",
    "calc", "suffices", "this", "max", "min", "decide", "List", "Except", "true", "false", "Nat", "Rat", "α", "abbrev",
    "axiom", "example", "inductive", "extends", "attribute", "partial", "opaque", "noncomputable",
    "sorry", "admit", "unsafe", "native_decide", "bv_decide", "implemented_by",      # never emit what the token audit greps for
}


# heads of the qualified names / constructors the generated text mentions: never the spelling of a generated binder (a `let
# PersimVerif := …` would capture `PersimVerif.PNorm.absA`, and would count as "read" in the liveness check)
TEXT_HEADS = ("PersimVerif", "Option", "Prod", "Int", "Bool", "Float", "String", "some", "none", "id", "natCast", "pow")


def dotted(node):
    if isinstance(node, ast.Name):
        return node.id
    if isinstance(node, ast.Attribute):
        return dotted(node.value) + "." + node.attr
    raise Shape("callee/attribute is not a dotted name: %s" % ast.dump(node)[:60])


# ----------------------------------------------------------------------------- blocks

class Ret:
    def __init__(self, text):
        self.text = text


class Let:
    def __init__(self, name, ty, text, body):
        self.name, self.ty, self.text, self.body = name, ty, text, body


class Ite:
    def __init__(self, cond, a, b):
        self.cond, self.a, self.b = cond, a, b


class Fold:
    """let name : α := lst.foldl (fun (acc : α) (elem : α × α) => inner) init ; body      (name None: the fold is the result)"""
    def __init__(self, name, lst, acc, elem, inner, init, body):
        self.name, self.lst, self.acc, self.elem, self.inner, self.init, self.body = name, lst, acc, elem, inner, init, body


def render(node, ind):
    if isinstance(node, Ret):
        return [ind + node.text]
    if isinstance(node, Let):
        return ["%slet %s : %s := %s" % (ind, node.name, node.ty, node.text)] + render(node.body, ind)
    if isinstance(node, Ite):
        out = ["%sif %s then" % (ind, node.cond)] + render(node.a, ind + "  ")
        if isinstance(node.b, Ite):
            rest = render(node.b, ind)
            return out + [ind + "else " + rest[0].lstrip()] + rest[1:]
        return out + [ind + "else"] + render(node.b, ind + "  ")
    if isinstance(node, Fold):
        head = "%s.foldl (fun (%s : α) (%s : α × α) =>" % (node.lst, node.acc, node.elem)
        out = [ind + ("let %s : α := " % node.name if node.name is not None else "") + head]
        out += render(node.inner, ind + "  ")
        out[-1] += ") %s" % atom_text(node.init)
        return out + (render(node.body, ind) if node.name is not None else [])
    raise Shape("internal: unknown node")


# ----------------------------------------------------------------------------- the translator of one target

class Tr:
    def __init__(self, src, fns, cfg):
        self.src, self.fns, self.cfg = src, fns, cfg
        self.env = {}             # python name -> Val
        self.used = set(LEAN_RESERVED) | set(TEXT_HEADS)
        self.rows = {}            # (array python name, index python name) -> pair Val   (rows of a diagram inside a fold)
        self.elemwise_index = None
        self.stmts_after = []     # look-ahead for the materialisation rule
        self.conversions = []     # texts of the array conversions read as the identity (`np.array(x, dtype=float)`)
        self.none_defaults = []   # (parameter, text of the default, its numeric literals) of the skipped `if p is None` guards
        self.avoid = set()        # every identifier of the Python function: an SSA suffix / derived name never collides with one
        self.store_counts = {}    # python name -> number of places of the function that bind it (loop indices must have one)
        self.top_stmts = []       # the statements of the translated region (position of the pinned conversions)
        self.conv_ok = None       # the conversion call that is the whole right-hand side of the statement being translated
        self.loop_indices = []    # indices of the enclosing accumulation loops

    # --- names
    def fresh(self, py, derived=False):
        """a Lean binder for the Python name `py` (`derived`: a name the translator makes up).  Every binder goes through here
        and every read through `env`, so two binders never share a spelling; a suffixed or made-up name is moreover never the
        spelling of an identifier of the Python function (`avoid`)."""
        base = py if py not in LEAN_RESERVED else py + "_"
        if not re.match(r"^[A-Za-z_][A-Za-z0-9_]*$", base):
            raise Shape("name %r" % py)
        name, k = base, 0
        while name in self.used or ((k > 0 or derived or name != py) and name in self.avoid):
            k += 1
            name = "%s_%d" % (base, k)
        self.used.add(name)
        return name

    # --- expressions
    def lit(self, node):
        v = node.value
        text = ast.get_source_segment(self.src, node) or repr(v)
        if isinstance(v, bool):
            return Val("B", "true" if v else "false")
        if isinstance(v, int):
            if v < 0:
                raise Shape("negative literal")
            return S(str(v))
        if isinstance(v, float):
            t = text.replace("_", "")
            if self.cfg.get("lit", "nat") == "sci":
                if not re.match(r"^\d+\.\d+$", t):
                    raise Shape("float literal %s is not of the form d.d" % text)
                return S(t)
            q = Fraction(t)
            if q.denominator != 1:
                raise Shape("float literal %s is not integral (the model writes numerals here)" % text)
            return S(str(q.numerator))
        raise Shape("literal %r" % (v,))

    def arith(self, op, a, b):
        if type(op) not in BIN:
            raise Shape("operator %s" % type(op).__name__)
        sym, pr = BIN[type(op)]
        if a.k == "S" and b.k == "S":
            return S("%s %s %s" % (paren(a, pr), sym, paren(b, pr + 1)), pr)
        if a.k == "N" or b.k == "N":
            raise Shape("arithmetic on a length")
        if a.k == "P" or b.k == "P":
            if a.k not in "SP" or b.k not in "SP":
                raise Shape("pair (op) vector")
            ca = (comp(a, 0), comp(a, 1)) if a.k == "P" else (a, a)
            cb = (comp(b, 0), comp(b, 1)) if b.k == "P" else (b, b)
            return Val("P", c=(self.arith(op, ca[0], cb[0]), self.arith(op, ca[1], cb[1])))
        if a.k == "V" or b.k == "V":
            if a.k == "V" and b.k == "V":
                if a.base != b.base:
                    raise Shape("elementwise operation on vectors over different bases (%s, %s)" % (a.base, b.base))
                return Val("V", base=a.base, ek=a.ek, fn=lambda x: self.arith(op, a.fn(x), b.fn(x)))
            if a.k == "V" and b.k == "S":
                return Val("V", base=a.base, ek=a.ek, fn=lambda x: self.arith(op, a.fn(x), b))
            if a.k == "S" and b.k == "V":
                return Val("V", base=b.base, ek=b.ek, fn=lambda x: self.arith(op, a, b.fn(x)))
        raise Shape("operands of kinds %s, %s" % (a.k, b.k))

    def neg(self, a):
        if a.k == "S":
            return S("-" + paren(a, 100), 66)
        if a.k == "P":
            return Val("P", c=(self.neg(comp(a, 0)), self.neg(comp(a, 1))))
        if a.k == "V":
            return Val("V", base=a.base, ek=a.ek, fn=lambda x: self.neg(a.fn(x)))
        raise Shape("negation of kind %s" % a.k)

    def power(self, a, e_node):
        if self.cfg.get("square_as_mul") and isinstance(e_node, ast.Constant) and e_node.value == 2 \
                and not isinstance(e_node.value, bool):
            return self.arith(ast.Mult(), a, a)
        pw = self.cfg.get("pow")
        if pw is None:
            raise Shape("`**` is not in this target's table")
        e = self.expr(e_node)
        return self.mapf(lambda x, y: S("%s %s %s" % (pw, paren(x, 100), paren(y, 100)), 90), a, e)

    def mapf(self, f, *args):
        """apply a scalar function elementwise (broadcasting over at most one vector base / pairs)"""
        if all(a.k == "S" for a in args):
            return f(*args)
        if any(a.k == "N" for a in args):
            nc = self.cfg.get("natcast")
            if nc is None:
                raise Shape("a length is used as a number but the target has no cast")
            return self.mapf(f, *[S("%s %s" % (nc, paren(a, 100)), 90) if a.k == "N" else a for a in args])
        if any(a.k == "V" for a in args):
            bases = {a.base for a in args if a.k == "V"}
            if len(bases) != 1 or any(a.k not in "SV" for a in args):
                raise Shape("elementwise call over different vectors")
            v0 = [a for a in args if a.k == "V"][0]
            return Val("V", base=v0.base, ek=v0.ek, fn=lambda x: self.mapf(f, *[a.fn(x) if a.k == "V" else a for a in args]))
        if any(a.k == "P" for a in args) and all(a.k in "SP" for a in args):
            cs = [[comp(a, i) if a.k == "P" else a for a in args] for i in (0, 1)]
            return Val("P", c=(f(*cs[0]), f(*cs[1])))
        raise Shape("call on kinds %s" % "".join(a.k for a in args))

    def cond(self, node):
        v = self.expr(node)
        if v.k != "B":
            raise Shape("condition is not a comparison / Boolean: %s" % ast.unparse(node))
        return v

    def compare(self, node):
        if len(node.ops) != 1:
            raise Shape("chained comparison")
        op, l, r = node.ops[0], node.left, node.comparators[0]
        if isinstance(op, (ast.Is, ast.IsNot)):
            raise Shape("`is` outside a None-default guard")
        if type(op) not in CMP:
            raise Shape("comparison %s" % type(op).__name__)
        # `flag == True`
        if isinstance(op, ast.Eq) and isinstance(r, ast.Constant) and r.value is True:
            v = self.expr(l, flag_ok=True)
            if v.k == "B" and isinstance(l, ast.Name):
                return v
            raise Shape("`== True` on something that is not a Boolean parameter")
        sym, swap = CMP[type(op)]
        a, b = self.expr(l), self.expr(r)
        if swap:
            a, b = b, a

        def one(x, y):
            return Val("B", "%s %s %s" % (paren(x, 51), sym, paren(y, 51)), 50)
        if a.k == "S" and b.k == "S":
            return one(a, b)
        if (a.k == "V" and b.k in "SV") or (b.k == "V" and a.k == "S"):
            v0 = a if a.k == "V" else b
            if a.k == "V" and b.k == "V" and a.base != b.base:
                raise Shape("comparison of vectors over different bases")
            return Val("V", base=v0.base, ek=v0.ek,
                       fn=lambda x: one(a.fn(x) if a.k == "V" else a, b.fn(x) if b.k == "V" else b))
        raise Shape("comparison of kinds %s, %s" % (a.k, b.k))

    def boolop(self, node):
        sym, pr = ("∧", 35) if isinstance(node.op, ast.And) else ("∨", 30)
        vs = [self.cond(v) for v in node.values]
        # right-associative in Lean, as `and`/`or` chains are in value; parenthesise every compound operand
        text = (" %s " % sym).join(paren(v, 50) for v in vs)
        if len(vs) > 2:
            raise Shape("and/or chain of more than two operands")
        return Val("B", text, pr)

    def subscript(self, node):
        # constant indexing of a tuple parameter: mu[0], sigma[0][1]
        path, n = [], node
        while isinstance(n, ast.Subscript):
            path.append(n.slice)
            n = n.value
        path.reverse()
        if not isinstance(n, ast.Name):
            raise Shape("subscript of a non-name")
        name = n.id
        idx = self.cfg.get("index_params", {}).get(name)
        if idx is not None:
            key = []
            for s in path:
                if not (isinstance(s, ast.Constant) and isinstance(s.value, int) and not isinstance(s.value, bool)):
                    raise Shape("non-constant index of %s" % name)
                key.append(s.value)
            key = tuple(key)
            if key not in dict(idx):
                raise Shape("%s%s is not an entry the model has" % (name, "".join("[%d]" % k for k in key)))
            return self.env["%s%s" % (name, "".join("[%d]" % k for k in key))]
        if len(path) != 1:
            raise Shape("nested subscript of %s" % name)
        s = path[0]
        # elementwise loop: pers[i] -> pers
        if isinstance(s, ast.Name) and s.id == self.elemwise_index and name in self.env and self.env[name].k == "S":
            return self.env[name]
        base = self.env.get(name)
        # rows of a diagram inside a fold: A[i, 0:2] / A[j, 1::-1]
        if isinstance(s, ast.Tuple) and len(s.elts) == 2 and isinstance(s.elts[0], ast.Name):
            row = self.rows.get((name, s.elts[0].id))
            if row is None:
                raise Shape("row %s of %s outside its loop" % (s.elts[0].id, name))
            sl = s.elts[1]
            if isinstance(sl, ast.Slice):
                lo, hi, st = [None if x is None else self.const_int(x) for x in (sl.lower, sl.upper, sl.step)]
                if (lo, hi, st) == (0, 2, None):
                    return row
                if (lo, hi, st) == (1, None, -1):
                    return Val("P", c=(comp(row, 1), comp(row, 0)))
            raise Shape("unsupported row slice %s" % ast.unparse(node))
        # columns of a diagram: dgm[:, k]
        if isinstance(s, ast.Tuple) and len(s.elts) == 2 and isinstance(s.elts[0], ast.Slice) \
                and s.elts[0].lower is None and s.elts[0].upper is None and s.elts[0].step is None:
            if base is None or base.k != "V" or base.ek != "pair":
                raise Shape("column of something that is not a diagram: %s" % name)
            k = self.const_int(s.elts[1])
            if k not in (0, 1):
                raise Shape("column %d of a diagram" % k)
            return Val("V", base=base.base, ek=base.ek, fn=lambda x: comp(base.fn(x), k))
        # constant index of a pair
        if base is not None and base.k == "P" and isinstance(s, ast.Constant) and s.value in (0, 1):
            return comp(base, s.value)
        raise Shape("unsupported subscript %s" % ast.unparse(node))

    def const_int(self, node):
        if isinstance(node, ast.UnaryOp) and isinstance(node.op, ast.USub):
            return -self.const_int(node.operand)
        if isinstance(node, ast.Constant) and isinstance(node.value, int) and not isinstance(node.value, bool):
            return node.value
        raise Shape("expected an integer constant: %s" % ast.unparse(node))

    def reduce_sum(self, v):
        if v.k == "P":
            return self.arith(ast.Add(), comp(v, 0), comp(v, 1))
        if v.k == "V":
            return S("%s.sum" % self.materialise_text(v), 100)
        raise Shape("np.sum of kind %s" % v.k)

    def materialise_text(self, v):
        """Lean text (an atom) of the list a vector denotes"""
        var = self.fresh("pt" if v.ek == "pair" else "x", derived=True)
        xv = Val("P", var) if v.ek == "pair" else S(var)
        body = v.fn(xv)
        self.used.discard(var)
        if body.k in "SP" and body.t == var and body.c is None:
            return v.base
        if body.k == "P":
            body = pair_text(body)
        return "(%s.map fun %s => %s)" % (v.base, var, body.t)

    def call(self, node):
        name = dotted(node.func)
        h = self.cfg.get("calls", {}).get(name)
        if h is None:
            raise Shape("call of %s is not in this target's table" % name)
        kind = h[0]
        if kind == "internal":                    # another function of the same file: a function parameter
            callee = self.fns.get(name)
            if callee is None:
                raise Shape("internal callee %s not found" % name)
            params = [a.arg for a in callee.args.args]
            if callee.args.vararg or callee.args.kwarg or callee.args.kwonlyargs or callee.args.posonlyargs:
                raise Shape("callee %s has a signature outside the subset" % name)
            slots = dict(zip(params, node.args))
            if len(node.args) > len(params):
                raise Shape("too many arguments for %s" % name)
            for kw in node.keywords:
                if kw.arg is None or kw.arg not in params or kw.arg in slots:
                    raise Shape("keyword %s of %s" % (kw.arg, name))
                slots[kw.arg] = kw.value
            if [p for p in params if p not in slots]:
                raise Shape("call of %s relies on defaults: %s" % (name, [p for p in params if p not in slots]))
            args = [self.expr(slots[p]) for p in params]
            for a in args:
                if a.k not in "SV" or (a.k == "V" and self.materialise_text(a) != a.base):
                    raise Shape("argument of %s is not a scalar or a named list" % name)
            return S("%s %s" % (h[1], " ".join(paren(a, 100) if a.k == "S" else atom_text(a.base) for a in args)), 90)
        if node.keywords:
            # `np.array(x, dtype=float)`: a conversion to floating point is the identity of the exact-arithmetic model
            ok = (kind == "id" and len(node.keywords) == 1 and node.keywords[0].arg == "dtype"
                  and ast.unparse(node.keywords[0].value) in ("float", "np.float64"))
            if not ok:
                raise Shape("keyword arguments in a call of %s" % name)
        args = [self.expr(a) for a in node.args]
        if kind == "fn":                          # scalar function, applied elementwise
            if len(args) != h[2]:
                raise Shape("%s expects %d argument(s)" % (name, h[2]))
            return self.mapf(lambda *xs: S("%s %s" % (h[1], " ".join(paren(x, 100) for x in xs)), 90), *args)
        if kind == "id":
            if len(args) != 1:
                raise Shape("%s expects one argument" % name)
            # pinned by `src_<f>_conversions`: position (index of the statement in the function), target, argument and dtype
            if self.conv_ok is None or self.conv_ok[0] is not node:
                raise Shape("a conversion %s that is not the whole right-hand side of a top-level statement `x = %s(y, …)`"
                            % (one_line(node), name))
            if id(node) not in [i for i, _ in self.conversions]:
                self.conversions.append((id(node), "[%d] %s" % (self.conv_ok[1], one_line(self.conv_ok[2]))))
            return args[0]
        if kind == "sum":
            if len(args) != 1:
                raise Shape("%s expects one argument" % name)
            return self.reduce_sum(args[0])
        if kind == "all":
            v = args[0]
            if len(args) != 1 or v.k != "V":
                raise Shape("all(...) of a non-vector")
            var = self.fresh("x" if v.ek != "pair" else "pt", derived=True)
            b = v.fn(Val("P", var) if v.ek == "pair" else S(var))
            self.used.discard(var)
            if b.k != "B":
                raise Shape("all(...) of a vector that is not Boolean")
            return Val("B", "%s.all (fun %s => decide (%s))" % (v.base, var, b.t), 90)
        if kind == "len":
            v = args[0]
            if len(args) != 1 or v.k != "V" or self.materialise_text(v) != v.base:
                raise Shape("len(...) of something that is not a named list")
            return Val("N", "%s.length" % v.base, 100)
        if kind == "dot":
            if len(args) != 2 or args[0].k != "P" or args[1].k != "P":
                raise Shape("np.dot of non-pairs")
            u, x = args
            return self.arith(ast.Add(), self.arith(ast.Mult(), comp(u, 0), comp(x, 0)),
                              self.arith(ast.Mult(), comp(u, 1), comp(x, 1)))
        if kind == "sorted2":
            if len(args) != 1 or args[0].k != "P":
                raise Shape("sorted(...) of something that is not a 2-tuple")
            a, b = comp(args[0], 0), comp(args[0], 1)
            return Val("P", "if %s < %s then (%s, %s) else (%s, %s)" % (paren(b, 51), paren(a, 51), b.t, a.t, a.t, b.t), 0,
                       c=None)
        if kind == "listfn":                      # model helper on lists (sorted -> sort, cityblock)
            if len(args) != h[2] or any(a.k != "V" for a in args):
                raise Shape("%s expects %d list(s)" % (name, h[2]))
            texts = [self.materialise_text(a) for a in args]
            if h[3] == "list":
                return Val("V", base="(%s %s)" % (h[1], " ".join(texts)), ek="scalar", fn=lambda x: x)
            return S("%s %s" % (h[1], " ".join(texts)), 90)
        raise Shape("internal: handler %s" % kind)

    def expr(self, node, flag_ok=False):
        if isinstance(node, ast.Constant):
            return self.lit(node)
        if isinstance(node, ast.Name):
            if node.id not in self.env:
                raise Shape("name %s is not bound in the translated region" % node.id)
            if self.env[node.id].k == "B" and not flag_ok:
                # `if flag:` and `if flag == True:` differ in Python for a flag that is not a bool (`flag=2`): only the
                # written-out comparison is read (as the model's Boolean), the truthiness test is outside the subset
                raise Shape("the Boolean parameter %s is used other than as `%s == True`" % (node.id, node.id))
            return self.env[node.id]
        if isinstance(node, ast.Attribute):
            name = dotted(node)
            a = self.cfg.get("attrs", {}).get(name)
            if a is None:
                raise Shape("attribute %s" % name)
            return S(a)
        if isinstance(node, ast.BinOp):
            if isinstance(node.op, ast.Pow):
                return self.power(self.expr(node.left), node.right)
            # `[e] * 2` : the 2-vector (e, e)
            if isinstance(node.op, ast.Mult) and isinstance(node.left, ast.List) and len(node.left.elts) == 1 \
                    and isinstance(node.right, ast.Constant) and node.right.value == 2:
                e = self.expr(node.left.elts[0])
                if e.k != "S":
                    raise Shape("[e] * 2 with a non-scalar e")
                return Val("P", c=(e, e))
            a, b = self.expr(node.left), self.expr(node.right)
            if isinstance(node.op, ast.Add) and a.k == "V" and b.k == "V" and self.cfg.get("pylists"):
                return Val("V", base="(%s ++ %s)" % (self.materialise_text(a), self.materialise_text(b)), ek="scalar",
                           fn=lambda x: x)
            return self.arith(node.op, a, b)
        if isinstance(node, ast.UnaryOp):
            if isinstance(node.op, ast.USub):
                return self.neg(self.expr(node.operand))
            if isinstance(node.op, ast.UAdd):
                v = self.expr(node.operand)
                if v.k != "S":                 # `+x` is the identity on numbers (NumPy: an equal copy), a TypeError on lists / tuples
                    raise Shape("unary + on something that is not a number")
                return v
            raise Shape("unary %s" % type(node.op).__name__)
        if isinstance(node, ast.Compare):
            return self.compare(node)
        if isinstance(node, ast.BoolOp):
            return self.boolop(node)
        if isinstance(node, ast.IfExp):
            c, a, b = self.cond(node.test), self.expr(node.body), self.expr(node.orelse)
            if a.k != "S" or b.k != "S":
                raise Shape("conditional expression on non-scalars")
            return S("if %s then %s else %s" % (c.t, a.t, b.t), 0)
        if isinstance(node, ast.Subscript):
            return self.subscript(node)
        if isinstance(node, ast.Call):
            return self.call(node)
        if isinstance(node, ast.Tuple) and len(node.elts) == 2:
            a, b = self.expr(node.elts[0]), self.expr(node.elts[1])
            if a.k != "S" or b.k != "S":
                raise Shape("tuple of non-scalars")
            return Val("P", c=(a, b))
        if isinstance(node, ast.ListComp):
            return self.listcomp(node)
        raise Shape("expression %s" % type(node).__name__)

    @staticmethod
    def strip_outer(t):
        """drop one pair of parentheses that encloses the whole text"""
        if not (t.startswith("(") and t.endswith(")")):
            return t
        d = 0
        for i, ch in enumerate(t):
            d += ch == "("
            d -= ch == ")"
            if d == 0 and i < len(t) - 1:
                return t
        return t[1:-1]

    def listcomp(self, node):
        if len(node.generators) != 1:
            raise Shape("nested comprehension")
        g = node.generators[0]
        if g.ifs or g.is_async or not isinstance(g.target, ast.Name) or not isinstance(g.iter, ast.Name):
            raise Shape("comprehension outside `[e for x in NAME]`")
        src = self.env.get(g.iter.id)
        if src is None or src.k != "V":
            raise Shape("comprehension over %s, which is not a list" % g.iter.id)
        py, elt = g.target.id, node.elt

        def fn(x, src=src, py=py, elt=elt):
            saved = self.env.get(py)
            self.env[py] = src.fn(x)
            try:
                return self.expr(elt)
            finally:
                if saved is None:
                    del self.env[py]
                else:
                    self.env[py] = saved
        probe = fn(Val("P", "_probe") if src.ek == "pair" else S("_probe"))
        if probe.k not in "SP":
            raise Shape("comprehension element of kind %s" % probe.k)
        return Val("V", base=src.base, ek=src.ek, fn=fn)

    # --- statements
    def bind(self, py, v, k):
        """`py = v` followed by k() -> block"""
        self.no_index_param(py)
        if v.k == "S":
            name = self.fresh(py)
            self.env[py] = S(name)
            return Let(name, "α", v.t, k())
        if v.k == "P":
            if v.t is not None and v.c is None and v.p == 100:       # alias of a named pair
                self.env[py] = v
                return k()
            name = self.fresh(py)
            text = pair_text(v).t if v.c is not None else v.t
            self.env[py] = Val("P", name)
            return Let(name, "α × α", text, k())
        if v.k == "V":
            if self.whole_use(py):
                name = self.fresh(py)
                text = self.strip_outer(self.materialise_text(v))
                ety = "α × α" if self.elem_kind(v) == "P" else "α"
                self.env[py] = Val("V", base=name, ek="pair" if ety != "α" else "scalar", fn=lambda x: x)
                return Let(name, "List (%s)" % ety if ety != "α" else "List α", text, k())
            self.env[py] = v
            return k()
        raise Shape("assignment of kind %s to %s" % (v.k, py))

    def no_index_param(self, py):
        """`mu[0]` of a tuple parameter is resolved by the spelling `mu`: a store to `mu` would leave the entries stale"""
        if py in self.cfg.get("index_params", {}) or py == self.elemwise_index:
            raise Shape("assignment to %s, whose entries / elements are resolved by its spelling" % py)

    def elem_kind(self, v):
        var = "_probe"
        return v.fn(Val("P", var) if v.ek == "pair" else S(var)).k

    def whole_use(self, py):
        """materialisation rule: is `py` a direct argument of np.sum/len/all (or all(py <cmp> …)) later on?"""
        red = {n for n, h in self.cfg.get("calls", {}).items() if h[0] in ("sum", "len", "all", "listfn")}
        for st in self.stmts_after:
            for n in ast.walk(st):
                if isinstance(n, ast.Call) and len(n.args) >= 1:
                    try:
                        nm = dotted(n.func)
                    except Shape:
                        continue
                    if nm in red:
                        for a in n.args:
                            if isinstance(a, ast.Name) and a.id == py:
                                return True
                            if isinstance(a, ast.Compare) and isinstance(a.left, ast.Name) and a.left.id == py:
                                return True
        return False

    def terminal(self, s):
        """the result a statement yields on its path (target-specific), or None"""
        y = self.cfg.get("yield")
        if isinstance(s, ast.Return) and y is None:
            if s.value is None:
                raise Shape("bare return")
            return self.as_result(self.expr(s.value))
        if y is None:
            return None
        if y[0] == "store" and isinstance(s, ast.Assign) and len(s.targets) == 1 and isinstance(s.targets[0], ast.Subscript):
            t = s.targets[0]
            if isinstance(t.value, ast.Name) and t.value.id == y[1] and isinstance(t.slice, ast.Name) \
                    and t.slice.id == self.elemwise_index:
                return self.as_result(self.expr(s.value))
            raise Shape("store into %s" % ast.unparse(t))
        if y[0] == "aug" and isinstance(s, ast.AugAssign):
            if isinstance(s.target, ast.Name) and s.target.id == y[1] and isinstance(s.op, ast.Add):
                return self.as_result(self.expr(s.value))
            raise Shape("augmented assignment %s" % ast.unparse(s))
        if y[0] == "append":
            if isinstance(s, ast.Expr) and isinstance(s.value, ast.Call) and isinstance(s.value.func, ast.Attribute) \
                    and s.value.func.attr == "append" and isinstance(s.value.func.value, ast.Name) \
                    and s.value.func.value.id == y[1] and len(s.value.args) == 1 and not s.value.keywords:
                v = self.expr(s.value.args[0])
                if v.k != "S":
                    raise Shape("appended value is not a scalar")
                return Ret(".ok %s" % paren(v, 100))
            if isinstance(s, ast.Raise):
                e = s.exc
                if isinstance(e, ast.Call) and len(e.args) == 1 and isinstance(e.args[0], ast.Constant) \
                        and (dotted(e.func), e.args[0].value) in y[2]:
                    return Ret(".error %s" % y[2][(dotted(e.func), e.args[0].value)])
                raise Shape("raise outside the table: %s" % ast.unparse(s))
        return None

    def as_result(self, v):
        if v.k == "S":
            return Ret(v.t)
        if v.k == "P":
            return Ret(pair_text(v).t)
        if v.k == "V":
            return Ret(self.strip_outer(self.materialise_text(v)))
        raise Shape("result of kind %s" % v.k)

    def terminates(self, stmts):
        if not stmts:
            return False
        s = stmts[-1]
        if isinstance(s, (ast.Return, ast.Raise, ast.Continue)):
            return True
        y = self.cfg.get("yield")
        if y is not None:
            if y[0] == "store" and isinstance(s, ast.Assign) and isinstance(s.targets[0], ast.Subscript):
                return True
            if y[0] == "aug" and isinstance(s, ast.AugAssign):
                return True
            if y[0] == "append" and isinstance(s, ast.Expr):
                return True
        if isinstance(s, ast.If):
            return self.terminates(s.body) and self.terminates(s.orelse)
        return False

    def none_guard(self, s):
        """`if p is None: p = <default>` for a parameter p (the default is not modelled: the model takes the value)"""
        return (isinstance(s, ast.If) and not s.orelse and isinstance(s.test, ast.Compare) and len(s.test.ops) == 1
                and isinstance(s.test.ops[0], ast.Is) and isinstance(s.test.left, ast.Name)
                and isinstance(s.test.comparators[0], ast.Constant) and s.test.comparators[0].value is None
                and len(s.body) == 1 and isinstance(s.body[0], ast.Assign) and len(s.body[0].targets) == 1
                and isinstance(s.body[0].targets[0], ast.Name) and s.body[0].targets[0].id == s.test.left.id
                and s.test.left.id in self.cfg.get("none_defaults", ()))

    def block(self, stmts):
        if not stmts:
            raise Shape("a path through the translated region ends without a result")
        s, rest = stmts[0], list(stmts[1:])
        self.stmts_after = rest
        if isinstance(s, ast.Expr) and isinstance(s.value, ast.Constant) and isinstance(s.value.value, str):
            return self.block(rest)                                    # docstring
        if self.none_guard(s):
            d = s.body[0].value                                        # pinned by `src_<f>_none_defaults`
            self.none_defaults.append((s.test.left.id, one_line(d), numeric_leaves(d, self.src)))
            return self.block(rest)
        t = self.terminal(s)
        if t is not None:
            if rest and not (len(rest) == 1 and isinstance(rest[0], ast.Continue)):
                raise Shape("statements after the result of a path")
            return t
        if isinstance(s, ast.Assign):
            if len(s.targets) != 1:
                raise Shape("chained assignment")
            tgt = s.targets[0]
            if isinstance(tgt, ast.Name):
                top = [i for i, t in enumerate(self.top_stmts) if t is s]
                self.conv_ok = (s.value, top[0], s) if top and not self.loop_indices else None
                try:
                    v = self.expr(s.value)
                finally:
                    self.conv_ok = None
                return self.bind(tgt.id, v, lambda: self.block(rest))
            if isinstance(tgt, ast.Tuple) and len(tgt.elts) == 2 and all(isinstance(e, ast.Name) for e in tgt.elts):
                v = self.expr(s.value)
                if v.k != "P":
                    raise Shape("tuple assignment from a non-pair")
                if tgt.elts[0].id == tgt.elts[1].id:
                    raise Shape("a name twice in one tuple target")
                for e in tgt.elts:
                    self.no_index_param(e.id)
                name = self.fresh("%s_%s" % (tgt.elts[0].id, tgt.elts[1].id), derived=True)
                text = pair_text(v).t if v.c is not None else v.t
                self.env[tgt.elts[0].id] = S(name + ".1")
                self.env[tgt.elts[1].id] = S(name + ".2")
                return Let(name, "α × α", text, self.block(rest))
            raise Shape("assignment target %s" % ast.unparse(tgt))
        if isinstance(s, ast.If):
            c = self.cond(s.test)
            tb, te = self.terminates(s.body), self.terminates(s.orelse)
            if tb and te:
                if rest:
                    raise Shape("statements after an if whose branches all end")
                return self.branch(c, s.body, s.orelse)
            if tb:
                return self.branch(c, s.body, list(s.orelse) + rest)
            if not s.orelse and len(s.body) == 1 and isinstance(s.body[0], ast.Assign) and len(s.body[0].targets) == 1 \
                    and isinstance(s.body[0].targets[0], ast.Name) and s.body[0].targets[0].id in self.env:
                py = s.body[0].targets[0].id                      # conditional re-assignment: phi by an if-expression
                old, new = self.env[py], self.expr(s.body[0].value)
                if old.k != "S" or new.k != "S":
                    raise Shape("conditional re-assignment of a non-scalar")
                return self.bind(py, S("if %s then %s else %s" % (c.t, new.t, old.t), 0), lambda: self.block(rest))
            raise Shape("if-statement outside the subset at line %d" % s.lineno)
        if isinstance(s, ast.For):
            return self.fold(s, rest, top=True)
        raise Shape("statement %s at line %d" % (type(s).__name__, s.lineno))

    def branch(self, c, a, b):
        env, rows = dict(self.env), dict(self.rows)
        na = self.block(list(a))
        self.env, self.rows = dict(env), dict(rows)
        nb = self.block(list(b))
        self.env, self.rows = env, rows
        return Ite(c.t, na, nb)

    # --- accumulation loops over the rows of a diagram
    def fold_header(self, s):
        if s.orelse or not isinstance(s.target, ast.Name):
            raise Shape("loop outside the subset at line %d" % s.lineno)
        it = s.iter
        ok = (isinstance(it, ast.Call) and dotted(it.func) == "range" and len(it.args) == 1 and not it.keywords
              and isinstance(it.args[0], ast.Subscript) and isinstance(it.args[0].value, ast.Attribute)
              and it.args[0].value.attr == "shape" and isinstance(it.args[0].value.value, ast.Name)
              and isinstance(it.args[0].slice, ast.Constant) and it.args[0].slice.value == 0)
        if not ok:
            raise Shape("loop is not `for i in range(A.shape[0])` at line %d" % s.lineno)
        arr = it.args[0].value.value.id
        v = self.env.get(arr)
        if v is None or v.k != "V" or v.ek != "pair" or self.materialise_text(v) != v.base:
            raise Shape("loop over %s, which is not a diagram" % arr)
        return arr, v.base, s.target.id

    def fold(self, s, rest, top, acc_py=None):
        arr, lst, idx = self.fold_header(s)
        accs = sorted({n.target.id for n in ast.walk(s) if isinstance(n, ast.AugAssign) and isinstance(n.target, ast.Name)})
        if len(accs) != 1 or (acc_py is not None and accs[0] != acc_py):
            raise Shape("loop must accumulate into exactly one variable (found %s)" % accs)
        acc_py = accs[0]
        init = self.env.get(acc_py)
        if init is None or init.k != "S":
            raise Shape("accumulator %s is not initialised to a scalar" % acc_py)
        # rows are resolved by the SPELLING of the index (`A[i, 0:2]` is the element of the fold over `A` indexed by `i`): the
        # index must be bound by this loop header and by nothing else in the function (no `i = 0`, no inner loop reusing `i`)
        if idx in self.env or idx in self.loop_indices or idx == acc_py or self.store_counts.get(idx, 0) != 1:
            raise Shape("the loop index %s is bound elsewhere in the function (rows are resolved by its spelling)" % idx)
        # Python carries every name a loop body assigns to the next iteration and past the loop; the fold carries the
        # accumulator only: a store to any other name that is bound outside the body is outside the subset
        for nm in stored_names(s.body):
            if nm != acc_py and (nm in self.env or nm in self.loop_indices or nm == idx):
                raise Shape("the loop body assigns %s, which is bound outside the loop and is not its accumulator" % nm)
        body = list(s.body)
        # the row binding `p = A[i, 0:2]` names the element
        elem_py = None
        if body and isinstance(body[0], ast.Assign) and len(body[0].targets) == 1 and isinstance(body[0].targets[0], ast.Name) \
                and ast.unparse(body[0].value) == "%s[%s, 0:2]" % (arr, idx):
            elem_py = body[0].targets[0].id
        elem = self.fresh(elem_py or "row", derived=elem_py is None)
        acc = self.fresh(acc_py)
        saved_env, saved_rows = dict(self.env), dict(self.rows)
        self.rows[(arr, idx)] = Val("P", elem)
        self.env[acc_py] = S(acc)
        self.loop_indices.append(idx)
        try:
            inner = self.loop_body(body, acc_py)
        finally:
            self.loop_indices.pop()
        self.env, self.rows = saved_env, saved_rows
        out = self.fresh(acc_py)
        self.env[acc_py] = S(out)
        if top:
            return Fold(out, lst, acc, elem, inner, init.t, self.block(rest))
        return out, lst, acc, elem, inner, init.t

    def loop_body(self, stmts, acc_py):
        """block whose value is the accumulator after the statements"""
        if not stmts:
            return Ret(self.env[acc_py].t)
        s, rest = stmts[0], list(stmts[1:])
        self.stmts_after = rest
        if isinstance(s, ast.Assign) and len(s.targets) == 1 and isinstance(s.targets[0], ast.Name):
            if s.targets[0].id == acc_py:
                raise Shape("plain assignment to the accumulator inside the loop")
            return self.bind(s.targets[0].id, self.expr(s.value), lambda: self.loop_body(rest, acc_py))
        if isinstance(s, ast.AugAssign):
            if not (isinstance(s.target, ast.Name) and s.target.id == acc_py and isinstance(s.op, ast.Add)):
                raise Shape("augmented assignment %s" % ast.unparse(s))
            v = self.expr(s.value)
            if v.k != "S":
                raise Shape("summand is not a scalar")
            new = self.arith(ast.Add(), self.env[acc_py], S(v.t, min(v.p, 64)))     # acc + (summand), always parenthesised
            if not rest:
                return Ret(new.t)
            return self.bind(acc_py, new, lambda: self.loop_body(rest, acc_py))
        if isinstance(s, ast.For):
            out, lst, acc, elem, inner, init = self.fold(s, None, top=False, acc_py=acc_py)
            if not rest:                                   # the inner fold *is* the new accumulator
                self.used.discard(out)
                return Fold(None, lst, acc, elem, inner, init, None)
            return Fold(out, lst, acc, elem, inner, init, self.loop_body(rest, acc_py))
        raise Shape("statement %s inside an accumulation loop (line %d)" % (type(s).__name__, s.lineno))


def render_def(node, ind="  "):
    return "\n".join(render(node, ind))


def stored_names(stmts):
    """python names that the statements bind (assignment / augmented assignment / loop / with / except / import / def targets,
    walrus), at any depth; comprehension variables live in their own scope and are not included"""
    out = []

    def tgt(t):
        if isinstance(t, ast.Name):
            if t.id not in out:
                out.append(t.id)
        elif isinstance(t, (ast.Tuple, ast.List)):
            for e in t.elts:
                tgt(e)
        elif isinstance(t, ast.Starred):
            tgt(t.value)

    def walk(n):
        if isinstance(n, (ast.ListComp, ast.SetComp, ast.DictComp, ast.GeneratorExp, ast.Lambda)):
            return
        if isinstance(n, ast.Assign):
            for t in n.targets:
                tgt(t)
        elif isinstance(n, (ast.AugAssign, ast.AnnAssign)):
            tgt(n.target)
        elif isinstance(n, (ast.For, ast.AsyncFor)):
            tgt(n.target)
        elif isinstance(n, (ast.With, ast.AsyncWith)):
            for it in n.items:
                if it.optional_vars is not None:
                    tgt(it.optional_vars)
        elif isinstance(n, ast.NamedExpr):
            tgt(n.target)
        elif isinstance(n, ast.ExceptHandler) and n.name:
            tgt(ast.Name(id=n.name))
        elif isinstance(n, (ast.FunctionDef, ast.AsyncFunctionDef, ast.ClassDef)):
            tgt(ast.Name(id=n.name))
            return
        elif isinstance(n, (ast.Import, ast.ImportFrom)):
            for a in n.names:
                tgt(ast.Name(id=(a.asname or a.name.split(".")[0])))
        elif isinstance(n, ast.Delete):
            for t in n.targets:
                tgt(t)
        elif isinstance(n, (ast.Global, ast.Nonlocal)):
            for nm in n.names:
                tgt(ast.Name(id=nm))
        for c in ast.iter_child_nodes(n):
            walk(c)
    for st in stmts:
        walk(st)
    return out


def names_outside(fn, region):
    """every identifier (`Name`, parameter) that occurs in the function `fn` OUTSIDE the statements `region`; the variables of
    a comprehension / lambda are local to it and do not count"""
    skip = {id(s) for s in region}
    out = set()

    def walk(n, shadow):
        if id(n) in skip:
            return
        if isinstance(n, (ast.ListComp, ast.SetComp, ast.DictComp, ast.GeneratorExp)):
            loc = set(shadow)
            for g in n.generators:
                loc |= {x.id for x in ast.walk(g.target) if isinstance(x, ast.Name)}
            for c in ast.iter_child_nodes(n):
                walk(c, loc)
            return
        if isinstance(n, ast.Lambda):
            loc = set(shadow) | {a.arg for a in ast.walk(n.args) if isinstance(a, ast.arg)}
            walk(n.body, loc)
            return
        if isinstance(n, ast.Name) and n.id not in shadow:
            out.add(n.id)
        elif isinstance(n, ast.arg):
            out.add(n.arg)
        elif isinstance(n, ast.ExceptHandler) and n.name:
            out.add(n.name)
        elif isinstance(n, (ast.Global, ast.Nonlocal)):
            out.update(n.names)
        for c in ast.iter_child_nodes(n):
            walk(c, shadow)
    walk(fn, set())
    return out


def function_identifiers(fn):
    """every identifier that occurs anywhere in a Python function (names, parameters, attribute and keyword names, nested defs,
    handlers, imports): what an SSA suffix or a made-up binder must not be spelled like"""
    out = set()
    for n in ast.walk(fn):
        if isinstance(n, ast.Name):
            out.add(n.id)
        elif isinstance(n, ast.arg):
            out.add(n.arg)
        elif isinstance(n, ast.Attribute):
            out.add(n.attr)
        elif isinstance(n, ast.keyword) and n.arg:
            out.add(n.arg)
        elif isinstance(n, (ast.FunctionDef, ast.AsyncFunctionDef, ast.ClassDef)):
            out.add(n.name)
        elif isinstance(n, ast.ExceptHandler) and n.name:
            out.add(n.name)
        elif isinstance(n, (ast.Import, ast.ImportFrom)):
            for a in n.names:
                out.add(a.asname or a.name.split(".")[0])
        elif isinstance(n, (ast.Global, ast.Nonlocal)):
            out.update(n.names)
    return out


def binding_counts(fn):
    """python name -> number of binding occurrences in the function (parameters, every Store / Del target, loop and
    comprehension variables, handlers, nested defs, imports, walrus, global declarations)"""
    out = {}

    def add(nm):
        out[nm] = out.get(nm, 0) + 1
    for n in ast.walk(fn):
        if isinstance(n, ast.Name) and not isinstance(n.ctx, ast.Load):
            add(n.id)
        elif isinstance(n, ast.arg):
            add(n.arg)
        elif isinstance(n, ast.ExceptHandler) and n.name:
            add(n.name)
        elif isinstance(n, (ast.FunctionDef, ast.AsyncFunctionDef, ast.ClassDef)) and n is not fn:
            add(n.name)
        elif isinstance(n, (ast.Import, ast.ImportFrom)):
            for a in n.names:
                add(a.asname or a.name.split(".")[0])
        elif isinstance(n, (ast.Global, ast.Nonlocal)):
            for nm in n.names:
                add(nm)
    return out


def reads_name(name, text):
    """does the identifier `name` occur in the Lean text (not as a field `.name`, not inside a longer identifier)?"""
    return re.search(r"(?<![\w.'])%s(?![\w'])" % re.escape(name), text) is not None


def check_liveness(node, what="assignment", allow=()):
    """DEAD STORES.  The obligations are proved up to definitional unfolding, which erases a `let` that is never read: a Python
    store that the translation turns into such a `let` (a store to a name that lives beyond the translated body -- a
    parameter, an outer variable, a name the pinned text around the region reads -- placed after its last use there) would
    change the program and no obligation.  Every generated binding must therefore be read by what follows it."""
    if isinstance(node, Let):
        if node.name not in allow and not any(reads_name(node.name, ln) for ln in render(node.body, "")):
            raise Shape("the value bound to `%s` is never read: a dead store (or a store to a name that outlives the translated "
                        "region) is outside the subset" % node.name)
        check_liveness(node.body, what, allow)
    elif isinstance(node, Ite):
        check_liveness(node.a, what, allow)
        check_liveness(node.b, what, allow)
    elif isinstance(node, Fold):
        inner = render(node.inner, "")
        if not any(reads_name(node.acc, ln) for ln in inner):
            raise Shape("the accumulator `%s` of a loop is never read by its body" % node.acc)
        check_liveness(node.inner, what, allow)
        if node.name is not None:
            if not any(reads_name(node.name, ln) for ln in render(node.body, "")):
                raise Shape("the result `%s` of a loop is never read" % node.name)
            check_liveness(node.body, what, allow)


# ----------------------------------------------------------------------------- targets (fixed; reviewed against the models)

A1 = "α → α"
A2 = "α → α → α"
DGM = "List (α × α)"

TARGETS = [
    # ---------------------------------------------------------------- persim/images_kernels.py  ->  Model/Kernels.lean (C13)
    dict(file="kernels", func="uniform", lean="uniform", region="function",
         variables="[Sub α] [Mul α] [Div α] [Max α] [Min α] [Zero α] [OfNat α 2]",
         params=[("x", "S"), ("y", "S"), ("mu", "I"), ("width", "S"), ("height", "S")],
         index_params={"mu": [((0,), "mu0"), ((1,), "mu1")]},
         calls={"np.maximum": ("fn", "max", 2), "np.minimum": ("fn", "min", 2)}, lit="nat",
         defaults=[("width", "1"), ("height", "1")],
         obligations=[("src_uniform_eq_model", "", "uniform (α := α) = PersimVerif.Kernels.uniform", "rfl",
                       "the source's `uniform` is the model's, term for term")]),
    dict(file="kernels", func="norm_cdf", lean="norm_cdf", region="function",
         variables="[Div α] [Neg α] [OfScientific α]", fparams=[("erfc", A1), ("sqrt", A1)],
         params=[("x", "S")], calls={"erfc": ("fn", "erfc", 1), "np.sqrt": ("fn", "sqrt", 1)}, lit="sci",
         obligations=[("src_norm_cdf_eq_model", "", "norm_cdf (α := α) = PersimVerif.Kernels.normCdf", "rfl",
                       "`erfc(-x / sqrt(2.0)) / 2.0`, with `erfc`, `sqrt` as parameters")]),
    dict(file="kernels", func="sbvn_cdf", lean="sbvn_cdf", region="function",
         variables="[Sub α] [Mul α] [Div α]", fparams=[("norm_cdf", A1), ("sqrt", A1)],
         params=[("x", "S"), ("y", "S"), ("mu_x", "S"), ("mu_y", "S"), ("sigma_x", "S"), ("sigma_y", "S")],
         calls={"norm_cdf": ("fn", "norm_cdf", 1), "np.sqrt": ("fn", "sqrt", 1)}, lit="nat",
         defaults=[("mu_x", "0"), ("mu_y", "0"), ("sigma_x", "1"), ("sigma_y", "1")],
         obligations=[("src_sbvn_cdf_eq_model", "", "sbvn_cdf (α := α) = PersimVerif.Kernels.sbvn", "rfl",
                       "standardise by the square roots of the variances, multiply the marginals "
                       "(the internal call `norm_cdf` is the parameter `Φ` of the model)")]),
    dict(file="kernels", func="gaussian", lean="gaussian", region="function",
         variables="[Sub α] [Mul α] [Div α] [BEq α] [Zero α]",
         fparams=[("sbvn_cdf", "α → α → α → α → α → α → α"), ("bvn_cdf", "α → α → α → α → α → α → α → α")],
         params=[("birth", "S"), ("pers", "S"), ("mu", "I"), ("sigma", "I")],
         index_params={"mu": [((0,), "mu0"), ((1,), "mu1")], "sigma": [((0, 0), "s00"), ((1, 1), "s11"), ((0, 1), "s01")]},
         none_defaults=("mu", "sigma"),
         none_default_values=[("mu", "np.array([0.0, 0.0], dtype=np.float64)", "0 0"),
                              ("sigma", "np.array([[1.0, 0.0], [0.0, 1.0]], dtype=np.float64)", "1 0 0 1")],
         calls={"sbvn_cdf": ("internal", "sbvn_cdf"), "bvn_cdf": ("internal", "bvn_cdf")}, lit="nat",
         obligations=[("src_gaussian_dispatch_eq_model", "(Φ sqrt : α → α) (bvn : α → α → α → α → α → α → α → α)",
                       "gaussian (sbvn_cdf Φ sqrt) bvn = PersimVerif.Kernels.gaussian Φ sqrt bvn", "rfl",
                       "the dispatch `sigma[0][1] == 0.0` and the argument wiring of both branches; the product branch is the "
                       "*generated* `sbvn_cdf`, the other branch is the parameter `bvn` on both sides")]),
    # ---------------------------------------------------------------- persim/images_weights.py  ->  Model/Image.lean (C04)
    dict(file="weights", func="persistence", lean="persistence", region="function",
         variables="", fparams=[("pow", A2)], params=[("birth", "S"), ("pers", "S"), ("n", "S")], pow="pow", lit="nat",
         defaults=[("n", "1")],
         obligations=[("src_persistence_eq_model", "(pow : α → α → α) (n : α) (p : PersimVerif.Image.Pt α)",
                       "persistence pow p.1 p.2 n = PersimVerif.Image.persistenceW pow n p", "rfl",
                       "`pers ** n` on the (birth, persistence) pair")]),
    dict(file="weights", func="linear_ramp", lean="linear_ramp", region="elementwise_loop",
         variables="[Add α] [Sub α] [Mul α] [Div α] [LT α] [DecidableLT α]",
         params=[("birth", "S"), ("pers", "S"), ("low", "S"), ("high", "S"), ("start", "S"), ("end", "S")],
         yield_=("store", "w"), lit="nat",
         defaults=[("low", "0"), ("high", "1"), ("start", "0"), ("end", "1")],
         skeleton="try:\n    n = len(birth)\nexcept:\n    n = 1\n    birth = [birth]\n    pers = [pers]\nw = np.zeros((n,))\n"
                  "for i in range(n):\n    ...\nreturn w",
         obligations=[("src_linear_ramp_eq_model", "(low high start stop : α) (p : PersimVerif.Image.Pt α)",
                       "linear_ramp p.1 p.2 low high start stop = PersimVerif.Image.linearRamp low high start stop p", "rfl",
                       "the per-element branch structure of the loop `for i in range(n)`")]),
    # ---------------------------------------------------------------- persim/heat.py  ->  Model/Heat.lean (C14)
    dict(file="heat", func="evalHeatKernel", lean="evalHeatKernel", region="function",
         variables="[Add α] [Sub α] [Mul α] [Div α] [Neg α] [Zero α] [OfNat α 8]",
         fparams=[("exp", A1)], cparams=[("pi", "α")],
         params=[("dgm1", "LP"), ("dgm2", "LP"), ("sigma", "S")],
         calls={"np.array": ("id",), "np.exp": ("fn", "exp", 1), "np.sum": ("sum",)}, attrs={"np.pi": "pi"},
         square_as_mul=True, lit="nat", conversions=["[1] I1 = np.array(dgm1, dtype=float)", "[2] I2 = np.array(dgm2, dtype=float)"],
         obligations=[("src_evalHeatKernel_eq_model", "", "evalHeatKernel (α := α) = PersimVerif.Heat.evalHeatKernel", "rfl",
                       "the double loop is the model's double left fold, the summand is `kTerm`, the final division is the same")]),
    dict(file="heat", func="heat", lean="heat", region="function",
         variables="[Add α] [Sub α] [Mul α] [Div α] [Neg α] [Zero α] [Max α] [OfNat α 2] [OfNat α 8]",
         fparams=[("sqrt", A1), ("evalHeatKernel", "%s → %s → α → α" % (DGM, DGM))],
         params=[("dgm1", "LP"), ("dgm2", "LP"), ("sigma", "S")],
         calls={"np.sqrt": ("fn", "sqrt", 1), "np.maximum": ("fn", "max", 2), "evalHeatKernel": ("internal", "evalHeatKernel")},
         lit="nat", defaults=[("sigma", "0.4")],
         obligations=[("src_heat_eq_model", "(exp sqrt : α → α) (pi : α)",
                       "heat sqrt (evalHeatKernel exp pi) = PersimVerif.Heat.heat exp sqrt pi", "rfl",
                       "`sqrt(maximum(k(F,F) + k(G,G) - 2 k(F,G), 0))` over the *generated* `evalHeatKernel`")]),
    # ---------------------------------------------------------------- persim/landscapes/auxiliary.py  ->  Model/PNorm.lean (C10)
    dict(file="pnorm", func="_p_norm", lean="p_norm_segment", region="segment_loop",
         variables="[Add α] [Sub α] [Mul α] [Div α] [Neg α] [Zero α] [One α] [LT α] [DecidableLT α] [BEq α] [OfNat α 2]",
         fparams=[("pow", A2), ("expm1", A1), ("log", A1)],
         params=[("p", "S"), ("x0", "S"), ("y0", "S"), ("x1", "S"), ("y1", "S")],
         calls={"np.abs": ("fn", "PersimVerif.PNorm.absA", 1), "sorted": ("sorted2",), "np.expm1": ("fn", "expm1", 1),
                "np.log": ("fn", "log", 1)},
         pow="pow", yield_=("aug", "result"), lit="nat",
         skeleton="result = 0.0\nfor l in critical_pairs:\n    for [[x0, y0], [x1, y1]] in zip(l, l[1:]):\n        ...\n"
                  "return result ** (1.0 / p)",
         obligations=[("src_p_norm_segment_eq_model", "(pow : α → α → α) (expm1 log : α → α) (p x0 y0 x1 y1 : α)",
                       "p_norm_segment pow expm1 log p x0 y0 x1 y1 =\n"
                       "      PersimVerif.PNorm.segTerm (fun x => pow x p) (fun x => pow x (p + 1))\n"
                       "        (fun r => -(expm1 ((p + 1) * log r))) (p + 1) x0 y0 x1 y1", "rfl",
                       "the three segment formulas (horizontal / crossing the axis / one-signed) added to `result`: the model's "
                       "`segTerm` with its parameters instantiated by what the source writes (`powP = · ** p`, `powP1 = · ** (p+1)`, "
                       "`p1 = p + 1`, `oneSubPow r = -expm1((p+1)*log r)`)")]),
    # ---------------------------------------------------------------- persim/persistent_entropy.py  ->  Model/Entropy.lean (C16)
    dict(file="entropy", func="persistent_entropy", lean="entropy_of_diagram", region="entropy_loop",
         variables="[Add α] [Sub α] [Mul α] [Div α] [Neg α] [Zero α] [LT α] [DecidableLT α]",
         fparams=[("log", A1), ("natCast", "Nat → α")], params=[("normalize", "B"), ("dgm", "LP")],
         result="Except PersimVerif.Entropy.Err α", natcast="natCast",
         calls={"all": ("all",), "np.sum": ("sum",), "np.log": ("fn", "log", 1), "len": ("len",)},
         yield_=("append", "ps", {("Exception", "A bar is born after dying"): "PersimVerif.Entropy.Err.bornAfterDying"}),
         lit="nat",
         skeleton="if isinstance(dgms, list) == False:\n    dgms = [dgms]\n"
                  "dgms = [np.asarray(dgm, dtype=float) for dgm in dgms]\nif keep_inf == False:\n"
                  "    dgms = [dgm[dgm[:, 1] != np.inf] for dgm in dgms]\nif keep_inf == True:\n    if val_inf != None:\n"
                  "        dgms = [np.where(dgm == np.inf, val_inf, dgm) for dgm in dgms]\n    else:\n"
                  "        raise Exception('Remember: You need to provide a value to infinity bars if you want to keep them.')\n"
                  "ps = []\nfor dgm in dgms:\n    ...\nreturn np.array(ps)",
         obligations=[("src_entropy_of_diagram_eq_model", "",
                       "entropy_of_diagram (α := α) = PersimVerif.Entropy.entropyOne", "rfl",
                       "Step 2 for one diagram: lengths, the positivity guard and its exception, `-sum(p*log p)`, the optional "
                       "normalisation by `log(len(l))`")]),
    # ---------------------------------------------------------------- persim/sliced_wasserstein.py  ->  Model/Sliced.lean (C15)
    dict(file="sliced", func="sliced_wasserstein", lean="PD_delta1", region="select",
         select=["l_theta1", "PD_delta1"], result_name="PD_delta1", result="List (α × α)",
         variables="[Add α] [Mul α] [Div α] [OfNat α 2]", fparams=[("sqrt", A1)],
         params=[("diag_theta", "P"), ("PD1", "LP")],
         calls={"np.dot": ("dot",), "np.sqrt": ("fn", "sqrt", 1)}, lit="nat", pylists=True,
         obligations=[("src_PD_delta1_eq_model", "(sqrt : α → α) (dd : α × α) (PD1 : List (α × α))",
                       "PD_delta1 sqrt dd PD1 = PD1.map (PersimVerif.Sliced.diagProj dd (sqrt 2))", "rfl",
                       "the diagonal projection of PD1: `dot(diag_theta, x) / sqrt(2.0)`, twice")]),
    dict(file="sliced", func="sliced_wasserstein", lean="PD_delta2", region="select",
         select=["l_theta2", "PD_delta2"], result_name="PD_delta2", result="List (α × α)",
         variables="[Add α] [Mul α] [Div α] [OfNat α 2]", fparams=[("sqrt", A1)],
         params=[("diag_theta", "P"), ("PD2", "LP")],
         calls={"np.dot": ("dot",), "np.sqrt": ("fn", "sqrt", 1)}, lit="nat", pylists=True,
         obligations=[("src_PD_delta2_eq_model", "(sqrt : α → α) (dd : α × α) (PD2 : List (α × α))",
                       "PD_delta2 sqrt dd PD2 = PD2.map (PersimVerif.Sliced.diagProj dd (sqrt 2))", "rfl",
                       "the diagonal projection of PD2")]),
    dict(file="sliced", func="sliced_wasserstein", lean="slice_summand", region="select",
         select=["V1", "V2", "sw+="], result_name=None,
         variables="[Add α] [Sub α] [Mul α] [Neg α] [Zero α] [LE α] [DecidableLE α] [Max α]",
         params=[("l_theta", "P"), ("step", "S"), ("PD1", "LP"), ("PD_delta1", "LP"), ("PD2", "LP"), ("PD_delta2", "LP")],
         calls={"np.dot": ("dot",), "sorted": ("listfn", "PersimVerif.Sliced.sort", 1, "list"),
                "cityblock": ("listfn", "PersimVerif.Sliced.cityblock", 2, "scalar")},
         yield_=("aug", "sw"), lit="nat", pylists=True, defaults=[("M", "50")],
         skeleton="diag_theta = np.array([np.cos(0.25 * np.pi), np.sin(0.25 * np.pi)])\n...\n...\n"
                  "if len(l_theta1) != PD1.shape[0] or len(l_theta2) != PD2.shape[0]:\n"
                  "    raise ValueError('The projected points and origin do not match')\n...\n...\nsw = 0\ntheta = 0.5\n"
                  "step = 1.0 / M\nfor i in range(M):\n"
                  "    l_theta = np.array([np.cos(theta * np.pi), np.sin(theta * np.pi)])\n    ...\n    ...\n"
                  "    ...\n    theta += step\nreturn sw",
         skeleton_select=["l_theta1", "l_theta2", "PD_delta1", "PD_delta2", "V1", "V2", "sw+="],
         obligations=[("src_slice_summand_eq_model", "(dir : α × α) (step : α) (PD1 D1 PD2 D2 : List (α × α))",
                       "slice_summand dir step PD1 D1 PD2 D2 = step * PersimVerif.Sliced.sliceCost dir PD1 D1 PD2 D2", "rfl",
                       "one direction of the loop: `V1`, `V2` (projections of PD1 ∪ Δ(PD2), PD2 ∪ Δ(PD1)) and "
                       "`step * cityblock(sorted(V1), sorted(V2))`")]),
]

FILES = {
    # key: (python source, generated Lean file, Lean namespace, imported model, property)
    "kernels": ("persim/images_kernels.py", "SrcKernels.lean", "PersimVerif.Src.images_kernels", "PersimVerif.Model.Kernels", "C13"),
    "weights": ("persim/images_weights.py", "SrcWeights.lean", "PersimVerif.Src.images_weights", "PersimVerif.Model.Image", "C04"),
    "heat": ("persim/heat.py", "SrcHeat.lean", "PersimVerif.Src.heat", "PersimVerif.Model.Heat", "C14"),
    "pnorm": ("persim/landscapes/auxiliary.py", "SrcPNorm.lean", "PersimVerif.Src.landscapes_auxiliary", "PersimVerif.Model.PNorm", "C10"),
    "entropy": ("persim/persistent_entropy.py", "SrcEntropy.lean", "PersimVerif.Src.persistent_entropy", "PersimVerif.Model.Entropy", "C16"),
    "sliced": ("persim/sliced_wasserstein.py", "SrcSliced.lean", "PersimVerif.Src.sliced_wasserstein", "PersimVerif.Model.Sliced", "C15"),
}


# what the names and signatures of the translated functions must be bound to / look like (reviewed against /repo; the
# generated `srcBindings_<file>` / `srcSignature_<function>` are compared with these texts on every run)
BINDINGS = {
    'approx': [
        ('PersLandscape', 'from .base import PersLandscape'),
        ('bool', 'builtin'),
        ('dict', 'builtin'),
        ('enumerate', 'builtin'),
        ('len', 'builtin'),
        ('list', 'builtin'),
        ('max', 'builtin'),
        ('ndsnap_regular', 'from .auxiliary import ndsnap_regular'),
        ('np', 'import numpy as np'),
        ('print', 'builtin'),
        ('range', 'builtin'),
        ('sorted', 'builtin'),
        ('zip', 'builtin'),
        ('class PersLandscapeApprox', 'class PersLandscapeApprox(PersLandscape)'),
        ('PersLandscapeApprox.compute_landscape', 'def compute_landscape'),
    ],
    'approx_tools': [
        ('NotImplementedError', 'builtin'),
        ('death_vector', 'def death_vector'),
        ('int', 'builtin'),
        ('list', 'builtin'),
        ('sorted', 'builtin'),
    ],
    'bottleneck': [
        ('HopcroftKarp', 'from hopcroftkarp import HopcroftKarp'),
        ('bisect_left', 'from bisect import bisect_left'),
        ('bottleneck', 'def bottleneck'),
        ('float', 'builtin'),
        ('int', 'builtin'),
        ('len', 'builtin'),
        ('min', 'builtin'),
        ('np', 'import numpy as np'),
        ('range', 'builtin'),
        ('warnings', 'import warnings'),
    ],
    'entropy': [
        ('Exception', 'builtin'),
        ('all', 'builtin'),
        ('float', 'builtin'),
        ('isinstance', 'builtin'),
        ('len', 'builtin'),
        ('list', 'builtin'),
        ('np', 'import numpy as np'),
        ('persistent_entropy', 'def persistent_entropy'),
    ],
    'graph': [
        ('StopIteration', 'builtin'),
        ('ValueError', 'builtin'),
        ('cast_distance_matrix_to_optimal_int_type', 'def cast_distance_matrix_to_optimal_int_type'),
        ('connected_components', 'from scipy.sparse.csgraph import connected_components'),
        ('determine_optimal_int_type', 'def determine_optimal_int_type'),
        ('make_distance_matrix_from_adjacency_matrix', 'def make_distance_matrix_from_adjacency_matrix'),
        ('next', 'builtin'),
        ('np', 'import numpy as np'),
        ('shortest_path', 'from scipy.sparse.csgraph import shortest_path'),
        ('sps', 'import scipy.sparse as sps'),
        ('warnings', 'import warnings'),
    ],
    'heat': [
        ('evalHeatKernel', 'def evalHeatKernel'),
        ('float', 'builtin'),
        ('heat', 'def heat'),
        ('np', 'import numpy as np'),
        ('range', 'builtin'),
    ],
    'imager': [
        ('TransformerMixin', 'from sklearn.base import TransformerMixin'),
        ('images_kernels', 'from persim import images_kernels'),
        ('images_weights', 'from persim import images_weights'),
        ('int', 'builtin'),
        ('np', 'import numpy as np'),
        ('class PersistenceImager', 'class PersistenceImager(TransformerMixin)'),
        ('PersistenceImager.__init__', 'def __init__'),
        ('PersistenceImager._create_mesh', 'def _create_mesh'),
        ('PersistenceImager._ensure_callable', 'def _ensure_callable'),
        ('PersistenceImager._ensure_iterable', 'def _ensure_iterable'),
        ('PersistenceImager._n_pixels', 'def _n_pixels'),
        ('PersistenceImager._validate_parameters', 'def _validate_parameters'),
        ('PersistenceImager.birth_range', '@property def birth_range'),
        ('PersistenceImager.birth_range', '@birth_range.setter def birth_range'),
        ('PersistenceImager.fit', 'def fit'),
        ('PersistenceImager.pers_range', '@property def pers_range'),
        ('PersistenceImager.pers_range', '@pers_range.setter def pers_range'),
        ('PersistenceImager.pixel_size', '@property def pixel_size'),
        ('PersistenceImager.pixel_size', '@pixel_size.setter def pixel_size'),
    ],
    'kernels': [
        ('bvn_cdf', 'def bvn_cdf'),
        ('erfc', 'from scipy.special import erfc'),
        ('gaussian', 'def gaussian'),
        ('norm_cdf', 'def norm_cdf'),
        ('np', 'import numpy as np'),
        ('sbvn_cdf', 'def sbvn_cdf'),
        ('uniform', 'def uniform'),
    ],
    'landscaper': [
        ('BaseEstimator', 'from sklearn.base import BaseEstimator'),
        ('TransformerMixin', 'from sklearn.base import TransformerMixin'),
        ('bool', 'builtin'),
        ('float', 'builtin'),
        ('int', 'builtin'),
        ('itemgetter', 'from operator import itemgetter'),
        ('max', 'builtin'),
        ('min', 'builtin'),
        ('np', 'import numpy as np'),
        ('super', 'builtin'),
        ('class PersistenceLandscaper', 'class PersistenceLandscaper(BaseEstimator, TransformerMixin)'),
        ('PersistenceLandscaper.__init__', 'def __init__'),
        ('PersistenceLandscaper.fit', 'def fit'),
        ('PersistenceLandscaper.get_params', 'def get_params'),
        ('PersistenceLandscaper.start', '@property def start'),
        ('PersistenceLandscaper.start', '@start.setter def start'),
        ('PersistenceLandscaper.stop', '@property def stop'),
        ('PersistenceLandscaper.stop', '@stop.setter def stop'),
    ],
    'plarith': [
        ('len', 'builtin'),
        ('list', 'builtin'),
        ('np', 'import numpy as np'),
        ('pos_to_slope_interp', 'def pos_to_slope_interp'),
        ('slope_to_pos_interp', 'def slope_to_pos_interp'),
        ('sum_slopes', 'def sum_slopes'),
        ('union_vals', 'def union_vals'),
        ('zip', 'builtin'),
    ],
    'plarith_exact': [
        ('PersLandscape', 'from .base import PersLandscape'),
        ('ValueError', 'builtin'),
        ('bool', 'builtin'),
        ('float', 'builtin'),
        ('int', 'builtin'),
        ('len', 'builtin'),
        ('list', 'builtin'),
        ('np', 'import numpy as np'),
        ('super', 'builtin'),
        ('class PersLandscapeExact', 'class PersLandscapeExact(PersLandscape)'),
        ('PersLandscapeExact.__init__', 'def __init__'),
        ('PersLandscapeExact.compute_landscape', 'def compute_landscape'),
    ],
    'pnorm': [
        ('_p_norm', 'def _p_norm'),
        ('float', 'builtin'),
        ('list', 'builtin'),
        ('np', 'import numpy as np'),
        ('sorted', 'builtin'),
        ('zip', 'builtin'),
    ],
    'sliced': [
        ('ValueError', 'builtin'),
        ('cityblock', 'from scipy.spatial.distance import cityblock'),
        ('len', 'builtin'),
        ('np', 'import numpy as np'),
        ('range', 'builtin'),
        ('sliced_wasserstein', 'def sliced_wasserstein'),
        ('sorted', 'builtin'),
    ],
    'wasserstein': [
        ('float', 'builtin'),
        ('len', 'builtin'),
        ('min', 'builtin'),
        ('np', 'import numpy as np'),
        ('optimize', 'from scipy import optimize'),
        ('warnings', 'import warnings'),
        ('wasserstein', 'def wasserstein'),
        ('zip', 'builtin'),
    ],
    'weights': [
        ('len', 'builtin'),
        ('linear_ramp', 'def linear_ramp'),
        ('np', 'import numpy as np'),
        ('persistence', 'def persistence'),
        ('range', 'builtin'),
    ],
}
SIGNATURES = {
    ('approx', 'PersLandscapeApprox.compute_landscape'): 'def compute_landscape(self, verbose: bool=False) -> list',
    ('approx', 'death_vector'): 'def death_vector(dgms: list, hom_deg: int=0)',
    ('bottleneck', 'bottleneck'): 'def bottleneck(dgm1, dgm2, matching=False)',
    ('entropy', 'persistent_entropy'): 'def persistent_entropy(dgms, keep_inf=False, val_inf=None, normalize=False)',
    ('graph', 'determine_optimal_int_type'): 'def determine_optimal_int_type(value)',
    ('graph', 'make_distance_matrix_from_adjacency_matrix'): 'def make_distance_matrix_from_adjacency_matrix(AG)',
    ('heat', 'evalHeatKernel'): 'def evalHeatKernel(dgm1, dgm2, sigma)',
    ('heat', 'heat'): 'def heat(dgm1, dgm2, sigma=0.4)',
    ('imager', 'PersistenceImager._n_pixels'): 'def _n_pixels(self, extent)',
    ('imager', 'PersistenceImager._create_mesh'): 'def _create_mesh(self)',
    ('imager', 'PersistenceImager.pixel_size.setter'): '@pixel_size.setter\ndef pixel_size(self, val)',
    ('imager', 'PersistenceImager.birth_range.setter'): '@birth_range.setter\ndef birth_range(self, val)',
    ('imager', 'PersistenceImager.pers_range.setter'): '@pers_range.setter\ndef pers_range(self, val)',
    ('imager', 'PersistenceImager.__init__'): 'def __init__(self, birth_range=None, pers_range=None, pixel_size=None, weight=None, weight_params=None, kernel=None, kernel_params=None)',
    ('imager', 'PersistenceImager.fit'): 'def fit(self, pers_dgms, skew=True)',
    ('kernels', 'uniform'): 'def uniform(x, y, mu=None, width=1, height=1)',
    ('kernels', 'norm_cdf'): 'def norm_cdf(x)',
    ('kernels', 'sbvn_cdf'): 'def sbvn_cdf(x, y, mu_x=0.0, mu_y=0.0, sigma_x=1.0, sigma_y=1.0)',
    ('kernels', 'gaussian'): 'def gaussian(birth, pers, mu=None, sigma=None)',
    ('landscaper', 'PersistenceLandscaper.start.setter'): '@start.setter\ndef start(self, value)',
    ('landscaper', 'PersistenceLandscaper.stop.setter'): '@stop.setter\ndef stop(self, value)',
    ('landscaper', 'PersistenceLandscaper.__init__'): 'def __init__(self, hom_deg: int=0, start: float=None, stop: float=None, num_steps: int=500, flatten: bool=False)',
    ('landscaper', 'PersistenceLandscaper.get_params'): 'def get_params(self, deep=True)',
    ('landscaper', 'PersistenceLandscaper.fit'): 'def fit(self, X: np.ndarray, y=None)',
    ('plarith', 'pos_to_slope_interp'): 'def pos_to_slope_interp(l: list) -> list',
    ('plarith', 'slope_to_pos_interp'): 'def slope_to_pos_interp(l: list) -> list',
    ('plarith', 'sum_slopes'): 'def sum_slopes(a: list, b: list) -> list',
    ('plarith', 'union_vals'): 'def union_vals(A, B)',
    ('plarith', 'PersLandscapeExact.__init__'): 'def __init__(self, dgms: list=[], hom_deg: int=0, critical_pairs: list=[], compute: bool=True) -> None',
    ('pnorm', '_p_norm'): 'def _p_norm(p: float, critical_pairs: list=[])',
    ('sliced', 'sliced_wasserstein'): 'def sliced_wasserstein(PD1, PD2, M=50)',
    ('wasserstein', 'wasserstein'): 'def wasserstein(dgm1, dgm2, matching=False)',
    ('weights', 'persistence'): 'def persistence(birth, pers, n=1.0)',
    ('weights', 'linear_ramp'): 'def linear_ramp(birth, pers, low=0.0, high=1.0, start=0.0, end=1.0)',
}


def trusted_note(key):
    """the entry a harness module adds to its TRUSTED list"""
    if key in SWEEP_KEYS:
        return py2lean_sweep.trusted_note(key)
    if key in MATCHING_KEYS:                     # the matching engine (py2lean_matching.py)
        return py2lean_matching.trusted_note(key)
    if key in IMAGE_KEYS:                        # the image engine (py2lean_image.py)
        return py2lean_image.trusted_note(key)
    if key in LANDSCAPE_KEYS:                    # the landscape engine (py2lean_landscape.py)
        return py2lean_landscape.trusted_note(key)
    if key in STMT_KEYS:
        return ("harness/translator/py2lean.py + py2lean_stmt.py (statement-level ast translation of the anchored code of %s into "
                "Generated/%s, proved equal to the hand-written model on every run; its TARGETS table -- binders, the attribute -> "
                "field map, which callee is which definition / model helper, the obligation statements and proof scripts, the reviewed "
                "texts of signatures / skeletons / module- and class-level bindings -- and its stated conventions -- SSA, `self` as a state "
                "record, raising builtins as guards, loops as recursions, names resolved by spelling with their bindings pinned as text -- "
                "and Lemmas/SrcLib.lean are trusted)" % (FILES[key][0], FILES[key][1]))
    return ("harness/translator/py2lean.py (ast translation of the anchored arithmetic of %s into Generated/%s, proved equal to "
            "the hand-written model by rfl on every run; its TARGETS table -- binders, which callee is which parameter, the obligation "
            "statements, the reviewed texts of signatures / skeletons / module-level bindings -- and its stated conventions -- elementwise "
            "broadcasting, sqrt/exp/log/pow as named parameters, names resolved by spelling with their bindings pinned as text -- are trusted)"
            % (FILES[key][0], FILES[key][1]))


PINS_NOTE = (" What the translation does not read or normalises away is pinned as text against the translator's reviewed tables and "
             "breaks an obligation of that name when it changes: the rest of each function around a translated region "
             "(src_<f>_skeleton, src_<f>_skeleton_after), decorators / parameters / defaults (src_<function>_signature), "
             "conversions such as np.array(x, dtype=float) that are the identity of the model (src_<f>_conversions), skipped "
             "`if p is None` defaults (src_<f>_none_defaults), and every module-level binding of every name those functions use, "
             "with the class-level bindings of the self.<attr> they use (src_<file>_bindings). Not tied by the translator: "
             "functions without a target, the callers, dynamic rebinding (globals(), setattr, monkeypatching from another "
             "module), base classes and imported libraries.")


def manifest_note(key):
    """sentence appended to MANIFEST['note'] of the property that owns `key`"""
    fs = []
    if key in SWEEP_KEYS:
        return py2lean_sweep.manifest_note(key)
    if key in MATCHING_KEYS:                     # the matching engine (py2lean_matching.py)
        return py2lean_matching.manifest_note(key)
    if key in IMAGE_KEYS:                        # the image engine (py2lean_image.py)
        return py2lean_image.manifest_note(key)
    if key in LANDSCAPE_KEYS:                    # the landscape engine (py2lean_landscape.py)
        return py2lean_landscape.manifest_note(key)
    if key in STMT_KEYS:
        for cfg in py2lean_stmt.TARGETS:
            if cfg["file"] == key:
                f = cfg["func"] + (" of %s" % cfg["pyfile"] if cfg.get("pyfile") else "")
                if cfg.get("region", "function") != "function":
                    f += " (region `%s`)" % cfg["lean"]
                if f not in fs:
                    fs.append(f)
        return ("Source translator (statement level): these parts of %s are re-translated from the source text into Lean on every "
                "run (Generated/%s), statement by statement (attribute reads/writes of `self` as fields of the model's state record, "
                "raising calls as `Except`, loops as recursions), and proved EQUAL to the hand-written model definitions (rfl, case "
                "analysis, or an induction relating the generated loop to the model's recursion): %s; an edit of those lines "
                "breaks a generated obligation and triggers the failing-input search, except a rewrite inside the translator's stated "
                "value-preserving conventions or a renaming of locals.%s (trusted: the translator's stated conventions, "
                "its TARGETS table and Lemmas/SrcLib.lean)." % (FILES[key][0], FILES[key][1], ", ".join(fs), PINS_NOTE))
    for cfg in TARGETS:
        if cfg["file"] == key:
            f = cfg["func"] if cfg["region"] == "function" else "%s (%s)" % (cfg["func"], cfg["lean"])
            if f not in fs:
                fs.append(f)
    return ("Source translator: these parts of %s are re-translated from the source text into Lean on every run (Generated/%s) "
            "and proved EQUAL to the hand-written model definitions by rfl, polymorphically: %s; an edit of those lines "
            "breaks a generated obligation and triggers the failing-input search, except a rewrite inside the translator's stated "
            "value-preserving conventions or a renaming of locals.%s (trusted: the "
            "translator's stated conventions and its TARGETS table)." % (FILES[key][0], FILES[key][1], ", ".join(fs), PINS_NOTE))


def prop_file(key):
    """path of the generated file of `key`, relative to the lean project (for PROP_FILES)"""
    return "/".join(["PersimVerif", "Generated", FILES[key][1]])


def prop_files(key):
    """the generated file of `key` preceded by the hand-written library / bridging lemma files it imports (for PROP_FILES)"""
    if key in MATCHING_KEYS:                     # the matching engine (py2lean_matching.py)
        return list(py2lean_matching.BRIDGES[key]) + [prop_file(key)]
    if key in IMAGE_KEYS:                        # the image engine (py2lean_image.py)
        return list(py2lean_image.BRIDGES.get(key, [])) + [prop_file(key)]
    if key in LANDSCAPE_KEYS:                    # the landscape engine (py2lean_landscape.py): with the generated files it imports
        out = []
        for k in py2lean_landscape.IMPORTED_KEYS.get(key, []):
            out += [f for f in prop_files(k) if f not in out]
        return out + [f for f in py2lean_landscape.BRIDGES.get(key, []) if f not in out] + [prop_file(key)]
    return list(py2lean_stmt.BRIDGES.get(key, py2lean_sweep.BRIDGES.get(key, []))) + [prop_file(key)]


# ----------------------------------------------------------------------------- regions

def strip_doc(body):
    body = list(body)
    if body and isinstance(body[0], ast.Expr) and isinstance(body[0].value, ast.Constant) and isinstance(body[0].value.value, str):
        body = body[1:]
    return body


def unparse_with_holes(stmts, holes, collapse=False):
    """ast.unparse of a statement list in which the statements in `holes` (ids) are replaced by `...`
    (`collapse`: consecutive holes become one)"""
    class R(ast.NodeTransformer):
        def generic_visit(self, node):
            for field in ("body", "orelse", "finalbody"):
                seq = getattr(node, field, None)
                if isinstance(seq, list):
                    new = []
                    for st in seq:
                        if id(st) in holes:
                            if not (collapse and new and isinstance(new[-1], ast.Expr) and getattr(new[-1], "_is_hole", False)):
                                h = ast.Expr(ast.Constant(Ellipsis))
                                h._is_hole = True
                                new.append(h)
                        elif isinstance(st, ast.stmt):
                            new.append(self.visit(st))
                        else:
                            new.append(st)
                    setattr(node, field, new)
            if isinstance(node, ast.Try):
                node.handlers = [self.visit(h) for h in node.handlers]
            return node
    import copy
    mod = ast.Module(body=list(stmts), type_ignores=[])
    # deep copy loses identity: mark the holes first
    for st in ast.walk(mod):
        if id(st) in holes:
            st._hole = True
    mod2 = copy.deepcopy(mod)
    holes2 = {id(n) for n in ast.walk(mod2) if getattr(n, "_hole", False)}
    for st in ast.walk(mod):
        if hasattr(st, "_hole"):
            del st._hole
    holes = holes2
    out = R().visit(mod2)
    return ast.unparse(ast.fix_missing_locations(out))


# ----------------------------------------------------------------------------- pins: what the translation does not read
#
# The engines resolve names BY SPELLING (`np.sqrt` is the parameter `sqrt` whatever `np` is bound to), skip decorators, and
# normalise some expressions (`np.array(x, dtype=float)` -> `x`, `if p is None: p = <default>` -> nothing).  What they
# normalise away or never read is recorded as TEXT next to the definitions, each with an obligation that compares it with
# the reviewed text of this file's tables:
#   srcSignature_<function> / src_<function>_signature   decorators + `def f(params=defaults) -> annotation`
#   srcBindings_<file>      / src_<file>_bindings         every module-level binding of every name that a translated
#                                                         function uses and does not bind itself (imports, defs, classes,
#                                                         assignments, `global` declarations, star imports), and the
#                                                         class-level bindings of the `self.<attr>` it uses
#   srcConversions_<f>      / src_<f>_conversions         the array conversions the translation reads as the identity
#   srcNoneDefaults_<f>     / src_<f>_none_defaults       the `if p is None: p = <default>` guards it skips

def one_line(node, limit=160):
    """`ast.unparse` on one line; a text longer than `limit` is cut and closed with a digest of the WHOLE text, so two different
    long texts never give the same pin"""
    t = " ".join(ast.unparse(node).split())
    if len(t) <= limit:
        return t
    import hashlib
    return t[:limit - 20] + "...#" + hashlib.sha256(t.encode("utf-8")).hexdigest()[:16]


def signature_text(fn):
    """decorators and the `def` line of a function, as `ast.unparse` prints them (defaults and annotations included)"""
    stub = ast.FunctionDef(name=fn.name, args=fn.args, body=[ast.Expr(ast.Constant(Ellipsis))], decorator_list=fn.decorator_list,
                           returns=fn.returns, type_comment=None, lineno=0, col_offset=0)
    if hasattr(fn, "type_params"):
        stub.type_params = getattr(fn, "type_params")
    lines = ast.unparse(ast.fix_missing_locations(stub)).split("\n")
    if lines[-1].strip() != "...":
        raise Shape("internal: signature of %s" % fn.name)
    return "\n".join(lines[:-1]).rstrip(":")


SCOPES = (ast.FunctionDef, ast.AsyncFunctionDef, ast.ClassDef, ast.Lambda)


def _target_names(t):
    if isinstance(t, ast.Name):
        return [t.id]
    if isinstance(t, (ast.Attribute, ast.Subscript)):      # `np.sqrt = f`, `table[k] = v`: the object the name stands for is changed
        while isinstance(t, (ast.Attribute, ast.Subscript)):
            t = t.value
        return [t.id] if isinstance(t, ast.Name) else []
    if isinstance(t, (ast.Tuple, ast.List)):
        return [n for e in t.elts for n in _target_names(e)]
    if isinstance(t, ast.Starred):
        return _target_names(t.value)
    return []


def scope_bindings(stmts):
    """[(name, text)] for every binding that the statements of ONE scope (a module or a class body) make, in source order;
    compound statements are entered, nested function / class bodies are not"""
    out = []

    def deco(s):
        return "".join("@%s " % one_line(d) for d in s.decorator_list)

    def walrus(node):
        todo = [node]
        while todo:
            n = todo.pop()
            if isinstance(n, SCOPES):
                continue
            if isinstance(n, ast.NamedExpr) and isinstance(n.target, ast.Name):
                out.append((n.target.id, "walrus: " + one_line(n)))
            todo.extend(ast.iter_child_nodes(n))

    def visit(seq):
        for s in seq:
            if isinstance(s, ast.Import):
                for a in s.names:
                    out.append((a.asname or a.name.split(".")[0], "import %s%s" % (a.name, " as " + a.asname if a.asname else "")))
            elif isinstance(s, ast.ImportFrom):
                mod = "." * s.level + (s.module or "")
                for a in s.names:
                    out.append(("*" if a.name == "*" else (a.asname or a.name),
                                "from %s import %s%s" % (mod, a.name, " as " + a.asname if a.asname else "")))
            elif isinstance(s, (ast.FunctionDef, ast.AsyncFunctionDef)):
                out.append((s.name, "%sdef %s" % (deco(s), s.name)))
            elif isinstance(s, ast.ClassDef):
                out.append((s.name, "%sclass %s(%s)" % (deco(s), s.name, ", ".join(one_line(b) for b in list(s.bases) + list(s.keywords)))))
            elif isinstance(s, ast.Assign):
                for t in s.targets:
                    for n in _target_names(t):
                        out.append((n, "assign: " + one_line(s)))
                walrus(s.value)
            elif isinstance(s, (ast.AugAssign, ast.AnnAssign)):
                if not (isinstance(s, ast.AnnAssign) and s.value is None):
                    for n in _target_names(s.target):
                        out.append((n, "assign: " + one_line(s)))
            elif isinstance(s, ast.Delete):
                for t in s.targets:
                    for n in _target_names(t):
                        out.append((n, "del"))
            elif isinstance(s, (ast.For, ast.AsyncFor)):
                for n in _target_names(s.target):
                    out.append((n, "loop variable: for %s in %s" % (one_line(s.target), one_line(s.iter))))
                visit(s.body)
                visit(s.orelse)
            elif isinstance(s, (ast.While, ast.If)):
                walrus(s.test)
                visit(s.body)
                visit(s.orelse)
            elif isinstance(s, (ast.With, ast.AsyncWith)):
                for it in s.items:
                    if it.optional_vars is not None:
                        for n in _target_names(it.optional_vars):
                            out.append((n, "with … as: " + one_line(it.context_expr)))
                visit(s.body)
            elif isinstance(s, ast.Try) or type(s).__name__ == "TryStar":
                visit(s.body)
                for h in s.handlers:
                    if h.name:
                        out.append((h.name, "except … as"))
                    visit(h.body)
                visit(s.orelse)
                visit(s.finalbody)
            elif type(s).__name__ == "Match":
                for c in s.cases:
                    for n in ast.walk(c.pattern):
                        nm = getattr(n, "name", None)
                        if isinstance(nm, str):
                            out.append((nm, "match pattern"))
                    visit(c.body)
            elif isinstance(s, ast.Expr):
                walrus(s.value)
    visit(stmts)
    return out


def global_declarations(tree):
    """[(name, text)] for `global x` declarations inside functions AND class bodies (a scope that may rebind the module-level
    name; a class body with `global x` rebinds it when the module is imported) -- plus, for a class body, what it then binds"""
    out = []

    def walk(node, scope):
        for n in ast.iter_child_nodes(node):
            if isinstance(n, ast.Global) and scope is not None:
                for nm in n.names:
                    out.append((nm, "global %s in %s" % (nm, scope)))
            if isinstance(n, (ast.FunctionDef, ast.AsyncFunctionDef)):
                walk(n, "def %s" % n.name)
            elif isinstance(n, ast.ClassDef):
                gl = {nm for g in ast.walk(n) if isinstance(g, ast.Global) for nm in g.names}
                walk(n, "class %s" % n.name)
                if gl:                                   # the class body runs at import time: its bindings of those names count
                    for nm, t in scope_bindings(n.body):
                        if nm in gl:
                            out.append((nm, "in class %s: %s" % (n.name, t)))
            else:
                walk(n, scope)
    walk(tree, None)
    return out


def import_aliases(tree):
    """{name: top-level package} for the names the module's own scope binds by `import` / `from … import`"""
    out = {}

    def visit(seq):
        for s in seq:
            if isinstance(s, ast.Import):
                for a in s.names:
                    out.setdefault(a.asname or a.name.split(".")[0], set()).add(a.name.split(".")[0])
            elif isinstance(s, ast.ImportFrom):
                for a in s.names:
                    if a.name != "*":
                        out.setdefault(a.asname or a.name, set()).add((s.module or ".").split(".")[0] if not s.level else "." * s.level + (s.module or "").split(".")[0])
            elif isinstance(s, (ast.If, ast.For, ast.While, ast.With, ast.Try)):
                for f in ("body", "orelse", "finalbody"):
                    visit(getattr(s, f, []) or [])
                for h in getattr(s, "handlers", []) or []:
                    visit(h.body)
    visit(tree.body)
    return out


def mutated_roots(tree):
    """[(root name, text)] for the statements of the module's own scope that assign to / delete an ATTRIBUTE or an ITEM of a name
    (`_n.exp = _n.expm1`, `del np.sqrt`, `table[k] = v`): they change the object the name stands for"""
    out = []

    def root(t):
        if isinstance(t, (ast.Attribute, ast.Subscript)):
            while isinstance(t, (ast.Attribute, ast.Subscript)):
                t = t.value
            return t.id if isinstance(t, ast.Name) else None
        return None

    def targets(t):
        if isinstance(t, (ast.Tuple, ast.List)):
            return [x for e in t.elts for x in targets(e)]
        if isinstance(t, ast.Starred):
            return targets(t.value)
        return [t]

    def visit(seq):
        for s in seq:
            ts = []
            if isinstance(s, ast.Assign):
                ts = [x for t in s.targets for x in targets(t)]
            elif isinstance(s, (ast.AugAssign, ast.AnnAssign)):
                ts = targets(s.target)
            elif isinstance(s, ast.Delete):
                ts = [x for t in s.targets for x in targets(t)]
            elif isinstance(s, (ast.For, ast.AsyncFor)):
                ts = targets(s.target)
            for t in ts:
                r = root(t)
                if r is not None:
                    out.append((r, ("del: " if isinstance(s, ast.Delete) else "assign: ") + one_line(s)))
            if isinstance(s, (ast.If, ast.For, ast.AsyncFor, ast.While, ast.With, ast.AsyncWith, ast.Try)) or type(s).__name__ == "TryStar":
                for f in ("body", "orelse", "finalbody"):
                    visit(getattr(s, f, []) or [])
                for h in getattr(s, "handlers", []) or []:
                    visit(h.body)
    visit(tree.body)
    return out


def external_names(fn):
    """names a function reads (anywhere inside it: defaults, decorators, nested lambdas and comprehensions included) and does
    not bind itself -- they are looked up in the module, then in `builtins`"""
    bound = {a.arg for a in ast.walk(fn) if isinstance(a, ast.arg)}
    loaded = []
    for n in ast.walk(fn):
        if isinstance(n, ast.Name):
            if isinstance(n.ctx, ast.Load):
                loaded.append(n.id)
            else:
                bound.add(n.id)
        elif isinstance(n, (ast.FunctionDef, ast.AsyncFunctionDef, ast.ClassDef)) and n is not fn:
            bound.add(n.name)
        elif isinstance(n, ast.ExceptHandler) and n.name:
            bound.add(n.name)
        elif isinstance(n, (ast.Import, ast.ImportFrom)):
            for a in n.names:
                bound.add(a.asname or a.name.split(".")[0])
        elif isinstance(n, (ast.Global, ast.Nonlocal)):
            for nm in n.names:
                loaded.append(nm)
    glob = {nm for n in ast.walk(fn) if isinstance(n, ast.Global) for nm in n.names}
    out = []
    for nm in loaded:
        if (nm not in bound or nm in glob) and nm not in out:
            out.append(nm)
    return out


def self_attributes(fn):
    """attribute names used as `self.<attr>` in a method"""
    out = []
    for n in ast.walk(fn):
        if isinstance(n, ast.Attribute) and isinstance(n.value, ast.Name) and n.value.id == "self" and n.attr not in out:
            out.append(n.attr)
    return out


ATTRIBUTE_HOOKS = ("__getattr__", "__getattribute__", "__setattr__", "__delattr__", "__slots__", "__new__", "__init_subclass__",
                   "__class_getitem__", "__set_name__")


def file_bindings(tree, functions):
    """the binding record of one Python file.  `functions`: [(qualified name 'f' | 'Class.m', FunctionDef, ClassDef | None)] of
    the translated functions.  -> [(name, text)], sorted by name; a name with several bindings has several entries, in source
    order; a name that the module does not bind is `builtin` or `unbound`."""
    import builtins
    mod = scope_bindings(tree.body)
    globs = global_declarations(tree)
    stars = [t for n, t in mod if n == "*"]
    names, classes = [], []
    for q, fn, cls in functions:
        ext = external_names(fn)
        if cls is not None:
            # decorators, defaults and annotations of a method are evaluated in the CLASS body: a name bound there (`@p.setter`)
            # is recorded below as `Class.p`; the method's body does not see the class scope
            cb = {n for n, _ in scope_bindings(cls.body)}
            body_names = {n.id for st in fn.body for n in ast.walk(st) if isinstance(n, ast.Name)}
            ext = [nm for nm in ext if not (nm in cb and nm not in body_names)]
        for nm in ([fn.name] if cls is None else []) + ext:                   # its own name: `f = wrap(f)` after the def
            if nm not in names:
                names.append(nm)
        if cls is not None and cls not in classes:
            classes.append(cls)
    for cls in classes:                       # the class statement itself is evaluated in the module: bases, decorators
        for b in list(cls.bases) + [k.value for k in cls.keywords] + list(cls.decorator_list):
            for n in ast.walk(b):
                if isinstance(n, ast.Name) and n.id not in names:
                    names.append(n.id)
    # a library patched through ANOTHER spelling of the same package (`import numpy as _n; _n.exp = _n.expm1`): a name that the
    # module imports from a package one of the tracked names comes from, and whose attributes / items a module-level statement
    # assigns or deletes, is tracked as well (with that import and that statement)
    imps = import_aliases(tree)
    tracked_pkgs = set()
    for nm in names:
        tracked_pkgs |= imps.get(nm, set())
    for r, _ in mutated_roots(tree):
        if r not in names and imps.get(r, set()) & tracked_pkgs:
            names.append(r)
    out = []
    for nm in sorted(names):
        texts = [t for n, t in mod if n == nm] + stars + [t for n, t in globs if n == nm]
        if not texts:
            texts = ["builtin" if hasattr(builtins, nm) else "unbound"]
        out += [(nm, t) for t in texts]
    for cls in classes:
        out.append(("class " + cls.name, [t for n, t in mod if n == cls.name][-1] if any(n == cls.name for n, _ in mod) else "unbound"))
        cb = scope_bindings(cls.body)
        attrs = list(ATTRIBUTE_HOOKS)             # what would change the meaning of every `self.a` / `self.a = e`, if present
        for q, fn, c in functions:
            if c is cls:
                for a in [fn.name] + self_attributes(fn):
                    if a not in attrs:
                        attrs.append(a)
        for a in sorted(attrs):
            for n, t in cb:
                if n == a:
                    out.append(("%s.%s" % (cls.name, a), t))
    return out


TEXT_PINNED_ELSEWHERE = {"persim/images_kernels.py": {"bvn_cdf": "statement text pinned by consts.py (KernelConsts.structure_bvn_cdf)",
                                                       "gauss_legendre_quad": "tables and statement text pinned by consts.py"}}


def not_translated(path, tree, funcs):
    """qualified names of the functions and methods of a Python file that have NO target (`funcs`: the qualified names that
    have one); getters `return self._a` of properties are read by the statement engine (`cls_props`) and are not listed"""
    have = {f.replace(".setter", "").replace(".getter", "") for f in funcs}
    out = []
    for n in tree.body:
        if isinstance(n, (ast.FunctionDef, ast.AsyncFunctionDef)):
            if n.name not in have:
                note = TEXT_PINNED_ELSEWHERE.get(path, {}).get(n.name)
                out.append(n.name + (" [%s]" % note if note else ""))
        elif isinstance(n, ast.ClassDef):
            ms = [m for m in n.body if isinstance(m, (ast.FunctionDef, ast.AsyncFunctionDef))]
            if not any(f.startswith(n.name + ".") for f in funcs):
                out.append("class %s (all %d methods)" % (n.name, len(ms)))
                continue
            seen = []
            for m in ms:
                q = "%s.%s" % (n.name, m.name)
                setter = any(isinstance(d, ast.Attribute) and d.attr == "setter" for d in m.decorator_list)
                getter = any(isinstance(d, ast.Name) and d.id == "property" for d in m.decorator_list)
                if (q + ".setter" if setter else q) in funcs or q in seen:
                    continue
                body = strip_doc(m.body)
                if getter and len(body) == 1 and isinstance(body[0], ast.Return) and isinstance(body[0].value, ast.Attribute) \
                        and q + ".setter" in funcs:
                    continue
                seen.append(q)
                out.append(q + (" (setter)" if setter else " (getter)" if getter else ""))
    return out


def all_target_functions(path):
    """qualified names of the functions of the Python file `path` that have a target in either engine"""
    return ([c["func"] for c in TARGETS if FILES[c["file"]][0] == path]
            + [c["func"] for c in py2lean_stmt.TARGETS if c.get("pyfile", FILES[c["file"]][0]) == path]
            + [c["func"] for c in py2lean_sweep.TARGETS if FILES[c["file"]][0] == path]
            + [c["func"] for c in py2lean_matching.TARGETS if FILES[c["file"]][0] == path]
            + [c["func"] for c in py2lean_image.TARGETS + [py2lean_image.PIN_TARGET] if FILES[c["file"]][0] == path]
            + py2lean_landscape.target_functions(path))                       # the landscape engine (py2lean_landscape.py)


def not_translated_comment(items):
    """Lean comment listing, per Python file, what the translators do not tie (regenerated from the source: informative only)"""
    o = ["/-! ### not tied by this file",
         "Functions and methods of the translated Python files that have NO target here (neither translated nor pinned as text; their",
         "models, where they have one, are tied to the code by the correspondence streams only):"]
    for path, names in items:
        o.append("  * %s: %s" % (path, ", ".join(names).replace("-/", "- /") if names else "(none: every function of the file has a target)"))
    o.append("Also not tied: callers (`persim/__init__.py`), rebinding that is not a statement of the module's own scope (`globals()`,")
    o.append("`setattr`, another module patching this one), base classes, the libraries behind the imported names.")
    o.append("-/\n")
    return "\n".join(o)


def render_bindings(key, entries, expected):
    """Lean text of the binding record of the file `key` and its obligation"""
    def lst(es, ind):
        return "[" + (",\n" + ind).join("(%s, %s)" % (lean_str(n), lean_str(t)) for n, t in es) + "]"
    return ("/-! ### module-level (and class-level) bindings of the names the translated functions use -/\n\n"
            "/-- every binding, in the module, of every name that a translated function of this file reads and does not bind itself\n"
            "    (the translation resolves names by spelling: this is what the spelling stands for); `Class.attr`: the bindings in\n"
            "    the class body of the `self.attr` the translated methods use -/\n"
            "def srcBindings_%s : List (String × String) :=\n  %s\n"
            "theorem src_%s_bindings : srcBindings_%s =\n  %s := rfl\n" % (key, lst(entries, "   "), key, key, lst(expected, "   ")))


def sanitize(func):
    """Lean identifier part for a Python qualified name: `PersistenceImager.__init__` -> `PersistenceImager_init`"""
    return re.sub(r"_+", "_", re.sub(r"\W", "_", func)).strip("_")


def render_signature(func, text, expected):
    s = sanitize(func)
    return ("/-- decorators and `def` line of `%s` (defaults and annotations as `ast.unparse` prints them) -/\n"
            "def srcSignature_%s : String :=\n  %s\n"
            "theorem src_%s_signature : srcSignature_%s =\n  %s := rfl\n" % (func, s, lean_str(text), s, s, lean_str(expected)))


def numeric_leaves(node, src):
    """the numeric literals of a (nested) list / tuple / `np.array(...)` expression, row-major, or None"""
    if isinstance(node, ast.Call) and node.args and isinstance(node.args[0], (ast.List, ast.Tuple)):
        node = node.args[0]
    if isinstance(node, (ast.List, ast.Tuple)):
        out = []
        for e in node.elts:
            sub = numeric_leaves(e, src)
            if sub is None:
                return None
            out += sub
        return out
    neg = False
    while isinstance(node, ast.UnaryOp) and isinstance(node.op, (ast.USub, ast.UAdd)):
        neg = neg != isinstance(node.op, ast.USub)
        node = node.operand
    if isinstance(node, ast.Constant) and isinstance(node.value, (int, float)) and not isinstance(node.value, bool):
        q = Fraction((ast.get_source_segment(src, node) or repr(node.value)).replace("_", ""))
        return [-q if neg else q]
    return None


def stmt_key(st):
    """selector of a statement: the assigned name, or `name+=` for an augmented assignment"""
    if isinstance(st, ast.Assign) and len(st.targets) == 1 and isinstance(st.targets[0], ast.Name):
        return st.targets[0].id
    if isinstance(st, ast.AugAssign) and isinstance(st.target, ast.Name):
        return st.target.id + "+="
    return None


def find_region(cfg, fn):
    """-> (statements to translate, extra setup dict, skeleton text or None)"""
    body = strip_doc(fn.body)
    region = cfg["region"]
    if region == "function":
        return body, {}, None
    if region == "elementwise_loop":
        loops = [s for s in body if isinstance(s, ast.For)]
        if len(loops) != 1:
            raise Shape("expected exactly one loop in %s" % fn.name)
        lp = loops[0]
        if not (isinstance(lp.target, ast.Name) and not lp.orelse):
            raise Shape("loop header of %s" % fn.name)
        return list(lp.body), {"elemwise_index": lp.target.id}, unparse_with_holes(body, {id(s) for s in lp.body}, collapse=True)
    if region == "segment_loop":
        inner = [n for n in ast.walk(fn) if isinstance(n, ast.For) and isinstance(n.target, (ast.List, ast.Tuple))]
        if len(inner) != 1:
            raise Shape("expected exactly one loop over segments in %s" % fn.name)
        lp = inner[0]
        names = []
        for pt in lp.target.elts:
            if not isinstance(pt, (ast.List, ast.Tuple)) or len(pt.elts) != 2 or not all(isinstance(e, ast.Name) for e in pt.elts):
                raise Shape("segment pattern of %s" % fn.name)
            names += [e.id for e in pt.elts]
        want = [p for p, _ in cfg["params"]][-4:]
        if len(lp.target.elts) != 2 or names != want:
            raise Shape("segment pattern of %s is %s, expected %s" % (fn.name, names, want))
        return list(lp.body), {}, unparse_with_holes(body, {id(s) for s in lp.body}, collapse=True)
    if region == "entropy_loop":
        loops = [s for s in body if isinstance(s, ast.For) and isinstance(s.target, ast.Name) and s.target.id == "dgm"]
        if len(loops) != 1 or not (isinstance(loops[0].iter, ast.Name) and loops[0].iter.id == "dgms") or loops[0].orelse:
            raise Shape("expected exactly one loop `for dgm in dgms` in %s" % fn.name)
        lp = loops[0]
        return list(lp.body), {}, unparse_with_holes(body, {id(s) for s in lp.body}, collapse=True)
    if region == "select":
        allst = [n for n in ast.walk(fn) if isinstance(n, ast.stmt)]
        allst.sort(key=lambda n: (n.lineno, n.col_offset))
        picked = []
        for key in cfg["select"]:
            hit = [s for s in allst if stmt_key(s) == key]
            if len(hit) != 1:
                raise Shape("expected exactly one statement %r in %s, found %d" % (key, fn.name, len(hit)))
            picked.append(hit[0])
        if [s.lineno for s in picked] != sorted(s.lineno for s in picked):
            raise Shape("statements %s of %s are not in the expected order" % (cfg["select"], fn.name))
        if cfg.get("result_name"):
            picked.append(ast.Return(value=ast.Name(id=cfg["result_name"], ctx=ast.Load())))
        skel = None
        if cfg.get("skeleton_select"):
            holes = set()
            for key in cfg["skeleton_select"]:
                hit = [s for s in allst if stmt_key(s) == key]
                if len(hit) != 1:
                    raise Shape("expected exactly one statement %r in %s, found %d" % (key, fn.name, len(hit)))
                holes.add(id(hit[0]))
            skel = unparse_with_holes(body, holes)
        return picked, {}, skel
    raise Shape("internal: region %s" % region)


def check_signature(cfg, fn):
    """the Python parameter list must be the one the target's binders were written for"""
    a = fn.args
    if a.vararg or a.kwarg or a.kwonlyargs or a.posonlyargs:
        raise Shape("signature of %s is outside the subset" % fn.name)
    names = [x.arg for x in a.args]
    if cfg["region"] == "function":
        want = [p for p, _ in cfg["params"]]
        if names != want:
            raise Shape("parameters of %s are %s, expected %s" % (fn.name, names, want))
    return names


def read_defaults(src, fn, wanted):
    """[(name, Fraction)] for the numeric keyword defaults named in `wanted` (as written in the source)"""
    a = fn.args
    names = [x.arg for x in a.args]
    dfl = dict(zip(names[len(names) - len(a.defaults):], a.defaults))
    out = []
    for n in wanted:
        if n not in dfl:
            raise Shape("parameter %s of %s has no default" % (n, fn.name))
        d, neg = dfl[n], False
        while isinstance(d, ast.UnaryOp) and isinstance(d.op, ast.USub):
            neg, d = not neg, d.operand
        if not (isinstance(d, ast.Constant) and isinstance(d.value, (int, float)) and not isinstance(d.value, bool)):
            raise Shape("default of %s in %s is not a numeric literal" % (n, fn.name))
        q = Fraction((ast.get_source_segment(src, d) or repr(d.value)).replace("_", ""))
        out.append((n, -q if neg else q))
    return out


KTYPE = {"S": "α", "B": "Bool", "LP": DGM, "P": "α × α"}


def translate(src, fns, cfg):
    """-> (lean definition text, skeleton or None, defaults or None, pins); raises Shape
    pins: {"conversions": [text], "none_defaults": [(parameter, text, [Fraction] | None)]}"""
    fn = fns.get(cfg["func"])
    if fn is None:
        raise Shape("function %s not found" % cfg["func"])
    check_signature(cfg, fn)
    stmts, setup, skeleton = find_region(cfg, fn)
    tcfg = dict(cfg)
    tcfg["yield"] = cfg.get("yield_")
    tr = Tr(src, fns, tcfg)
    tr.elemwise_index = setup.get("elemwise_index")
    tr.avoid = function_identifiers(fn)
    tr.store_counts = binding_counts(fn)
    tr.top_stmts = list(stmts) if cfg["region"] == "function" else []
    if cfg["region"] in ("elementwise_loop", "segment_loop", "entropy_loop"):
        # the region is the body of a Python loop: what it stores to a name that also occurs outside it (a parameter, the
        # loop variable, anything the pinned text around it reads) reaches the next iteration and the code after the loop,
        # which the per-element definition does not model -- only the declared result (`w[i] = …`, `result += …`,
        # `ps.append(…)`) leaves the body
        outside = names_outside(fn, stmts)
        y = cfg.get("yield_")
        for nm in stored_names(stmts):
            if nm in outside and not (y is not None and y[0] == "aug" and nm == y[1]):
                raise Shape("the loop body assigns %s, which also occurs outside the translated loop body" % nm)
    binders = []
    for name, ty in cfg.get("fparams", []) + cfg.get("cparams", []):
        tr.used.add(name)
        binders.append((name, ty))
    for py, kind in cfg["params"]:
        if kind == "I":
            for key, lean in cfg["index_params"][py]:
                tr.used.add(lean)
                tr.env["%s%s" % (py, "".join("[%d]" % k for k in key))] = S(lean)
                binders.append((lean, "α"))
            continue
        lean = tr.fresh(py)
        binders.append((lean, KTYPE[kind]))
        if kind == "S":
            tr.env[py] = S(lean)
        elif kind == "B":
            tr.env[py] = Val("B", lean)
        elif kind == "P":
            tr.env[py] = Val("P", lean)
        elif kind == "LP":
            tr.env[py] = Val("V", base=lean, ek="pair", fn=lambda x: x)
    node = tr.block(list(stmts))
    check_liveness(node)
    # group consecutive binders of one type
    groups = []
    for name, ty in binders:
        if groups and groups[-1][1] == ty:
            groups[-1][0].append(name)
        else:
            groups.append(([name], ty))
    sig = " ".join("(%s : %s)" % (" ".join(ns), ty) for ns, ty in groups)
    text = "def %s %s : %s :=\n%s" % (cfg["lean"], sig, cfg.get("result", "α"), render_def(node))
    defaults = read_defaults(src, fn, [n for n, _ in cfg["defaults"]]) if cfg.get("defaults") else None
    return text, skeleton, defaults, {"conversions": [t for _, t in tr.conversions], "none_defaults": list(tr.none_defaults)}


# ----------------------------------------------------------------------------- Lean output

def rat(q):
    q = Fraction(q)
    sign, a = ("-" if q < 0 else ""), abs(q)
    if a.denominator == 1:
        return "(%s%d : Rat)" % (sign, a.numerator)
    return "(%s%d / %d : Rat)" % (sign, a.numerator, a.denominator)


AUDITED_WORDS = ("sorry", "admit", "axiom", "native_decide", "bv_decide", "implemented_by", "unsafe", "maxHeartbeats")


def lean_str(s):
    """Lean string literal; words that check.py's token audit greps for are written with an escape (`\\x73orry`), so Python
    text quoted in a skeleton can never be mistaken for a forbidden Lean token"""
    t = s.replace("\\", "\\\\").replace('"', '\\"').replace("\n", "\\n")
    for w in AUDITED_WORDS:
        t = t.replace(w, "\\x%02x%s" % (ord(w[0]), w[1:]))
    # check.py strips Lean comments crudely (strings are not recognised): never let quoted Python open or close one
    while "--" in t or "/-" in t or "-/" in t:
        t = t.replace("--", "-\\x2d").replace("/-", "/\\x2d").replace("-/", "\\x2d/")
    return '"' + t + '"'


def header(key):
    py, out, ns, model, prop = FILES[key]
    return (
        "import %s\n"
        "/-!\n"
        "GENERATED by harness/translator/py2lean.py from %s — do not edit; rewritten on every run (%s `pre_build`).\n\n"
        "Each `def` below is the Python source translated expression by expression (`ast`); each `src_…_eq_model` is the\n"
        "obligation that it EQUALS the hand-written model definition of %s, polymorphically over the\n"
        "model's own core classes (hence at `Rat`, `Float` and `ℝ`).  The proofs are `rfl`: both sides must unfold to the same\n"
        "term, so an edit of the translated lines breaks an obligation unless it is one of the value-preserving rewrites below or\n"
        "a renaming of locals (DESIGN.md 3.2/3.3).  What the translation normalises away or does not read is pinned as TEXT\n"
        "(`ast.unparse`; comments and docstrings do not count) against the reviewed text of the translator's tables:\n"
        "`srcSkeleton_<f>` (the function around a region), `srcSignature_<function>` (decorators, parameters, defaults),\n"
        "`srcConversions_<f>` (`np.array(x, dtype=float)` read as `x`), `srcNoneDefaults_<f>` (skipped `if p is None: p = …`),\n"
        "`srcBindings_<file>` (every module-level binding of every name the translated functions use: names are resolved by\n"
        "spelling, this is what the spelling stands for).  Not tied: functions without a target, dynamic rebinding, the libraries.\n\n"
        "Conventions of the translation (value-preserving; they are the translator's semantics of its Python subset):\n"
        "  * NumPy broadcasting is modelled ELEMENTWISE: an array argument stands for one of its entries (the model is per\n"
        "    point / per pair); vectors that are reduced (`np.sum`, `all`, `len`) are `List`s, elementwise intermediates are\n"
        "    fused into one `List.map`;\n"
        "  * `a > b` is written `b < a`, `a >= b` is written `b ≤ a`; `np.maximum/np.minimum` are `max/min`;\n"
        "  * `np.sqrt/np.exp/np.log/np.expm1/erfc`, `**` (as `pow`), `np.pi` and calls of other functions of the same file are\n"
        "    explicit parameters; `np.abs`, `sorted`, `cityblock` are the model's helpers named in the text; `np.array(x[, dtype=float])`\n"
        "    is `x` (and is recorded as written in `srcConversions_<f>`);\n"
        "  * float literals are written as in the source where the model has `OfScientific` (`2.0`), otherwise as the numeral\n"
        "    they denote (`1.0` ↦ `1`); `e ** 2` on a difference of points is `e * e`; unary `+e` on a number is `e`; `flag == True`\n"
        "    on a Boolean parameter is `flag` (the bare test `if flag:` is refused: it differs for a flag that is not a bool);\n"
        "  * a 2-vector (row `A[i, 0:2]`, `[e] * 2`) is a pair, `A[j, 1::-1]` swaps it, pair arithmetic is componentwise,\n"
        "    `np.sum` of a pair is `.1 + .2`, `np.dot(u, x)` is `u.1 * x.1 + u.2 * x.2`; `sorted((a, b))` is\n"
        "    `if b < a then (b, a) else (a, b)`.\n"
        "Refused (the obligations hold up to definitional unfolding, which erases an unread `let`): a store whose value nothing reads;\n"
        "a store, inside a loop body, to a name bound outside it other than the accumulator / declared result; a loop index that is\n"
        "bound anywhere else in the function (rows `A[i, 0:2]` are resolved by the spelling of `i`); a conversion `np.array(…)` that\n"
        "is not the whole right-hand side of a top-level statement.  SSA suffixes never collide with an identifier of the function.\n"
        "A source outside the subset gives `def srcShape_<f> : Bool := false`, and `srcShape_<f>_recognised` fails.\n"
        "`srcSkeleton_<f>` is the text (`ast.unparse`) of the function around the translated region, `...` marking the region;\n"
        "`srcDefaults_<f>` are the numeric keyword defaults as written.\n"
        "-/\n"
        "set_option linter.unusedVariables false\n"
        "set_option linter.unusedSectionVars false\n\n"
        "namespace %s\n" % (model, py, prop, model.replace("PersimVerif.", "PersimVerif/").replace(".", "/") + ".lean", ns))


def render_file(key, root):
    if key in STMT_KEYS:
        return py2lean_stmt.render_file(key, root)
    if key in SWEEP_KEYS:                        # the sweep engine (py2lean_sweep.py)
        return py2lean_sweep.render_file(key, root)
    if key in MATCHING_KEYS:                     # the matching engine (py2lean_matching.py)
        return py2lean_matching.render_file(key, root)
    if key in IMAGE_KEYS:                        # the image engine (py2lean_image.py)
        return py2lean_image.render_file(key, root)
    if key in LANDSCAPE_KEYS:                    # the landscape engine (py2lean_landscape.py)
        return py2lean_landscape.render_file(key, root)
    py, out, ns, model, prop = FILES[key]
    o, info = [header(key)], {"source": py, "output": "/".join([GEN.replace(os.sep, "/"), out]), "functions": {}}
    src, fns, file_err, tree = "", {}, None, None
    try:
        src = open(os.path.join(root, py)).read()
        tree = ast.parse(src)
        fns = {n.name: n for n in tree.body if isinstance(n, ast.FunctionDef)}
    except (OSError, SyntaxError) as e:
        file_err = "%s: %s" % (type(e).__name__, e)
    # what the spelling of the names stands for: the module-level bindings of the names the translated functions use
    o.append(bindings_section(key, tree, [(c["func"], fns.get(c["func"]), None) for c in TARGETS if c["file"] == key],
                              BINDINGS.get(key), file_err, info))
    signed = set()
    for cfg in TARGETS:
        if cfg["file"] != key:
            continue
        f = cfg["lean"]
        o.append("/-! ### `%s`  (from `%s` of %s%s) -/" % (f, cfg["func"], py,
                 "" if cfg["region"] == "function" else ", region: " + cfg["region"].replace("_", " ")))
        o.append("section")
        o.append(("variable {α : Type} " + cfg["variables"]).rstrip() + "\n")
        err = file_err
        if err is None:
            try:
                text, skeleton, defaults, pins = translate(src, fns, cfg)
            except Shape as e:
                err = "Shape: %s" % e
            except Exception as e:               # anything else the source makes the translator do: outside the subset
                err = "%s: %s" % (type(e).__name__, e)
        if err is not None:
            o.append("/-- the translator could not read the source: %s -/" % err.replace("-/", "- /").replace("/-", "/ -").replace("\n", " "))
            o.append("def srcShape_%s : Bool := false" % f)
            o.append("theorem srcShape_%s_recognised : srcShape_%s = true := by decide\n" % (f, f))
            o.append("end\n")
            info["functions"][f] = {"error": err}
            continue
        o.append("def srcShape_%s : Bool := true" % f)
        o.append("theorem srcShape_%s_recognised : srcShape_%s = true := by decide\n" % (f, f))
        o.append(text + "\n")
        names = ["srcShape_%s_recognised" % f]
        for name, binders, stmt, proof, doc in cfg["obligations"]:
            o.append("/-- %s -/" % doc)
            o.append("theorem %s%s :\n    %s := %s\n" % (name, (" " + binders) if binders else "", stmt, proof))
            names.append(name)
        if cfg.get("skeleton") is not None:
            o.append("/-- the function around the translated region (`...`), as `ast.unparse` prints it -/")
            o.append("def srcSkeleton_%s : String :=\n  %s" % (f, lean_str(skeleton or "")))
            o.append("theorem src_%s_skeleton : srcSkeleton_%s =\n  %s := rfl\n" % (f, f, lean_str(cfg["skeleton"])))
            names.append("src_%s_skeleton" % f)
        if cfg.get("defaults"):
            o.append("/-- numeric keyword defaults of `%s`, as written in the source -/" % cfg["func"])
            o.append("def srcDefaults_%s : List (String × Rat) :=\n  [%s]" % (
                f, ", ".join('("%s", %s)' % (n, rat(q)) for n, q in defaults)))
            o.append("theorem src_%s_defaults : srcDefaults_%s =\n  [%s] := by decide +kernel\n" % (
                f, f, ", ".join('("%s", %s)' % (n, rat(Fraction(q))) for n, q in cfg["defaults"])))
            names.append("src_%s_defaults" % f)
        if cfg["func"] not in signed:                   # once per Python function: decorators, parameters, defaults
            signed.add(cfg["func"])
            o.append(render_signature(cfg["func"], signature_text(fns[cfg["func"]]), SIGNATURES.get((key, cfg["func"]), "")))
            names.append("src_%s_signature" % sanitize(cfg["func"]))
        if pins["conversions"] or cfg.get("conversions"):
            o.append("/-- the array conversions at the entry of `%s` that the translation reads as the identity of the exact-arithmetic\n"
                     "    model (`np.array(x, dtype=float)` ↦ `x`): `[index of the statement in the function] statement as written` -- a\n"
                     "    conversion is read only as the whole right-hand side of a top-level statement, so its position, its target, its\n"
                     "    argument and the dtype it converts to are all part of the text -/" % cfg["func"])
            o.append("def srcConversions_%s : List String :=\n  [%s]" % (f, ", ".join(lean_str(t) for t in pins["conversions"])))
            o.append("theorem src_%s_conversions : srcConversions_%s =\n  [%s] := rfl\n" % (
                f, f, ", ".join(lean_str(t) for t in cfg.get("conversions", []))))
            names.append("src_%s_conversions" % f)
        if pins["none_defaults"] or cfg.get("none_default_values"):
            def nd(items):
                return ", ".join("(%s, %s, [%s])" % (lean_str(p), lean_str(t), ", ".join(rat(q) for q in (qs or [])))
                                 for p, t, qs in items)
            o.append("/-- the guards `if p is None: p = <default>` of `%s`, which the translation skips (the model takes the value):\n"
                     "    parameter, the default as written, its numeric entries (row-major) -/" % cfg["func"])
            o.append("def srcNoneDefaults_%s : List (String × String × List Rat) :=\n  [%s]" % (f, nd(pins["none_defaults"])))
            o.append("theorem src_%s_none_defaults : srcNoneDefaults_%s =\n  [%s] := by decide +kernel\n" % (
                f, f, nd([(p, t, [Fraction(x) for x in qs.split()]) for p, t, qs in cfg.get("none_default_values", [])])))
            names.append("src_%s_none_defaults" % f)
        o.append("end\n")
        info["functions"][f] = {"obligations": names}
    if tree is not None:
        info["not_translated"] = {py: not_translated(py, tree, all_target_functions(py))}
        o.append(not_translated_comment(sorted(info["not_translated"].items())))
    o.append("end %s\n" % ns)
    return "\n".join(o), info


def bindings_section(key, tree, functions, expected, file_err, info):
    """the `srcBindings_<key>` block of a generated file (both engines); `functions`: [(qualified name, FunctionDef | None, ClassDef | None)]"""
    err = file_err
    entries = None
    if err is None:
        missing = [q for q, fn, _ in functions if fn is None]
        try:
            seen, fl = set(), []
            for q, fn, cls in functions:
                if fn is not None and id(fn) not in seen:
                    seen.add(id(fn))
                    fl.append((q, fn, cls))
            entries = file_bindings(tree, fl)
            if missing:
                entries = entries + [("(missing) " + q, "not found") for q in missing]
        except Exception as e:                       # a source the scan cannot read is outside the subset
            err = "%s: %s" % (type(e).__name__, e)
    if err is not None:
        info.setdefault("bindings", {})[key] = {"error": err}
        return ("/-- the module-level bindings could not be read: %s -/\ndef srcBindingsRead_%s : Bool := false\n"
                "theorem src_%s_bindings : srcBindingsRead_%s = true := by decide\n"
                % (err.replace("-/", "- /").replace("/-", "/ -").replace("\n", " "), key, key, key))
    info.setdefault("bindings", {})[key] = {"obligation": "src_%s_bindings" % key, "entries": len(entries)}
    return render_bindings(key, entries, expected or [])


def expected_tables(root):
    """Python source of the BINDINGS and SIGNATURES tables as the tree at `root` has them -- for a maintainer who has REVIEWED
    a change of the imports / signatures of /repo and re-baselines the tables above (`python -m harness.translator.py2lean
    --expected [root]`); never called by the checks"""
    b, sg = {}, {}
    for key in sorted(FILES):
        text, _ = render_file(key, root)
        for m in re.finditer(r"def srcBindings_(\w+) : List \(String × String\) :=\n  \[(.*?)\]\ntheorem", text, re.S):
            b[m.group(1)] = re.findall(r'\("((?:[^"\\]|\\.)*)", "((?:[^"\\]|\\.)*)"\)', m.group(2))
        for cfg in TARGETS + py2lean_stmt.TARGETS + py2lean_sweep.TARGETS + py2lean_matching.TARGETS:
            if cfg["file"] == key:
                m = re.search(r"def srcSignature_%s : String :=\n  \"((?:[^\"\\]|\\.)*)\"\n" % sanitize(cfg["func"]), text)
                if m:
                    sg[(key, cfg["func"])] = m.group(1)

    def un(t):
        return re.sub(r"\\x([0-9a-f]{2})", lambda m: chr(int(m.group(1), 16)), t).replace("\\n", "\n").replace('\\"', '"').replace("\\\\", "\\")
    out = ["BINDINGS = {"]
    for k, es in b.items():
        out.append("    %r: [" % k)
        out += ["        (%r, %r)," % (un(n), un(t)) for n, t in es]
        out.append("    ],")
    out.append("}")
    out.append("SIGNATURES = {")
    for k, t in sg.items():
        out.append("    %r: %r," % (k, un(t)))
    out.append("}")
    return "\n".join(out)


def generate(repo_root, out_dir, only=None):
    """(re)write <out_dir>/PersimVerif/Generated/Src*.lean from <repo_root>/persim ; `only`: keys of FILES (default all).
    Returns {key: info}.  Files are written only when their content changes (byte-identical on an unchanged tree)."""
    res = {}
    for key in sorted(FILES):
        if only is not None and key not in only:
            continue
        text, info = render_file(key, repo_root)
        path = os.path.join(out_dir, GEN, FILES[key][1])
        os.makedirs(os.path.dirname(path), exist_ok=True)
        old = open(path).read() if os.path.exists(path) else None
        if old != text:
            with open(path, "w") as f:
                f.write(text)
        info["rewritten"] = old != text
        res[key] = info
    return res


# ----------------------------------------------------------------------------- helpers for the harness modules

def pre_build(ctx, keys):
    """the `pre_build(ctx)` of a harness module: regenerate the files of `keys` from PERSIM_ROOT's source"""
    from .. import common
    res = generate(common.REPO, common.LEAN_DIR, only=keys)
    ctx.extra["source_translator"] = {k: {"source": v["source"], "output": v["output"], "functions": v["functions"],
                                          "bindings": v.get("bindings"), "not_translated": v.get("not_translated")}
                                      for k, v in res.items()}
    return res


def broken_obligations(ctx, prop_files):
    """names of the declarations of `prop_files` in which the build errors of this run lie (error line -> enclosing
    `def`/`theorem`; for a broken generated `def`, the obligations about it)"""
    from .. import common
    out = []
    for rel in prop_files:
        try:
            src = open(os.path.join(common.LEAN_DIR, rel)).read().split("\n")
        except OSError:
            continue
        for msg in getattr(ctx, "proof_broken", []) or []:
            m = re.search(re.escape(rel) + r":(\d+):", msg)
            if not m:
                continue
            ln = min(int(m.group(1)), len(src)) - 1
            decl = re.compile(r"\s*(theorem|def)\s+([\w.']+)")
            # declarations are blocks separated by blank lines (a doc comment belongs to the block it opens): nearest
            # declaration keyword at or above the error line inside its block, else the first one below
            k = ln
            while k >= 0 and src[k].strip() and not decl.match(src[k]):
                k -= 1
            if k < 0 or not decl.match(src[k]):
                k = ln
                while k < len(src) and src[k].strip() and not decl.match(src[k]):
                    k += 1
            if k < 0 or k >= len(src) or not decl.match(src[k]):
                continue
            ln = k
            kind, name = re.match(r"\s*(theorem|def)\s+([\w.']+)", src[ln]).groups()
            names = [name]
            if kind == "def":                      # the obligations that follow it, up to the end of its section
                for later in src[ln + 1:]:
                    if re.match(r"\s*end\s*$", later):
                        break
                    t = re.match(r"\s*theorem\s+([\w.']+)", later)
                    if t:
                        names = ["%s (def %s does not elaborate)" % (t.group(1), name)]
                        break
            for n in names:
                if n not in out:
                    out.append(n)
    return out


def report_broken(ctx, prop_files):
    """print the broken generated obligations (called first thing in `run`)"""
    bt = broken_obligations(ctx, prop_files)
    if bt:
        print("generated/proved obligations that no longer check: %s" % ", ".join(bt), flush=True)
    ctx.extra["broken_obligations"] = bt
    return bt


if __name__ == "__main__":
    # run as a script, this file is the module `__main__`; the engines below import `harness.translator.py2lean` and register
    # with THAT instance (importing them from here is a circular import): hand over to it
    import sys
    from harness.translator import py2lean as _registered
    sys.exit(_registered.main(sys.argv[1:]))

# the statement-level engine registers its files here (keys of STMT_KEYS are rendered by py2lean_stmt.render_file)
STMT_KEYS = set()
from . import py2lean_stmt  # noqa: E402


def _register():
    for k, v in getattr(py2lean_stmt, "FILES", {}).items():
        FILES[k] = v[:5]
        STMT_KEYS.add(k)


_register()
from . import py2lean_mgh  # noqa: E402,F401   mGH engine (key "mgh"): registers itself here (py2lean_mgh.register)

# the sweep engine (PersLandscapeExact.compute_landscape) registers its file the same way
SWEEP_KEYS = set()
from . import py2lean_sweep  # noqa: E402
for _k, _v in py2lean_sweep.FILES.items():
    FILES[_k] = _v[:5]
    SWEEP_KEYS.add(_k)

# the matching engine (what bottleneck / wasserstein do behind the augmented matrix) registers its files the same way
MATCHING_KEYS = set()
from . import py2lean_matching  # noqa: E402
for _k, _v in getattr(py2lean_matching, "FILES", {}).items():   # (empty when that module is being imported first: it registers itself)
    FILES[_k] = _v[:5]
    MATCHING_KEYS.add(_k)
# the image engine (_transform, PersistenceImager.transform / fit_transform) registers its file the same way
IMAGE_KEYS = set()
from . import py2lean_image  # noqa: E402
for _k, _v in py2lean_image.FILES.items():
    FILES[_k] = _v[:5]
    IMAGE_KEYS.add(_k)
# the landscape engine (arithmetic, norm entry points, grid tools, vectorize, the landscaper's transform) registers its files the same way
LANDSCAPE_KEYS = set()
from . import py2lean_landscape  # noqa: E402
for _k, _v in py2lean_landscape.FILES.items():
    FILES[_k] = _v[:5]
    LANDSCAPE_KEYS.add(_k)

# the mGH entry-point engine (gromov_hausdorff, make_distance_matrix_from_adjacency_matrix, the int-type cast; key "ghentry")
# registers itself like the mGH engine (py2lean_ghentry.register)
from . import py2lean_ghentry  # noqa: E402,F401

# the plot engine (plot_diagrams, bottleneck_matching, wasserstein_matching, the 2-D landscape plots; key "plot") registers itself
# the same way (py2lean_plot.register)
from . import py2lean_plot  # noqa: E402,F401


def main(argv):
    """`python -m harness.translator.py2lean [--expected] [root]`"""
    here = os.path.dirname(os.path.dirname(os.path.dirname(os.path.abspath(__file__))))
    if "--expected" in argv:
        args = [a for a in argv if a != "--expected"]
        print(expected_tables(args[0] if args else os.environ.get("PERSIM_ROOT", "/repo")))
        return 0
    root = argv[0] if argv else os.environ.get("PERSIM_ROOT", "/repo")
    for k, v in generate(root, os.path.join(here, "lean")).items():
        print(k, v["output"], "rewritten" if v["rewritten"] else "unchanged",
              {f: i.get("error", "ok") for f, i in v["functions"].items()})
    return 0
