"""
Source translator for the exact persistence-landscape sweep (DESIGN.md 3.2), the third engine behind py2lean.generate().

Target: `PersLandscapeExact.compute_landscape` of persim/landscapes/exact.py  ->  lean/PersimVerif/Generated/SrcSweep.lean.
The method is read with `ast` and translated STATEMENT BY STATEMENT into Lean definitions over the model's own core classes
(no Mathlib): the mutable work list `A`, the list of depths `L`, `landscape_idx`, `duplicate`, `d` are SSA / loop-carried
values, every loop is its own recursive definition.  The generated definitions are proved equal (a) to a reviewed Lean text of
the same shape (`PersimVerif.SrcBridge.Sweep.Ref.*`, `src_<def>_eq_ref`, induction on the fuel / the iterated list whose
steps are `rfl`), and through it (b) to the hand-written model `Landscape.sweep` of Model/Landscape.lean
(`src_compute_landscape_eq_model`, for ALL inputs over a linear ordered field; the inductions are in Lemmas/SrcBridgeSweep.lean).

Semantics of the subset (the translator's conventions):
  * straight-line code is SSA-renamed (`x`, `x_1`, ...), every assignment is a `let`; a Python name has ONE type; within one
    generated definition no binder is handed out twice, and a binder the translator makes up (an SSA version `x_k`, a hoisted
    `v`, the popped `pop`) is never an identifier of the Python method (a local SPELLED `ind_1` cannot be captured by the
    second version of `ind`), nor a Lean name the generated text uses;
  * DEAD STORES are refused: every `let`, every result of a loop, every value of an `if`, every parameter of a loop definition
    must be read below its binding (a binding that nothing reads is what `rfl` absorbs; in the source it is a store to a name
    that lives beyond the translated statements -- `self.attr`, a parameter, a name another round reads).  A store to a
    `self.attr` that is not a declared output of the region is refused where it stands.  Reviewed exceptions: the table
    `dead_ok`, printed below;
  * values: a float is `α`; a 2-list `[b, d]` of floats is a pair; a list of them a `List`; `np.inf` / `-np.inf` occur only
    as the first entry of a critical point `[np.inf, 0]` / `[-np.inf, 0]`, which is a pair `XR α × α`
    (`SrcLib.Sweep.XR`: `negInf | fin a | posInf`; a finite first entry `e` is `XR.fin e`), and in `x == np.inf` for a death that may be
    infinite (`Option α`, `none` = `np.inf`: `SrcLib.Sweep.isInf`); ints are `Nat`;
  * every definition returns `Option`: `none` = the source does not produce a value there -- it raises (`l[i]` / `l[-1]` /
    `l.pop(i)` out of range: the guards `match l[i]? with | none => none | some v => …` stand where the statement stands), it
    reads a name that a `for … break` search did not bind (UnboundLocalError, or a stale value of an earlier round: outside the
    translated semantics), or a fuelled loop runs out of fuel.  `none` is never a value: an equality with the model's `some`
    says the source terminates normally;
  * `while c:` is a recursion on a fuel argument that counts executions of the body: the test is evaluated first, a false test
    returns the live names, a true test with fuel 0 is `none`; the fuel passed at loop entry is `len(A) + 1` for the work list
    `A` named in the table (the model's own fuel; `Props/C03.exact_never_fuel` proves it suffices over a linear order);
  * `for j, x in enumerate(A)` whose body mutates `A` follows Python's list iterator: round `j` reads `A[j]` of the CURRENT
    list and stops when `j >= len(A)`; it is fuelled the same way;  `for i in range(n)` is a structural recursion over
    `List.range n`;  `break` returns, falling off the body is the recursive call;  a loop definition takes the names its body
    only reads as leading parameters, then the names it re-assigns that are read again (carried), and returns those of them
    that are read after the loop;
  * an `if` that is not the last statement of its block is an if-expression yielding the names its branches assign;
  * `A.pop(k)` is `A[k]?` then `A.eraseIdx k` (`pop(-1)`: `getLast?`, `dropLast`), `A.insert(i, x)` is `SrcLib.Sweep.pyInsert`
    (Python clamps the index), `L.append(x)` is `L ++ [x]`, `L[i].extend(l)` is `L.modify i (· ++ l)` (in range whenever the
    enclosing loop test `L[i][-1]` of the same round evaluated), `x[1:-1]` is `(x.drop 1).dropLast`, `len` is `List.length`,
    `all(c for v in l)` is `l.all`, `[v for v in l if c]` is `l.filter`, `[e for v in l]` is `l.map`,
    `sorted(l, key=lambda x: [..])` is `SrcLib.Sweep.pySortedBy` (stable insertion sort by Python's `<` on the list-valued keys);
  * `a > b` is written `b < a`, `a >= b` is `b ≤ a`; `l == [b, d]` is `==` of pairs (componentwise `&&`);
  * lists are VALUES: `L.append(L[-1])` appends a copy, in the source it is the same list object.  The two agree as long as no
    `extend` reaches a depth that has been copied; here every `extend` goes to `L[landscape_idx]` under the loop test
    `L[landscape_idx][-1] != [np.inf, 0]`, and only depths that end in `[np.inf, 0]` are copied.  That statement is the ONLY
    place (table `alias_ok`, printed below) where a list that is already stored -- a name, an element `l[i]` -- is stored a
    second time: `y = x`, `y = l[i]`, `l.append(x)`, `l.insert(i, x)`, `[x, …]`, `[x for …]`, `a, y = …, x`, `y = l.pop(i)` on
    a list-valued `x`, and the shallow copies `sorted(l)`, `l[1:-1]`, `[v for v in l if c]`, `m.extend(l)`, `enumerate(l)` of a
    list of LISTS are outside the subset (2-lists `[b, d]` are pairs: nothing of the subset can change one in place);
  * the variables of a `for` live in the loop's own definition: one that is bound before the loop or read behind it (Python: its
    last value) is outside the subset;
  * statements that are no-ops of the computation are NOT translated and stay in the skeleton text: calls of `verboseprint`
    and the guarded verification hook `if _VERIF_TRACE is not None: …`.
What is not translated is pinned as text: `srcSkeleton_compute_landscape` (the method with every translated statement
replaced by `...` and every translated loop / branch header by `while ...:` / `for ... in ...:` / `if ...:`),
`srcSignature_…`, `srcBindings_sweep`.
"""
import ast
import os
import re

from .py2lean import (Shape, LEAN_RESERVED, lean_str, strip_doc, GEN, bindings_section, render_signature, signature_text,
                      sanitize, not_translated, not_translated_comment)

# ----------------------------------------------------------------------------- types

SA, SN, SB, SXR = "A", "N", "B", "XR"


def Lst(t):
    return ("list", t)


def Pair(a, b):
    return ("pair", a, b)


def Opt(t):
    return ("opt", t)


P_ = Pair(SA, SA)
LP_ = Lst(P_)
XP_ = Pair(SXR, SA)
OA_ = Opt(SA)
LOP_ = Lst(Pair(SA, OA_))


def complete(t):
    if t is None:
        return False
    if isinstance(t, tuple):
        return all(complete(x) for x in t[1:])
    return True


def unify(a, b, what=""):
    """the more defined of two types that agree (None = unknown)"""
    if a is None:
        return b
    if b is None:
        return a
    if isinstance(a, tuple) and isinstance(b, tuple) and a[0] == b[0] and len(a) == len(b):
        return (a[0],) + tuple(unify(x, y, what) for x, y in zip(a[1:], b[1:]))
    if a == b:
        return a
    raise Shape("type clash%s: %s vs %s" % (" at " + what if what else "", a, b))


def lean_ty(t):
    if t == SA:
        return "α"
    if t == SN:
        return "Nat"
    if t == SB:
        return "Bool"
    if t == SXR:
        return "XR α"
    if not complete(t):
        raise Shape("a type could not be inferred: %r" % (t,))
    if t[0] == "list":
        return "List " + ty_atom(t[1])
    if t[0] == "opt":
        return "Option " + ty_atom(t[1])
    if t[0] == "pair":
        l = lean_ty(t[1])
        return "%s × %s" % ("(%s)" % l if " × " in l else l, lean_ty(t[2]))
    raise Shape("internal: type %r" % (t,))


def ty_atom(t):
    s = lean_ty(t)
    return "(%s)" % s if " " in s else s


def tuple_ty(ts):
    """type of a result tuple, as the argument of `Option`"""
    if len(ts) == 1:
        return ty_atom(ts[0])
    parts = []
    for i, t in enumerate(ts):
        s = lean_ty(t)
        parts.append("(%s)" % s if isinstance(t, tuple) and t[0] == "pair" and i < len(ts) - 1 else s)
    return "(%s)" % " × ".join(parts)


class E:
    """a translated expression: Lean text, type, precedence, and for conditions whether it is a `Prop` or a `Bool`"""
    def __init__(self, t, ty, p=100, cond=None):
        self.t, self.ty, self.p, self.cond = t, ty, p, cond


def par(e, minp):
    return "(%s)" % e.t if e.p < minp else e.t


def is_list(t):
    return isinstance(t, tuple) and t[0] == "list"


def is_ref(n):
    """an expression that evaluates to an EXISTING object: a name, an element `l[i]`"""
    return isinstance(n, ast.Name) or (isinstance(n, ast.Subscript) and not isinstance(n.slice, ast.Slice))


# ----------------------------------------------------------------------------- IR

class Ret:
    def __init__(self, vals):
        self.vals = vals


class Fail:
    def __init__(self, why=""):
        self.why = why


class Tail:
    def __init__(self, text):
        self.text = text


class Let:
    def __init__(self, pat, text, body):
        self.pat, self.text, self.body = pat, text, body


class MatchOpt:
    def __init__(self, text, pat, body, strict=False):
        self.text, self.pat, self.body = text, pat, body
        self.strict = strict                    # the pattern binds results of a loop: each must be read (check_live)


class Ite:
    def __init__(self, cond, a, b):
        self.cond, self.a, self.b = cond, a, b


class MatchFuel:
    def __init__(self, body):
        self.body = body


class Join:
    def __init__(self, inner, pat, body):
        self.inner, self.pat, self.body = inner, pat, body


def can_fail(n):
    if isinstance(n, (Fail, MatchOpt, Tail, MatchFuel)):
        return True
    if isinstance(n, Let):
        return can_fail(n.body)
    if isinstance(n, Ite):
        return can_fail(n.a) or can_fail(n.b)
    if isinstance(n, Join):
        return can_fail(n.inner) or can_fail(n.body)
    return False


def tup(vals):
    return vals[0] if len(vals) == 1 else "(%s)" % ", ".join(vals)


def render(n, ind, opt=True):
    if isinstance(n, Ret):
        t = tup(n.vals)
        return [ind + ("some %s" % t if opt else t)]
    if isinstance(n, Fail):
        return [ind + "none"]
    if isinstance(n, Tail):
        return [ind + n.text]
    if isinstance(n, Let):
        return [ind + "let %s := %s" % (n.pat, n.text)] + render(n.body, ind, opt)
    if isinstance(n, MatchOpt):
        return [ind + "match %s with" % n.text, ind + "| none => none", ind + "| some %s =>" % n.pat] + render(n.body, ind, opt)
    if isinstance(n, MatchFuel):
        return [ind + "match fuel with", ind + "| 0 => none", ind + "| fuel + 1 =>"] + render(n.body, ind, opt)
    if isinstance(n, Ite):
        return [ind + "if %s then" % n.cond] + render(n.a, ind + "  ", opt) + [ind + "else"] + render(n.b, ind + "  ", opt)
    if isinstance(n, Join):
        if can_fail(n.inner):
            inner = render(n.inner, ind + "    ", True)
            inner[-1] += ") with"
            return [ind + "match ("] + inner + [ind + "| none => none", ind + "| some %s =>" % n.pat] + render(n.body, ind, opt)
        inner = render(n.inner, ind + "    ", False)
        return [ind + "let %s :=" % n.pat] + inner + render(n.body, ind, opt)
    raise Shape("internal: IR node %r" % (n,))


# ----------------------------------------------------------------------------- generated names, dead bindings

# Lean identifiers that the generated text itself uses: never the name of a binder
# Python names that the translation resolves by SPELLING (their module-level bindings are pinned): never bound locally
SPELLED = {"np", "len", "all", "sorted", "enumerate", "range", "_VERIF_TRACE"}
SWEEP_RESERVED = {"fuel", "range", "rest", "some", "none", "isInf", "pySortedBy", "pyInsert", "XR", "Option", "Bool", "not", "id",
                  "trailing_inf", "compute_landscape", "outer_loop", "inner_loop", "dup_loop", "pop_loop", "shortcut_loop", "ind_loop",
                  "cnt_loop"}

_IDENT = re.compile(r"(?<![\w.'])[A-Za-z_][\w']*")


def idents(text):
    """identifiers a Lean text mentions (field names behind a `.` are not)"""
    return set(_IDENT.findall(text))


def node_idents(n):
    """every identifier mentioned anywhere in an IR subtree (patterns included: binders are unique per definition, so a binder is
    mentioned below its binding iff it is read)"""
    if isinstance(n, Ret):
        return set().union(*[idents(v) for v in n.vals]) if n.vals else set()
    if isinstance(n, Fail):
        return set()
    if isinstance(n, Tail):
        return idents(n.text)
    if isinstance(n, Let):
        return idents(n.text) | node_idents(n.body)
    if isinstance(n, MatchOpt):
        return idents(n.text) | node_idents(n.body)
    if isinstance(n, Ite):
        return idents(n.cond) | node_idents(n.a) | node_idents(n.b)
    if isinstance(n, MatchFuel):
        return node_idents(n.body)
    if isinstance(n, Join):
        return node_idents(n.inner) | node_idents(n.body)
    raise Shape("internal: IR node %r" % (n,))


def check_live(n, where, allow):
    """DEAD STORES: a binding of the generated definition `where` that nothing below it reads is refused -- `rfl` would absorb it
    (zeta), and in the source it is a store to a name that lives beyond the translated statements (a parameter, `self.attr`, a
    name of an enclosing round).  `allow`: the reviewed (definition, binder) pairs printed in the header"""
    def need(names, body, what):
        live = node_idents(body)
        for nm in names:
            if nm not in live and nm != "_" and (where, nm) not in allow:
                raise Shape("dead store: `%s` (%s) of `%s` is never read" % (nm, what, where))
    if isinstance(n, Let):
        need(idents(n.pat), n.body, "let … := %s" % n.text[:60])
        check_live(n.body, where, allow)
    elif isinstance(n, MatchOpt):
        if n.strict:
            need(idents(n.pat), n.body, "result of %s" % n.text[:60])
        check_live(n.body, where, allow)
    elif isinstance(n, Ite):
        check_live(n.a, where, allow)
        check_live(n.b, where, allow)
    elif isinstance(n, MatchFuel):
        check_live(n.body, where, allow)
    elif isinstance(n, Join):
        need(idents(n.pat), n.body, "value of an `if`")
        check_live(n.inner, where, allow)
        check_live(n.body, where, allow)


# ----------------------------------------------------------------------------- reads / writes / liveness

MUTATORS = ("append", "extend", "pop", "insert")


def skipped(s, cfg):
    """statements that are no-ops of the computation (pinned as text in the skeleton, not translated)"""
    if isinstance(s, ast.Expr) and isinstance(s.value, ast.Call) and isinstance(s.value.func, ast.Name) \
            and s.value.func.id in cfg["skip_calls"]:
        return True
    if isinstance(s, ast.If) and ast.unparse(s.test) in cfg["skip_if_tests"] and not s.orelse:
        return True
    return False


def expr_reads(n):
    """names an expression loads, comprehension / lambda variables excluded"""
    out = []

    def go(x, bound):
        if isinstance(x, ast.Name):
            if isinstance(x.ctx, ast.Load) and x.id not in bound and x.id not in out:
                out.append(x.id)
            return
        if isinstance(x, (ast.ListComp, ast.GeneratorExp, ast.SetComp)):
            b = set(bound)
            for g in x.generators:
                go(g.iter, b)
                b |= {t.id for t in ast.walk(g.target) if isinstance(t, ast.Name)}
                for c in g.ifs:
                    go(c, b)
            go(x.elt, b)
            return
        if isinstance(x, ast.Lambda):
            go(x.body, set(bound) | {a.arg for a in x.args.args})
            return
        if isinstance(x, ast.Attribute) and isinstance(x.value, ast.Name) and x.value.id == "self":
            if "self." + x.attr not in out and isinstance(x.ctx, ast.Load):
                out.append("self." + x.attr)
            return
        for c in ast.iter_child_nodes(x):
            go(c, bound)
    go(n, set())
    return out


def target_names(t):
    if isinstance(t, ast.Name):
        return [t.id]
    if isinstance(t, (ast.Tuple, ast.List)):
        return [n for e in t.elts for n in target_names(e)]
    if isinstance(t, ast.Attribute) and isinstance(t.value, ast.Name) and t.value.id == "self":
        return ["self." + t.attr]
    if isinstance(t, ast.Subscript):
        b = t
        while isinstance(b, ast.Subscript):
            b = b.value
        return target_names(b)
    raise Shape("assignment target outside the subset: %s" % ast.unparse(t))


def mutated_by_call(call):
    """`X.append(..)`, `X[i].extend(..)`, `X.pop(..)`, `X.insert(..)`: the name X, else None"""
    f = call.func
    if isinstance(f, ast.Attribute) and f.attr in MUTATORS:
        b = f.value
        while isinstance(b, ast.Subscript):
            b = b.value
        if isinstance(b, ast.Name):
            return b.id
    return None


def stmt_parts(s, cfg):
    """(expressions evaluated first, names then written, nested blocks) of one statement"""
    if skipped(s, cfg) or isinstance(s, (ast.Pass, ast.Break)):
        return [], [], []
    if isinstance(s, ast.Assign):
        w = [n for t in s.targets for n in target_names(t)]
        ex = [s.value] + [t for t in s.targets if isinstance(t, ast.Subscript)]
        for c in ast.walk(s.value):
            if isinstance(c, ast.Call) and mutated_by_call(c):
                w.append(mutated_by_call(c))
        return ex, w, []
    if isinstance(s, ast.AugAssign):
        return [s.target, s.value], target_names(s.target), []
    if isinstance(s, ast.Expr):
        w = []
        for c in ast.walk(s.value):
            if isinstance(c, ast.Call) and mutated_by_call(c):
                w.append(mutated_by_call(c))
        return [s.value], w, []
    if isinstance(s, ast.If):
        return [s.test], [], [s.body, s.orelse]
    if isinstance(s, ast.While):
        return [s.test], [], [s.body]
    if isinstance(s, ast.For):
        return [s.iter], [], [s.body]
    raise Shape("statement outside the subset: %s" % ast.unparse(s).split("\n")[0])


def assigned(stmts, cfg):
    out = []
    for s in stmts:
        ex, w, blocks = stmt_parts(s, cfg)
        if isinstance(s, ast.For):
            w = w + target_names(s.target)
        for n in w:
            if n not in out:
                out.append(n)
        for b in blocks:
            for n in assigned(b, cfg):
                if n not in out:
                    out.append(n)
    return out


def block_reads(stmts, cfg):
    out = []
    for s in stmts:
        ex, w, blocks = stmt_parts(s, cfg)
        for e in ex:
            for n in expr_reads(e):
                if n not in out:
                    out.append(n)
        if isinstance(s, ast.AugAssign):
            for n in target_names(s.target):
                if n not in out:
                    out.append(n)
        for b in blocks:
            for n in block_reads(b, cfg):
                if n not in out:
                    out.append(n)
    return out


def first_use(items, name, cfg):
    """'read' if, running through the scan items, `name` may be read before it is certainly re-written; 'write' if it is
    certainly written first; None if neither happens"""
    for kind, x in items:
        if kind == "read":
            if name in x:
                return "read"
        elif kind == "expr":
            if name in expr_reads(x):
                return "read"
        elif kind == "stmts":
            for s in x:
                r = stmt_use(s, name, cfg)
                if r:
                    return r
    return None


def stmt_use(s, name, cfg):
    ex, w, blocks = stmt_parts(s, cfg)
    for e in ex:
        if name in expr_reads(e):
            return "read"
    if isinstance(s, ast.AugAssign) and name in target_names(s.target):
        return "read"
    if name in w:
        return "write"
    if isinstance(s, ast.If):
        a, b = first_use([("stmts", s.body)], name, cfg), first_use([("stmts", s.orelse)], name, cfg)
        if a == "read" or b == "read":
            return "read"
        return "write" if a == "write" and b == "write" else None
    if isinstance(s, ast.For):
        if name in target_names(s.target):
            return None                                  # re-bound by every round, kept when the loop does not run
        return "read" if first_use([("stmts", s.body)], name, cfg) == "read" else None
    if isinstance(s, ast.While):
        return "read" if first_use([("stmts", s.body)], name, cfg) == "read" else None
    return None


# ----------------------------------------------------------------------------- the translator

class Tr:
    def __init__(self, cfg, top=None, defname=None):
        self.cfg = cfg
        self.top = top or self                  # shared: types of the Python names, emitted loop definitions, marks
        if top is None:
            self.types, self.defs, self.translated, self.kept, self.loopno = {}, [], set(), set(), [0]
            self.cur_stmt = None
        self.defname = defname
        self.env, self.count, self.pre = {}, {}, []
        self.used = set()                       # Lean names handed out in this definition
        if top is None:
            self.pyidents = set()               # identifiers of the Python function (set by `translate`)
        self.on_break = None

    # -- names
    def fresh(self, py, synthetic=False):
        """a Lean binder for the Python name `py` (`synthetic`: for a value the translator introduces itself -- a hoisted guard,
        the popped element).  Within one generated definition no name is handed out twice, and a name the translator makes up (an
        SSA version `x_k`, a synthetic name) is never an identifier of the Python function: a Python local that is SPELLED like an
        SSA version of another name cannot be captured by it"""
        own = sanitize(py)
        base = own or "v"
        if base in LEAN_RESERVED or base in SWEEP_RESERVED:
            base += "_"
        k = self.count.get(base, 0)
        while True:
            cand = base if k == 0 else "%s_%d" % (base, k)
            k += 1
            if cand in self.used:
                continue
            if cand in self.top.pyidents and (synthetic or cand != own):
                continue
            break
        self.count[base] = k
        self.used.add(cand)
        return cand

    def bind(self, py, ty, what=None):
        if py in SPELLED or py in self.cfg["skip_calls"]:
            raise Shape("the local name `%s` shadows a name that the translation resolves by its spelling" % py)
        self.top.types[py] = unify(self.top.types.get(py), ty, what or py)
        nm = self.fresh(py)
        self.env[py] = nm
        return nm

    def ty(self, py):
        return self.top.types.get(py)

    def no_alias(self, e, node, what):
        """ALIASING: lists are translated as VALUES, so a list that is already stored somewhere (a name, an element) may not be
        stored a second time -- in Python the two are one object, and a later `append` / `extend` / `pop` through one is seen
        through the other.  The reviewed exceptions are the statement texts of `alias_ok` (printed in the header)"""
        if is_list(e.ty) and is_ref(node):
            self.alias_error("`%s` (%s)" % (ast.unparse(node), what))

    def alias_error(self, what):
        st = ast.unparse(self.top.cur_stmt) if self.top.cur_stmt is not None else ""
        if st in self.cfg.get("alias_ok", ()):
            return
        raise Shape("aliasing: %s stores a list that is already stored elsewhere; lists are translated as values (line %d)"
                    % (what, getattr(self.top.cur_stmt, "lineno", 0)))

    def shallow(self, l, what):
        """`sorted(l)`, `l[1:-1]`, a filtering comprehension, `x.extend(l)`, `enumerate(l)`: the new list shares the ELEMENTS of `l`"""
        if is_list(l.ty) and is_list(l.ty[1]):
            self.alias_error("%s of a list of lists" % what)

    def take_pre(self):
        p, self.pre = self.pre, []
        return p

    @staticmethod
    def with_pre(pre, node):
        for name, text in reversed(pre):
            node = MatchOpt(text, name, node)
        return node

    def hoist(self, text, ty, base="v"):
        nm = self.fresh(base, synthetic=True)
        self.pre.append((nm, text))
        return E(nm, ty)

    # -- expressions
    def is_inf(self, n):
        """+1 for `np.inf`, -1 for `-np.inf`, else 0"""
        if isinstance(n, ast.Attribute) and isinstance(n.value, ast.Name) and n.value.id == "np" and n.attr == "inf":
            return 1
        if isinstance(n, ast.UnaryOp) and isinstance(n.op, ast.USub) and self.is_inf(n.operand) == 1:
            return -1
        return 0

    def expr(self, n, expect=None):
        if isinstance(n, ast.Constant):
            if isinstance(n.value, bool) or not isinstance(n.value, int):
                raise Shape("constant outside the subset: %r" % (n.value,))
            if expect == SXR:
                return E("XR.fin %d" % n.value, SXR, 90)
            return E(str(n.value), SA if expect == SA else SN)
        if self.is_inf(n):
            if expect != SXR:
                raise Shape("np.inf where a finite number is needed")
            return E("XR.posInf" if self.is_inf(n) == 1 else "XR.negInf", SXR)
        if isinstance(n, ast.Name):
            if n.id not in self.env:
                raise Shape("`%s` is read where it is not bound on every path (line %d)" % (n.id, n.lineno))
            e = E(self.env[n.id], self.ty(n.id))
            return self.coerce(e, expect)
        if isinstance(n, ast.UnaryOp) and isinstance(n.op, ast.USub):
            a = self.expr(n.operand, SA)
            if a.ty != SA:
                raise Shape("negation of a non-float")
            return self.coerce(E("-" + par(a, 75), SA, 75), expect)
        if isinstance(n, ast.UnaryOp) and isinstance(n.op, ast.Not):
            a = self.expr(n.operand)
            if a.cond is None:
                raise Shape("`not` of a non-condition: %s" % ast.unparse(n))
            return E(("¬ " if a.cond == "prop" else "!") + par(a, 100), SB, 40, a.cond)
        if isinstance(n, ast.BinOp):
            ops = {ast.Add: ("+", 65), ast.Sub: ("-", 65), ast.Mult: ("*", 70), ast.Div: ("/", 70)}
            if type(n.op) not in ops:
                raise Shape("operator outside the subset: %s" % ast.unparse(n))
            sym, p = ops[type(n.op)]
            want = SA if expect in (SA, SXR) else expect
            a = self.expr(n.left, want)
            b = self.expr(n.right, a.ty if want is None else want)
            t = unify(a.ty, b.ty, ast.unparse(n))
            if t not in (SA, SN) or (t == SN and sym in ("-", "/")):
                raise Shape("arithmetic outside the subset: %s" % ast.unparse(n))
            return self.coerce(E("%s %s %s" % (par(a, p), sym, par(b, p + 1)), t, p), expect)
        if isinstance(n, ast.Compare):
            return self.compare(n)
        if isinstance(n, ast.BoolOp):
            vs = []
            for i, v in enumerate(n.values):
                k = len(self.pre)
                vs.append(self.expr(v))
                if i > 0 and len(self.pre) > k:
                    raise Shape("a short-circuited operand can raise: %s" % ast.unparse(n))
                if vs[-1].cond is None:
                    raise Shape("operand of and/or is not a condition: %s" % ast.unparse(n))
            allb = all(v.cond == "bool" for v in vs)
            if isinstance(n.op, ast.And):
                sym, p = ("&&", 35) if allb else ("∧", 35)
            else:
                sym, p = ("||", 30) if allb else ("∨", 30)
            return E((" %s " % sym).join(par(v, p + 1) for v in vs), SB, p, "bool" if allb else "prop")
        if isinstance(n, ast.Subscript):
            return self.coerce(self.subscript(n), expect)
        if isinstance(n, ast.Call):
            return self.coerce(self.call(n, expect), expect)
        if isinstance(n, ast.List):
            return self.list_literal(n, expect)
        if isinstance(n, ast.ListComp):
            return self.listcomp(n)
        raise Shape("expression outside the subset: %s" % ast.unparse(n))

    def coerce(self, e, expect):
        if expect == SXR and e.ty == SA:
            return E("XR.fin " + par(e, 100), SXR, 90)
        return e

    def compare(self, n):
        if len(n.ops) != 1:
            raise Shape("chained comparison: %s" % ast.unparse(n))
        op, ln, rn = n.ops[0], n.left, n.comparators[0]
        if isinstance(op, (ast.Eq, ast.NotEq)):
            a = self.expr(ln)
            if self.is_inf(rn) == 1 and a.ty == OA_:
                t = E("isInf " + par(a, 100), SB, 90, "bool")
                return t if isinstance(op, ast.Eq) else E("!" + par(t, 100), SB, 40, "bool")
            b = self.expr(rn, a.ty)
            unify(a.ty, b.ty, ast.unparse(n))
            return E("%s %s %s" % (par(a, 51), "==" if isinstance(op, ast.Eq) else "!=", par(b, 51)), SB, 50, "bool")
        table = {ast.Lt: ("<", False), ast.Gt: ("<", True), ast.LtE: ("≤", False), ast.GtE: ("≤", True)}
        if type(op) not in table:
            raise Shape("comparison outside the subset: %s" % ast.unparse(n))
        sym, swap = table[type(op)]
        a = self.expr(ln, SA if isinstance(rn, ast.Constant) else None)
        b = self.expr(rn, a.ty)
        if unify(a.ty, b.ty, ast.unparse(n)) not in (SA, SN):
            raise Shape("order comparison of non-numbers: %s" % ast.unparse(n))
        if swap:
            a, b = b, a
        return E("%s %s %s" % (par(a, 51), sym, par(b, 51)), SB, 50, "prop")

    def subscript(self, n):
        if isinstance(n.slice, ast.Slice):
            s = n.slice
            if not (isinstance(s.lower, ast.Constant) and s.lower.value == 1 and s.step is None and isinstance(s.upper, ast.UnaryOp)
                    and isinstance(s.upper.op, ast.USub) and isinstance(s.upper.operand, ast.Constant) and s.upper.operand.value == 1):
                raise Shape("slice outside the subset: %s" % ast.unparse(n))
            v = self.expr(n.value)
            if not (isinstance(v.ty, tuple) and v.ty[0] == "list"):
                raise Shape("slice of a non-list")
            self.shallow(v, "a slice")
            return E("(%s.drop 1).dropLast" % par(v, 100), v.ty)
        v = self.expr(n.value)
        k = n.slice
        neg1 = isinstance(k, ast.UnaryOp) and isinstance(k.op, ast.USub) and isinstance(k.operand, ast.Constant) and k.operand.value == 1
        if isinstance(v.ty, tuple) and v.ty[0] == "pair":
            if isinstance(k, ast.Constant) and k.value in (0, 1):
                return E("%s.%d" % (par(v, 100), k.value + 1), v.ty[1 + k.value])
            raise Shape("index of a 2-list is not 0 or 1: %s" % ast.unparse(n))
        if isinstance(v.ty, tuple) and v.ty[0] == "list":
            if neg1:
                return self.hoist("%s.getLast?" % par(v, 100), v.ty[1])
            i = self.expr(k, SN)
            if i.ty != SN:
                raise Shape("list index is not an int: %s" % ast.unparse(n))
            return self.hoist("%s[%s]?" % (par(v, 100), i.t), v.ty[1])
        raise Shape("subscript of a value that is neither a list nor a 2-list: %s" % ast.unparse(n))

    def lam(self, var, ty, body_fn):
        """translate under a local binder (comprehension / lambda variable), restoring the environment"""
        saved, k = dict(self.env), len(self.pre)
        old_ty = self.top.types.pop(var, None)
        nm = self.bind(var, ty)
        try:
            r = body_fn(nm)
            if len(self.pre) > k:
                raise Shape("the body of a comprehension / lambda can raise")
            return r
        finally:
            self.env = saved
            self.top.types.pop(var, None)
            if old_ty is not None:
                self.top.types[var] = old_ty

    def as_bool(self, c):
        if c.cond is None:
            raise Shape("not a condition")
        return c.t if c.cond == "bool" else "decide (%s)" % c.t

    def call(self, n, expect):
        f = n.func
        if isinstance(f, ast.Name) and f.id == "len" and len(n.args) == 1 and not n.keywords:
            v = self.expr(n.args[0])
            if not (isinstance(v.ty, tuple) and v.ty[0] == "list"):
                raise Shape("len of a non-list")
            return E("%s.length" % par(v, 100), SN)
        if isinstance(f, ast.Name) and f.id == "all" and len(n.args) == 1 and not n.keywords and isinstance(n.args[0], ast.GeneratorExp):
            g = n.args[0]
            if len(g.generators) != 1 or g.generators[0].ifs or not isinstance(g.generators[0].target, ast.Name):
                raise Shape("generator outside the subset: %s" % ast.unparse(n))
            l = self.expr(g.generators[0].iter)
            if not (isinstance(l.ty, tuple) and l.ty[0] == "list"):
                raise Shape("all(...) over a non-list")
            body = self.lam(g.generators[0].target.id, l.ty[1], lambda nm: "fun %s => %s" % (nm, self.as_bool(self.expr(g.elt))))
            return E("%s.all (%s)" % (par(l, 100), body), SB, 90, "bool")
        if isinstance(f, ast.Name) and f.id == "sorted" and len(n.args) == 1 and len(n.keywords) == 1 and n.keywords[0].arg == "key" \
                and isinstance(n.keywords[0].value, ast.Lambda) and len(n.keywords[0].value.args.args) == 1:
            l = self.expr(n.args[0])
            if not (isinstance(l.ty, tuple) and l.ty[0] == "list"):
                raise Shape("sorted of a non-list")
            self.shallow(l, "sorted(…)")
            lm = n.keywords[0].value
            body = self.lam(lm.args.args[0].arg, l.ty[1], lambda nm: "fun %s => %s" % (nm, self.expr(lm.body, Lst(SA)).t))
            return E("pySortedBy (%s) %s" % (body, par(l, 100)), l.ty, 90)
        raise Shape("call outside the subset: %s" % ast.unparse(n))

    def list_literal(self, n, expect):
        two = len(n.elts) == 2 and not any(isinstance(e, (ast.List, ast.ListComp)) for e in n.elts)
        if expect is not None and isinstance(expect, tuple) and expect[0] == "list" and not (two and expect[1] is None):
            es = [self.expr(e, expect[1]) for e in n.elts]
            t = expect[1]
            for e, nd in zip(es, n.elts):
                t = unify(t, e.ty, ast.unparse(n))
                self.no_alias(e, nd, "an element of a list display")
            return E("[%s]" % ", ".join(e.t for e in es), Lst(t))
        if two:
            want = expect if isinstance(expect, tuple) and expect[0] == "pair" else (XP_ if self.is_inf(n.elts[0]) else P_)
            a, b = self.expr(n.elts[0], want[1]), self.expr(n.elts[1], want[2])
            if (a.ty, b.ty) != (want[1], want[2]):
                raise Shape("2-list %s is not a %s" % (ast.unparse(n), lean_ty(want)))
            return E("(%s, %s)" % (a.t, b.t), want)
        if not n.elts:
            return E("[]", Lst(None))
        if all(isinstance(e, ast.List) and len(e.elts) == 2 for e in n.elts):
            want = XP_ if any(self.is_inf(e.elts[0]) for e in n.elts) else P_
            es = [self.expr(e, want) for e in n.elts]
            for e, nd in zip(es, n.elts):
                self.no_alias(e, nd, "an element of a list display")
            return E("[%s]" % ", ".join(e.t for e in es), Lst(want))
        raise Shape("list literal outside the subset: %s" % ast.unparse(n))

    def listcomp(self, n):
        if len(n.generators) != 1 or not isinstance(n.generators[0].target, ast.Name) or len(n.generators[0].ifs) > 1:
            raise Shape("comprehension outside the subset: %s" % ast.unparse(n))
        g = n.generators[0]
        l = self.expr(g.iter)
        if not (isinstance(l.ty, tuple) and l.ty[0] == "list"):
            raise Shape("comprehension over a non-list")
        if g.ifs:
            if not (isinstance(n.elt, ast.Name) and n.elt.id == g.target.id):
                raise Shape("filtering comprehension that also maps: %s" % ast.unparse(n))
            self.shallow(l, "a filtering comprehension")
            body = self.lam(g.target.id, l.ty[1], lambda nm: "fun %s => %s" % (nm, self.as_bool(self.expr(g.ifs[0]))))
            return E("%s.filter (%s)" % (par(l, 100), body), l.ty, 90)
        out = []

        def f(nm):
            e = self.expr(n.elt)
            self.no_alias(e, n.elt, "the element of a comprehension")
            out.append(e.ty)
            return "fun %s => %s" % (nm, e.t)
        body = self.lam(g.target.id, l.ty[1], f)
        return E("%s.map (%s)" % (par(l, 100), body), Lst(out[0]), 90)

    # -- statements
    def block(self, stmts, k, cont):
        stmts = [s for s in stmts if not self.skip(s)]
        if not stmts:
            return k()
        s, rest = stmts[0], stmts[1:]
        return self.stmt(s, lambda: self.block(rest, k, cont), [("stmts", rest)] + cont, last=not rest)

    def skip(self, s):
        if skipped(s, self.cfg):
            self.top.kept.add(id(s))
            return True
        return False

    def pop(self, call, kk, targets):
        """`[targets =] X.pop(k)`"""
        lst = call.func.value
        if not isinstance(lst, ast.Name) or len(call.args) != 1 or call.keywords:
            raise Shape("pop outside the subset: %s" % ast.unparse(call))
        v = self.expr(lst)
        if not (isinstance(v.ty, tuple) and v.ty[0] == "list"):
            raise Shape("pop of a non-list")
        k = call.args[0]
        neg1 = isinstance(k, ast.UnaryOp) and isinstance(k.op, ast.USub) and isinstance(k.operand, ast.Constant) and k.operand.value == 1
        if neg1:
            guard, new = "%s.getLast?" % v.t, "%s.dropLast" % v.t
        else:
            i = self.expr(k, SN)
            if i.ty != SN:
                raise Shape("pop index is not an int")
            guard, new = "%s[%s]?" % (v.t, i.t), "%s.eraseIdx %s" % (v.t, par(i, 100))
        pre = self.take_pre()
        popped = self.fresh("pop", synthetic=True)
        nl = self.bind(lst.id, v.ty)
        lets = [(nl, new)]
        if targets is not None:
            names = target_names(targets)
            if is_list(v.ty[1]):
                self.alias_error("`%s` (a popped list may be stored elsewhere too)" % ast.unparse(call))
            if len(names) == 1:
                lets.append((self.bind(names[0], v.ty[1]), popped))
            elif len(names) == 2 and isinstance(v.ty[1], tuple) and v.ty[1][0] == "pair":
                lets.append((self.bind(names[0], v.ty[1][1]), popped + ".1"))
                lets.append((self.bind(names[1], v.ty[1][2]), popped + ".2"))
            else:
                raise Shape("unpacking outside the subset: %s" % ast.unparse(targets))
        node = kk()
        for nm, text in reversed(lets):
            node = Let(nm, text, node)
        return self.with_pre(pre, MatchOpt(guard, popped, node))

    def stmt(self, s, kk, after, last):
        self.top.translated.add(id(s))
        self.top.cur_stmt = s
        if isinstance(s, (ast.Assign, ast.AugAssign)):
            for t in (s.targets if isinstance(s, ast.Assign) else [s.target]):
                for nm in target_names(t):
                    if nm.startswith("self.") and nm not in self.cfg["ret"]:
                        raise Shape("`%s = …`: a store to an attribute that is not a declared output %s of the translated statements"
                                    % (nm, self.cfg["ret"]))
        if isinstance(s, ast.Pass):
            return kk()
        if isinstance(s, ast.Break):
            if self.on_break is None:
                raise Shape("break outside a loop")
            return self.on_break()
        if isinstance(s, ast.Assign):
            if len(s.targets) != 1:
                raise Shape("chained assignment")
            t, v = s.targets[0], s.value
            if isinstance(v, ast.Call) and isinstance(v.func, ast.Attribute) and v.func.attr == "pop":
                return self.pop(v, kk, t)
            if isinstance(t, (ast.Tuple, ast.List)):
                names = target_names(t)
                if isinstance(v, ast.Tuple) and len(v.elts) == len(names):
                    es = [self.expr(e) for e in v.elts]
                    for e, nd in zip(es, v.elts):
                        self.no_alias(e, nd, "a value of a tuple assignment")
                    pre = self.take_pre()
                    lets = [(self.bind(nm, e.ty), e.t) for nm, e in zip(names, es)]
                else:
                    e = self.expr(v)
                    pre = self.take_pre()
                    if not (len(names) == 2 and isinstance(e.ty, tuple) and e.ty[0] == "pair") or is_list(e.ty[1]) or is_list(e.ty[2]):
                        raise Shape("unpacking outside the subset: %s" % ast.unparse(s))
                    lets = [(self.bind(names[0], e.ty[1]), par(e, 100) + ".1"), (self.bind(names[1], e.ty[2]), par(e, 100) + ".2")]
                node = kk()
                for nm, text in reversed(lets):
                    node = Let(nm, text, node)
                return self.with_pre(pre, node)
            names = target_names(t)
            if isinstance(t, ast.Subscript) or len(names) != 1:
                raise Shape("assignment outside the subset: %s" % ast.unparse(s))
            e = self.expr(v, self.ty(names[0]))
            self.no_alias(e, v, "the value of an assignment")
            pre = self.take_pre()
            nm = self.bind(names[0], e.ty, ast.unparse(s))
            return self.with_pre(pre, Let(nm, e.t, kk()))
        if isinstance(s, ast.AugAssign):
            if not isinstance(s.target, ast.Name) or not isinstance(s.op, ast.Add):
                raise Shape("augmented assignment outside the subset: %s" % ast.unparse(s))
            a = self.expr(s.target)
            b = self.expr(s.value, a.ty)
            pre = self.take_pre()
            if unify(a.ty, b.ty) not in (SA, SN):
                raise Shape("+= on non-numbers")
            nm = self.bind(s.target.id, a.ty)
            return self.with_pre(pre, Let(nm, "%s + %s" % (par(a, 65), par(b, 66)), kk()))
        if isinstance(s, ast.Expr):
            return self.call_stmt(s, kk)
        if isinstance(s, ast.If):
            return self.if_stmt(s, kk, after, last)
        if isinstance(s, ast.While):
            return self.while_stmt(s, kk, after)
        if isinstance(s, ast.For):
            return self.for_stmt(s, kk, after)
        raise Shape("statement outside the subset: %s" % ast.unparse(s).split("\n")[0])

    def call_stmt(self, s, kk):
        c = s.value
        if not (isinstance(c, ast.Call) and isinstance(c.func, ast.Attribute) and not c.keywords):
            raise Shape("expression statement outside the subset: %s" % ast.unparse(s))
        m, recv = c.func.attr, c.func.value
        if m == "pop":
            return self.pop(c, kk, None)
        if isinstance(recv, ast.Name) and m in ("append", "extend", "insert"):
            v = self.expr(recv)
            if not (isinstance(v.ty, tuple) and v.ty[0] == "list"):
                raise Shape("%s on a non-list" % m)
            if m == "insert" and len(c.args) == 2:
                i = self.expr(c.args[0], SN)
                x = self.expr(c.args[1], v.ty[1])
                self.no_alias(x, c.args[1], "inserted")
                pre = self.take_pre()
                if i.ty != SN:
                    raise Shape("insert index is not an int")
                nm = self.bind(recv.id, Lst(x.ty), ast.unparse(s))
                return self.with_pre(pre, Let(nm, "pyInsert %s %s %s" % (par(i, 100), par(x, 100), v.t), kk()))
            if m in ("append", "extend") and len(c.args) == 1:
                x = self.expr(c.args[0], v.ty[1] if m == "append" else v.ty)
                if m == "append":
                    self.no_alias(x, c.args[0], "appended")
                elif not isinstance(c.args[0], (ast.List, ast.ListComp)):
                    self.shallow(x, "`extend` by the elements")
                pre = self.take_pre()
                nm = self.bind(recv.id, Lst(x.ty) if m == "append" else x.ty, ast.unparse(s))
                return self.with_pre(pre, Let(nm, "%s ++ %s" % (par(v, 65), "[%s]" % x.t if m == "append" else par(x, 66)), kk()))
        if isinstance(recv, ast.Subscript) and isinstance(recv.value, ast.Name) and m == "extend" and len(c.args) == 1:
            v = self.expr(recv.value)
            if not (isinstance(v.ty, tuple) and v.ty[0] == "list" and isinstance(v.ty[1], tuple) and v.ty[1][0] == "list"):
                raise Shape("%s is not a list of lists" % recv.value.id)
            i = self.expr(recv.slice, SN)
            x = self.expr(c.args[0], v.ty[1])
            if not isinstance(c.args[0], (ast.List, ast.ListComp)):
                self.shallow(x, "`extend` by the elements")
            pre = self.take_pre()
            if i.ty != SN:
                raise Shape("index is not an int")
            nm = self.bind(recv.value.id, Lst(x.ty), ast.unparse(s))
            return self.with_pre(pre, Let(nm, "%s.modify %s (· ++ %s)" % (par(v, 100), par(i, 100), par(x, 66)), kk()))
        raise Shape("call statement outside the subset: %s" % ast.unparse(s))

    def has_break(self, stmts):
        for s in stmts:
            if isinstance(s, ast.Break):
                return True
            if isinstance(s, ast.If) and (self.has_break(s.body) or self.has_break(s.orelse)):
                return True
        return False

    def if_stmt(self, s, kk, after, last):
        c = self.expr(s.test)
        if c.cond is None:
            raise Shape("test is not a condition: %s" % ast.unparse(s.test))
        pre = self.take_pre()
        saved = dict(self.env)
        if last:                                   # tail position: the (small) continuation goes into both branches
            a = self.block(s.body, kk, after)
            self.env = dict(saved)
            b = self.block(s.orelse, kk, after)
            self.env = dict(saved)                 # names bound in one branch only are not visible afterwards
            return self.with_pre(pre, Ite(c.t, a, b))
        if self.has_break(s.body) or self.has_break(s.orelse):
            raise Shape("`break` inside an `if` that is not the last statement of its block")
        asg = assigned(s.body, self.cfg) + assigned(s.orelse, self.cfg)
        names = [n for n in saved if n in asg]

        def branch(stmts):
            self.env = dict(saved)
            return self.block(stmts, lambda: Ret([self.env[n] for n in names]), after)
        a = branch(s.body)
        b = branch(s.orelse)
        self.env = dict(saved)
        pat = tup([self.bind(n, self.ty(n)) for n in names])
        if not names:
            raise Shape("an `if` without effect: %s" % ast.unparse(s.test))
        return self.with_pre(pre, Join(Ite(c.t, a, b), pat, kk()))

    def loop_name(self, header):
        nm = self.cfg["loops"].get(header)
        if nm is None:
            self.top.loopno[0] += 1
            return "%s_loop_%d" % (self.cfg["lean"], self.top.loopno[0]), None
        return nm[0], nm[1]

    def loop_frame(self, s, body, after, extra_reads):
        """(results, carried, invariants) of a loop statement, as Python names"""
        cfg = self.cfg
        asg = assigned(body, cfg) + (target_names(s.target) if isinstance(s, ast.For) else [])
        rd = block_reads(body, cfg) + extra_reads
        results = [n for n in asg if first_use(after, n, cfg) == "read"]
        order = list(self.env) + [n for n in asg if n not in self.env]
        results = [n for n in order if n in results]
        carried = [n for n in self.env if n in asg and (n in rd or n in results)]
        inv = [n for n in self.env if n not in carried and n in rd]
        return results, carried, inv

    def sub(self, name, names):
        t = Tr(self.cfg, self.top, name)
        for n in names:
            t.env[n] = t.fresh(n)
        t.env0 = dict(t.env)                    # the names of the parameters
        return t

    def live(self, name, binders, nodes, head=""):
        """dead-store check of one loop definition: its bindings, and its parameters (each must be mentioned in its body)"""
        allow = self.cfg.get("dead_ok", ())
        seen = idents(head)
        for n in nodes:
            check_live(n, name, allow)
            seen |= node_idents(n)
        for b, _ in binders:
            if b not in seen and b not in ("fuel", "range") and (name, b) not in allow:
                raise Shape("dead store: the parameter `%s` of `%s` is never read" % (b, name))

    def emit(self, name, doc, binders, result_names, lines):
        rt = tuple_ty([self.ty(n) for n in result_names])
        sig = " ".join("(%s : %s)" % (b, t) for b, t in binders)
        self.top.defs.append((name, "/-- `%s` -/\ndef %s %s : Option %s :=\n%s" % (doc, name, sig, rt, "\n".join(lines))))

    def call_loop(self, name, args, results, kk):
        pat = tup([self.bind(n, self.ty(n)) for n in results])
        return MatchOpt("%s %s" % (name, " ".join(args)), pat, kk(), strict=True)

    def exit_ret(self, results):
        """the values a loop definition returns here; a name that is read after the loop but is not bound on this path (the
        `for … break` search found nothing): `none`"""
        missing = [n for n in results if n not in self.env]
        if missing:
            return Fail("%s not bound" % ", ".join(missing))
        return Ret([self.env[n] for n in results])

    def fuel_arg(self, fuel_list):
        if fuel_list not in self.env:
            raise Shape("the work list `%s` that fuels a loop is not bound" % fuel_list)
        return "(%s.length + 1)" % self.env[fuel_list]

    def while_stmt(self, s, kk, after):
        if s.orelse:
            raise Shape("while … else")
        header = ast.unparse(s).split("\n")[0].rstrip(":")
        name, fuel_list = self.loop_name(header)
        if fuel_list is None:
            raise Shape("no fuel is declared for the loop `%s`" % header)
        loop_items = [("expr", s.test), ("stmts", s.body)]
        results, carried, inv = self.loop_frame(s, s.body, after, expr_reads(s.test))
        # a name first bound in the body cannot be read after the loop unless it is bound again first (a read of an unbound
        # name is refused where it stands): only names bound before the loop are returned
        results = [n for n in results if n in self.env]
        sub = self.sub(name, inv + carried)
        sub.on_break = lambda: sub.exit_ret(results)
        exit_ir = sub.exit_ret(results)
        test = sub.expr(s.test)
        if test.cond is None:
            # truthiness of a list
            if isinstance(test.ty, tuple) and test.ty[0] == "list":
                test = E("!%s.isEmpty" % par(test, 100), SB, 40, "bool")
            else:
                raise Shape("loop test is not a condition: %s" % ast.unparse(s.test))
        pre = sub.take_pre()
        body = sub.block(s.body, lambda: Tail("%s %s" % (name, " ".join([sub.env0[n] for n in inv] + ["fuel"] + [sub.env[n] for n in carried]))),
                         loop_items + after)
        ir = sub.with_pre(pre, Ite(test.t, MatchFuel(body), exit_ir))
        binders = [(sub.env0[n], lean_ty(self.ty(n))) for n in inv] + [("fuel", "Nat")] + [(sub.env0[n], lean_ty(self.ty(n))) for n in carried]
        self.live(name, binders, [ir])
        self.emit(name, header, binders, results, render(ir, "  "))
        args = [self.env[n] for n in inv] + [self.fuel_arg(fuel_list)] + [self.env[n] for n in carried]
        return self.call_loop(name, args, results, kk)

    def for_stmt(self, s, kk, after):
        if s.orelse:
            raise Shape("for … else")
        header = ast.unparse(s).split("\n")[0].rstrip(":")
        it = s.iter
        if isinstance(it, ast.Call) and isinstance(it.func, ast.Name) and it.func.id == "enumerate" and len(it.args) == 1 \
                and not it.keywords and isinstance(it.args[0], ast.Name) and isinstance(s.target, ast.Tuple) and len(s.target.elts) == 2 \
                and all(isinstance(e, ast.Name) for e in s.target.elts):
            return self.for_enumerate(s, header, it.args[0].id, kk, after)
        if isinstance(it, ast.Call) and isinstance(it.func, ast.Name) and it.func.id == "range" and len(it.args) == 1 \
                and not it.keywords and isinstance(s.target, ast.Name):
            return self.for_range(s, header, kk, after)
        raise Shape("loop outside the subset: %s" % header)

    def loop_vars(self, header, names, after):
        """the loop variables live in the loop's own definition only: a variable that is bound before the loop, or read behind it
        (in Python: its last value), is outside the subset"""
        for v in names:
            if v == "_":
                continue
            if v in self.env:
                raise Shape("`%s`: the loop variable `%s` is a name that is bound before the loop" % (header, v))
            if first_use(after, v, self.cfg) == "read":
                raise Shape("`%s`: the loop variable `%s` is read behind the loop" % (header, v))

    def for_enumerate(self, s, header, lst, kk, after):
        name, fuel_list = self.loop_name(header)
        idx, item = s.target.elts[0].id, s.target.elts[1].id
        self.loop_vars(header, [idx, item], after)
        if idx == item or "_" in (idx, item):
            raise Shape("`%s`: loop variables" % header)
        if lst not in assigned(s.body, self.cfg):
            raise Shape("`%s`: the body does not mutate `%s` (not a form of the subset)" % (header, lst))
        if fuel_list is None:
            fuel_list = lst
        loop_items = [("stmts", s.body)]
        results, carried, inv = self.loop_frame(s, s.body, after, [lst])
        carried = [n for n in carried if n not in (idx, item)]
        inv = [n for n in inv if n not in (idx, item)]
        if lst not in self.env or not (isinstance(self.ty(lst), tuple) and self.ty(lst)[0] == "list"):
            raise Shape("`%s`: `%s` is not a list" % (header, lst))
        self.top.cur_stmt = s
        self.shallow(E(self.env[lst], self.ty(lst)), "`enumerate`")
        sub = self.sub(name, inv + carried)
        i0 = sub.bind(idx, SN)
        exit_ir = sub.exit_ret(results)
        it0 = sub.bind(item, self.ty(lst)[1])
        sub.on_break = lambda: sub.exit_ret(results)
        body = sub.block(s.body, lambda: Tail("%s %s" % (name, " ".join([sub.env0[n] for n in inv] + ["fuel", "(%s + 1)" % i0]
                                                                         + [sub.env[n] for n in carried]))), loop_items + after)
        lines = ["  match %s[%s]? with" % (sub.env0[lst], i0), "  | none =>"] + render(exit_ir, "    ") + ["  | some %s =>" % it0] \
            + render(MatchFuel(body), "  ")
        binders = [(sub.env0[n], lean_ty(self.ty(n))) for n in inv] + [("fuel", "Nat"), (i0, "Nat")] \
            + [(sub.env0[n], lean_ty(self.ty(n))) for n in carried]
        self.live(name, binders, [exit_ir, body], "%s %s" % (sub.env0[lst], i0))
        self.emit(name, header, binders, results, lines)
        args = [self.env[n] for n in inv] + [self.fuel_arg(fuel_list), "0"] + [self.env[n] for n in carried]
        return self.call_loop(name, args, results, kk)

    def for_range(self, s, header, kk, after):
        name, _ = self.loop_name(header)
        n = self.expr(s.iter.args[0], SN)
        pre = self.take_pre()
        if n.ty != SN:
            raise Shape("range of a non-int")
        var = s.target.id
        self.loop_vars(header, [var], after)
        if self.lst_mutated_iter(s):
            raise Shape("`%s`: the body changes what the range was computed from" % header)
        loop_items = [("stmts", s.body)]
        results, carried, inv = self.loop_frame(s, s.body, after, [])
        carried = [x for x in carried if x != var]
        inv = [x for x in inv if x != var]
        results = [x for x in results if x != var]
        results = [x for x in results if x in self.env]
        sub = self.sub(name, inv + carried)
        exit_ir = sub.exit_ret(results)
        if var == "_":
            v0 = "_"
        else:
            v0 = sub.bind(var, SN)
        sub.on_break = lambda: sub.exit_ret(results)
        body = sub.block(s.body, lambda: Tail("%s %s" % (name, " ".join([sub.env0[x] for x in inv] + ["rest"] + [sub.env[x] for x in carried]))),
                         loop_items + after)
        lines = ["  match range with", "  | [] =>"] + render(exit_ir, "    ") + ["  | %s :: rest =>" % v0] + render(body, "  ")
        binders = [(sub.env0[x], lean_ty(self.ty(x))) for x in inv] + [("range", "List Nat")] + [(sub.env0[x], lean_ty(self.ty(x))) for x in carried]
        self.live(name, binders, [exit_ir, body])
        self.emit(name, header, binders, results, lines)
        args = [self.env[x] for x in inv] + ["(List.range %s)" % par(n, 100)] + [self.env[x] for x in carried]
        return self.with_pre(pre, self.call_loop(name, args, results, kk))

    def lst_mutated_iter(self, s):
        rd = expr_reads(s.iter)
        return any(n in assigned(s.body, self.cfg) for n in rd)


# ----------------------------------------------------------------------------- regions, skeleton

def find_method(tree, qual):
    cls, name = qual.split(".")
    for n in tree.body:
        if isinstance(n, ast.ClassDef) and n.name == cls:
            for m in n.body:
                if isinstance(m, ast.FunctionDef) and m.name == name:
                    return m, n
    return None, None


def pick_region(body, cfg):
    """the translated top-level statements of a target: the unique top-level `if` whose test mentions `cfg['anchor_if']` (the
    trailing-infinite-bar step), or everything behind it"""
    hits = [i for i, s in enumerate(body) if isinstance(s, ast.If) and cfg["anchor_if"] in ast.unparse(s.test)]
    if len(hits) != 1:
        raise Shape("expected exactly one top-level `if` whose test mentions `%s`" % cfg["anchor_if"])
    return body[hits[0] + 1:] if cfg["region"] == "behind" else [body[hits[0]]]


def skeleton(body, translated, kept):
    """the statements with every translated statement replaced by `...` (consecutive ones by one) and the header of every
    partly translated compound statement by `...`; untranslated statements as they are"""
    hole_mark = "__hole__"

    def full(s):
        if id(s) in kept or id(s) not in translated:
            return False
        return all(full(c) for f in ("body", "orelse") for c in getattr(s, f, []) or [])

    def go(stmts):
        out = []
        for s in stmts:
            if full(s):
                if not (out and getattr(out[-1], hole_mark, False)):
                    h = ast.Expr(ast.Constant(Ellipsis))
                    setattr(h, hole_mark, True)
                    out.append(h)
                continue
            if id(s) in translated and isinstance(s, (ast.If, ast.While, ast.For)):
                el = ast.Constant(Ellipsis)
                if isinstance(s, ast.If):
                    out.append(ast.If(test=el, body=go(s.body) or [ast.Pass()], orelse=go(s.orelse)))
                elif isinstance(s, ast.While):
                    out.append(ast.While(test=el, body=go(s.body) or [ast.Pass()], orelse=go(s.orelse)))
                else:
                    out.append(ast.For(target=el, iter=el, body=go(s.body) or [ast.Pass()], orelse=go(s.orelse), type_comment=None))
                continue
            out.append(s)
        return out
    return ast.unparse(ast.fix_missing_locations(ast.Module(body=go(body), type_ignores=[])))


def py_identifiers(fn):
    """every identifier of the Python function, as the translator would spell it in Lean: names, parameters, `self.attr`"""
    out = set()
    for n in ast.walk(fn):
        if isinstance(n, ast.Name):
            out.add(n.id)
        elif isinstance(n, ast.arg):
            out.add(n.arg)
        elif isinstance(n, ast.Attribute):
            if isinstance(n.value, ast.Name):
                out.add(sanitize("%s.%s" % (n.value.id, n.attr)))
        elif isinstance(n, (ast.FunctionDef, ast.ClassDef)):
            out.add(n.name)
        elif isinstance(n, (ast.Global, ast.Nonlocal)):
            out.update(n.names)
        elif isinstance(n, ast.keyword) and n.arg:
            out.add(n.arg)
    return out | {sanitize(x) for x in out}


def translate(fn, cfgs):
    """-> ({lean name: [def texts] | error}, skeleton text)"""
    body = strip_doc(fn.body)
    translated, kept, out = set(), set(), {}
    for cfg in cfgs:
        try:
            stmts = pick_region(body, cfg)
            tr = Tr(cfg)
            tr.pyidents = py_identifiers(fn)
            binders = []
            for py, ty in cfg["params"]:
                binders.append((tr.bind(py, ty), lean_ty(ty)))
            rets = cfg["ret"]

            def fin():
                missing = [r for r in rets if r not in tr.env]
                if missing:
                    raise Shape("not assigned on every path: %s" % ", ".join(missing))
                return Ret([tr.env[r] for r in rets])
            node = tr.block(stmts, fin, [("read", rets)])
            if tr.pre:
                raise Shape("internal: pending guards")
            tr.live(cfg["lean"], binders, [node])
            rt = tuple_ty([tr.ty(r) for r in rets])
            defs = [t for _, t in tr.defs]
            defs.append("/-- %s -/\ndef %s %s : Option %s :=\n%s" % (cfg["doc"], cfg["lean"], " ".join("(%s : %s)" % b for b in binders), rt,
                                                                      "\n".join(render(node, "  "))))
            out[cfg["lean"]] = defs
            translated |= tr.translated
            kept |= tr.kept
        except Shape as e:
            out[cfg["lean"]] = "Shape: %s" % e
        except Exception as e:                       # anything else the source makes the translator do: outside the subset
            out[cfg["lean"]] = "%s: %s" % (type(e).__name__, e)
    return out, skeleton(body, translated, kept)


# ----------------------------------------------------------------------------- targets (fixed; reviewed against the model)

VARS = ("[Add α] [Sub α] [Mul α] [Div α] [Neg α] [Zero α] [OfNat α 2] [LT α] [DecidableLT α] [LE α]\n"
        "  [DecidableLE α] [Max α] [Min α] [BEq α]")
REF = "PersimVerif.SrcBridge.Sweep.Ref"
BR = "PersimVerif.SrcBridge.Sweep"
FIELD = "{K : Type} [Field K] [LinearOrder K] [IsStrictOrderedRing K]"

# `generated = Ref.*` for a recursive definition: induction on what it recurses on; after one unfolding of both sides the
# induction hypothesis (and the obligations of the loops it calls) make the two sides the same term (`rfl` sees through the
# `match` auxiliaries, which Lean names per file)
FUEL_IND = ("by\n  intro fuel\n  induction fuel with\n  | zero => intros; unfold %s %s.%s; rfl\n"
            "  | succ n ih => intros; unfold %s %s.%s; simp only [ih] <;> rfl")
LIST_IND = ("by\n  intro l\n  induction l with\n  | nil => intros; unfold %s %s.%s; rfl\n"
            "  | cons x l ih => intros; unfold %s %s.%s; simp only [ih] <;> rfl")


def fuel_ind(f):
    return FUEL_IND % (f, REF, f, f, REF, f)


def list_ind(f):
    return LIST_IND % (f, REF, f, f, REF, f)


COMMON = dict(file="sweep", func="PersLandscapeExact.compute_landscape", pyparams=["self", "verbose"],
              skip_calls=("verboseprint",), skip_if_tests=("_VERIF_TRACE is not None",),
              anchor_if="np.inf")             # the top-level `if … np.inf …:` separates the two translated regions

TARGETS = [
    dict(COMMON, lean="trailing_inf", region="the_if",
         params=[("A", LOP_)], ret=["A"], loops={},
         doc="`if A[-1][1] == np.inf: A.pop(-1)` on a diagram whose deaths may be infinite (`none` = `np.inf`)",
         obligations=[
             ("src_trailing_inf_eq_ref", "", "trailing_inf (α := α) = %s.trailing_inf" % REF, "rfl",
              "the generated definition is the reviewed Lean text of the same shape"),
             ("src_trailing_inf_eq_model", "(A : List (α × Option α))",
              "trailing_inf A = (PersimVerif.Landscape.dropTrailingInf A).toOption",
              "by\n  rw [src_trailing_inf_eq_ref]; exact PersimVerif.SrcBridge.Sweep.trailing_inf_eq_model A",
              "only the LAST row is looked at; an empty diagram raises (`A[-1]`): the model's `dropTrailingInf` (`none` = the model's "
              "`Err.indexError`)")]),
    dict(COMMON, lean="compute_landscape", region="behind",
         params=[("A", LP_)], ret=["self.max_depth", "self.critical_pairs"],
         # reviewed dead stores (generated definition, binder): `b` of `b, d = (b_prime, d_prime)` at the end of a round of the
         # inner loop is read by no translated statement (the next `b, d = A.pop(0)` overwrites it; only `verboseprint` reads it)
         dead_ok=[("inner_loop", "b")],
         # the one statement that stores a list that is already stored elsewhere (header: "lists are VALUES")
         alias_ok=["L.append(L[-1])"],
         # loop header -> (name of its definition, work list whose length + 1 is the fuel at loop entry)
         loops={"while A": ("outer_loop", "A"),
                "while L[landscape_idx][-1] != [np.inf, 0]": ("inner_loop", "A"),
                "for j, itemj in enumerate(A)": ("dup_loop", "A"),
                "for i, item in enumerate(A)": ("pop_loop", "A"),
                "for _ in range(duplicate)": ("shortcut_loop", None),
                "for i in range(len(A))": ("ind_loop", None),
                "for j in range(len(A_i))": ("cnt_loop", None)},
         doc="`compute_landscape` behind the trailing-infinite-bar step (from `landscape_idx = 0` to the end), on the list `A` of finite bars: "
             "the values written to `self.max_depth`, `self.critical_pairs`",
         obligations=[
             ("src_shortcut_loop_eq_ref", "", "∀ (l : List Nat) (landscape_idx : Nat) (L : List (List (XR α × α))),\n"
              "      shortcut_loop l landscape_idx L = %s.shortcut_loop l landscape_idx L" % REF,
              list_ind("shortcut_loop"), "the loop `for _ in range(duplicate)` (`L.append(L[-1]); landscape_idx += 1`)"),
             ("src_pop_loop_eq_ref", "", "∀ (fuel : Nat) (d : α) (i : Nat) (A : List (α × α)),\n"
              "      pop_loop d fuel i A = %s.pop_loop d fuel i A" % REF,
              fuel_ind("pop_loop"), "the search `for i, item in enumerate(A): if item[1] > d: b_prime, d_prime = A.pop(i); break`"),
             ("src_ind_loop_eq_ref", "", "∀ (l : List Nat) (A : List (α × α)) (b_prime : α) (ind : Nat),\n"
              "      ind_loop A b_prime l ind = %s.ind_loop A b_prime l ind" % REF,
              list_ind("ind_loop"), "the index search `for i in range(len(A)): if b_prime <= A[i][0]: ind = i; break`"),
             ("src_cnt_loop_eq_ref", "", "∀ (l : List Nat) (d : α) (A_i : List (α × α)) (ind : Nat),\n"
              "      cnt_loop d A_i l ind = %s.cnt_loop d A_i l ind" % REF,
              list_ind("cnt_loop"), "the counting loop `for j in range(len(A_i)): if d < A_i[j][1]: ind += 1`"),
             ("src_inner_loop_eq_ref", "", "∀ (fuel : Nat) (duplicate : Nat) (A : List (α × α)) (landscape_idx : Nat) (L : List (List (XR α × α))) (d : α),\n"
              "      inner_loop duplicate fuel A landscape_idx L d = %s.inner_loop duplicate fuel A landscape_idx L d" % REF,
              "by\n  have h1 := src_shortcut_loop_eq_ref (α := α)\n  have h2 := src_pop_loop_eq_ref (α := α)\n"
              "  have h3 := src_ind_loop_eq_ref (α := α)\n  have h4 := src_cnt_loop_eq_ref (α := α)\n"
              "  intro fuel\n  induction fuel with\n  | zero => intros; unfold inner_loop %s.inner_loop; rfl\n"
              "  | succ n ih => intros; unfold inner_loop %s.inner_loop; simp only [ih, h1, h2, h3, h4] <;> rfl" % (REF, REF),
              "the loop `while L[landscape_idx][-1] != [np.inf, 0]` for one landscape function"),
             ("src_dup_loop_eq_ref", "", "∀ (fuel : Nat) (b d : α) (j : Nat) (A : List (α × α)) (duplicate : Nat),\n"
              "      dup_loop b d fuel j A duplicate = %s.dup_loop b d fuel j A duplicate" % REF,
              fuel_ind("dup_loop"),
              "the `duplicate` loop, which mutates the list it enumerates"),
             ("src_outer_loop_eq_ref", "", "∀ (fuel : Nat) (A : List (α × α)) (landscape_idx : Nat) (L : List (List (XR α × α))),\n"
              "      outer_loop fuel A landscape_idx L = %s.outer_loop fuel A landscape_idx L" % REF,
              "by\n  have h1 := src_dup_loop_eq_ref (α := α)\n  have h2 := src_inner_loop_eq_ref (α := α)\n"
              "  intro fuel\n  induction fuel with\n  | zero => intros; unfold outer_loop %s.outer_loop; rfl\n"
              "  | succ n ih => intros; unfold outer_loop %s.outer_loop; simp only [ih, h1, h2] <;> rfl" % (REF, REF),
              "the loop `while A:`"),
             ("src_pop_loop_eq_model", "(d : α) (A : List (α × α))",
              "pop_loop d (A.length + 1) 0 A =\n      (PersimVerif.Landscape.popFirst (fun x => decide (d < x.2)) A).map fun r => (r.2, r.1.1, r.1.2)",
              "by\n  rw [src_pop_loop_eq_ref]; exact %s.pop_loop_eq d A" % BR,
              "the search is the model's `popFirst` (first bar dying after `d`, removed from the work list); `none` when there is none"),
             ("src_dup_loop_eq_model", "(b d : α) (A : List (α × α))",
              "dup_loop b d (A.length + 1) 0 A 0 = some (PersimVerif.Landscape.dupLoop (b, d) A.length 0 A 0)",
              "by\n  rw [src_dup_loop_eq_ref]; exact %s.dup_loop_eq b d A.length (A.length + 1) 0 A 0 (by omega) (by omega)" % BR,
              "the `duplicate` loop is the model's `dupLoop` (the iterator skips every second equal bar), and its fuel is never exhausted"),
             ("src_inner_loop_eq_model", "(h0 : ((0 : α) == 0) = true) (fuel dup : Nat) (A : List (α × α)) (Lpre : List (List (XR α × α)))\n"
              "    (cur : List (α × α)) (b d : α)",
              "inner_loop dup fuel A Lpre.length (Lpre ++ [%s.opened cur]) d =\n"
              "      (PersimVerif.Landscape.inner fuel b d A cur).map fun r =>\n"
              "        (r.2, Lpre.length + dup, Lpre ++ List.replicate (dup + 1) (%s.closed r.1))" % (BR, BR),
              "by\n  rw [src_inner_loop_eq_ref]; exact %s.inner_loop_eq h0 fuel dup A Lpre cur b d" % BR,
              "one landscape function: with `L = Lpre ++ [(-inf, 0) :: cur]` and `landscape_idx = len(Lpre)` the source's loop returns what "
              "the model's `inner` returns on `cur` -- the remaining work list, the finished depth closed by `(inf, 0)` and copied "
              "`duplicate` more times, `landscape_idx` advanced by `duplicate`"),
             ("src_outer_loop_eq_model", "(h0 : ((0 : α) == 0) = true) (fuel : Nat) (A : List (α × α)) (Lm : List (List (α × α))) (fired : Nat)",
              "outer_loop fuel A Lm.length (Lm.map %s.closed) =\n"
              "      (PersimVerif.Landscape.outer fuel A Lm fired).map fun o => o.cps.map %s.closed" % (BR, BR),
              "by\n  rw [src_outer_loop_eq_ref]; exact %s.outer_loop_eq h0 fuel A Lm fired" % BR,
              "the loops alone, for EVERY coefficient type (only `0 == 0` is used): `L` = the model's finished depths with their sentinels, "
              "`landscape_idx` = their number"),
             ("src_compute_landscape_eq_ref", "(A : List (α × α))", "compute_landscape A = %s.compute_landscape A" % REF,
              "by\n  unfold compute_landscape %s.compute_landscape; simp only [src_outer_loop_eq_ref] <;> rfl" % REF,
              "the generated definitions are the reviewed Lean text of the same shape"),
         ],
         field_obligations=[
             ("src_compute_landscape_eq_model", "(bars : List (K × K))",
              "compute_landscape bars =\n      (PersimVerif.Landscape.sweep bars).map fun o => (o.cps.length, o.cps.map fun c => c.map fun p => (XR.fin p.1, p.2))",
              "by\n  rw [src_compute_landscape_eq_ref]; exact PersimVerif.SrcBridge.Sweep.compute_landscape_eq_model bars",
              "**the tie of C03's core algorithm**: on every list of finite bars over a linear ordered field the translated method returns "
              "exactly what the model `Landscape.sweep` returns (`none` for `none`; the critical points per depth, their first coordinates "
              "embedded by `XR.fin`, i.e. the sentinels `[-inf, 0]`, `[inf, 0]` that the source adds and strips are gone, and "
              "`max_depth` is their number) -- the model about which Props/C03.lean proves `exact_never_fuel`, "
              "`sweep_correct_of_not_fired`, ….  The order structure is needed for the sort only (`-x[1]` in the key against the "
              "model's `keyLe`) and for `0 == 0`; the loops are equal for every `α` (`src_outer_loop_eq_model`)."),
             ("src_compute_landscape_isSome", "(bars : List (K × K))", "(compute_landscape bars).isSome = true",
              "by\n  rw [src_compute_landscape_eq_ref]; exact %s.compute_landscape_isSome bars" % BR,
              "on finite bars the translated method never gets stuck: no `IndexError` of a translated statement, no unbound `b_prime`, "
              "no loop out of fuel (the model's `sweep_total`)"),
         ]),
]

# reviewed text of the method around the translated statements (`...`)
SKELETON = (
    "verboseprint = print if verbose else lambda *a, **k: None\n"
    "if self.critical_pairs:\n"
    "    verboseprint('self.critical_pairs was not empty and stored value was returned')\n"
    "    return self.critical_pairs\n"
    "A = self.dgms\n"
    "A = list(A)\n"
    "for i in range(len(A)):\n"
    "    A[i] = list(A[i])\n"
    "...\n"
    "while ...:\n"
    "    verboseprint(f'computing landscape index {landscape_idx + 1}...')\n"
    "    ...\n"
    "    verboseprint(f'(b,d) is ({b},{d})')\n"
    "    ...\n"
    "    while ...:\n"
    "        if ...:\n"
    "            ...\n"
    "            for ... in ...:\n"
    "                if _VERIF_TRACE is not None:\n"
    "                    _VERIF_TRACE.append(('repeated-bar-shortcut', landscape_idx))\n"
    "                ...\n"
    "        else:\n"
    "            for ... in ...:\n"
    "                if ...:\n"
    "                    ...\n"
    "                    verboseprint(f'(bp,dp) is ({b_prime},{d_prime})')\n"
    "                    ...\n"
    "            ...\n"
    "    ...\n"
    "verboseprint('self.critical_pairs was empty and algorthim was executed')\n"
    "...")

BINDINGS = {
    "sweep": [
        ("PersLandscape", "from .base import PersLandscape"),
        ("_VERIF_TRACE", "assign: _VERIF_TRACE = [] if _os.environ.get('PERSIM_VERIF') == '1' else None"),
        ("all", "builtin"),
        ("bool", "builtin"),
        ("enumerate", "builtin"),
        ("len", "builtin"),
        ("list", "builtin"),
        ("np", "import numpy as np"),
        ("print", "builtin"),
        ("range", "builtin"),
        ("sorted", "builtin"),
        ("class PersLandscapeExact", "class PersLandscapeExact(PersLandscape)"),
        ("PersLandscapeExact.compute_landscape", "def compute_landscape"),
    ],
}
SIGNATURES = {
    ("sweep", "PersLandscapeExact.compute_landscape"): "def compute_landscape(self, verbose: bool=False) -> list",
}

FILES = {
    # key: (python source, generated Lean file, Lean namespace, imports, property, opened namespaces)
    "sweep": ("persim/landscapes/exact.py", "SrcSweep.lean", "PersimVerif.Src.landscapes_exact",
              "PersimVerif.Model.Landscape\nimport PersimVerif.Lemmas.SrcLibSweep\nimport PersimVerif.Lemmas.SrcBridgeSweep", "C03",
              "PersimVerif.SrcLib.Sweep"),
}
BRIDGES = {"sweep": ["PersimVerif/Lemmas/SrcLibSweep.lean", "PersimVerif/Lemmas/SrcBridgeSweep.lean"]}


# ----------------------------------------------------------------------------- notes for the harness modules

def trusted_note(key):
    """the entry a harness module adds to its TRUSTED list"""
    return ("harness/translator/py2lean.py + py2lean_sweep.py (statement-level ast translation of %s of %s into Generated/%s, proved "
            "equal on every run to the reviewed Lean text `Ref.*` of Lemmas/SrcBridgeSweep.lean and through it to the hand-written model "
            "Landscape.sweep; its stated conventions -- SSA, one recursive definition per loop with the fuel len(A)+1 of the model, "
            "`none` for an exception / an unbound name / exhausted fuel, Python's list iterator for the loop that mutates the list it "
            "enumerates, [x, y] as a pair, [±np.inf, 0] as `XR α × α`, names resolved by spelling with their bindings pinned as text -- its "
            "tables (regions, loop names, which work list fuels a loop, the obligation statements and proof scripts, the reviewed skeleton "
            "/ signature / bindings texts) and Lemmas/SrcLibSweep.lean (pySortedBy, lexLt, pyInsert, XR) are trusted)"
            % (COMMON["func"], FILES[key][0], FILES[key][1]))


def manifest_note(key):
    """sentence appended to MANIFEST['note'] of the property that owns `key`"""
    return ("Source translator (sweep): %s of %s is re-translated from the source text into Lean on every run (Generated/%s), statement "
            "by statement -- the work list `A`, the depths `L` with their sentinels, `landscape_idx`, `duplicate` as SSA / loop-carried "
            "values, every loop its own recursion (`while` loops and the `duplicate` loop that mutates the list it enumerates on the "
            "model's fuel len(A)+1, `none` when exhausted) -- and proved EQUAL, for all lists of finite bars over a linear ordered field, "
            "to the hand-written model `Landscape.sweep` that the C03 theorems are about (`src_compute_landscape_eq_model`: via the "
            "reviewed Lean text `Ref.*` of the same shape, `src_<def>_eq_ref`, and the inductions of Lemmas/SrcBridgeSweep.lean: sentinels "
            "and `L[landscape_idx]` against the model's `cur`, `L.append(L[-1])` against `List.replicate`, the index loops against "
            "`popFirst` / `findIdx?` / `countP`, the key `[x[0], -x[1]]` against `keyLe`); `src_trailing_inf_eq_model` ties the "
            "trailing-infinite-bar statement to `dropTrailingInf`.  An edit of a translated line breaks the obligation of the definition "
            "it lands in (or `srcShape_compute_landscape_recognised` when it leaves the subset) and triggers the failing-input search, "
            "except a renaming of locals or a reordering that the `let`s absorb.  Pinned as text: the method with the translated "
            "statements blanked (`src_compute_landscape_skeleton`: the early exit on stored critical pairs, the conversions to lists, the "
            "`verboseprint` calls, the guarded `_VERIF_TRACE` hook, which are no-ops of the computation), its signature, the module-level "
            "bindings of the names it uses (`src_sweep_bindings`).  Not tied by the translator: `finiteBars` between the two translated "
            "regions (the property's domain), float rounding, the callers (trusted: the translator's stated conventions, its tables, "
            "Lemmas/SrcLibSweep.lean)." % (COMMON["func"], FILES[key][0], FILES[key][1]))


# ----------------------------------------------------------------------------- output

def allow_lists():
    out = []
    for cfg in TARGETS:
        out.append("  * `%s`: dead_ok (definition, binder never read) = %s; alias_ok (statements that store a stored list again) = %s"
                   % (cfg["lean"], ", ".join("(%s, %s)" % x for x in cfg.get("dead_ok", ())) or "none",
                      ", ".join("`%s`" % x for x in cfg.get("alias_ok", ())) or "none"))
    return "\n".join(out)


def header(key):
    py, out, ns, imports, prop, opens = FILES[key]
    doc = __doc__.strip().split("\n")
    conv = "\n".join(doc[doc.index("Semantics of the subset (the translator's conventions):"):])
    return (
        "import %s\n"
        "/-!\n"
        "GENERATED by harness/translator/py2lean.py (sweep engine py2lean_sweep.py) from %s — do not edit;\n"
        "rewritten on every run (%s `pre_build`).\n\n"
        "`PersLandscapeExact.compute_landscape` translated STATEMENT BY STATEMENT (`ast`).  Obligations:\n"
        "  * `src_<def>_eq_ref`: every generated definition equals the reviewed Lean text of the same shape in\n"
        "    Lemmas/SrcBridgeSweep.lean (`Ref.*`; each step is `rfl`), so an edit of a translated line -- other than a renaming of\n"
        "    locals or a reordering the `let`s absorb -- breaks the obligation of the definition it lands in;\n"
        "  * `src_compute_landscape_eq_model`: the translated method EQUALS the hand-written model `Landscape.sweep` of\n"
        "    Model/Landscape.lean on every list of finite bars over a linear ordered field (inductions over the fuel in\n"
        "    Lemmas/SrcBridgeSweep.lean: the source's sentinels / `L[landscape_idx]` / `L.append(L[-1])` against the model's\n"
        "    `cur` accumulator / `List.replicate`; the index loops against `popFirst`, `findIdx?`, `countP`);\n"
        "    `src_outer_loop_eq_model`: the loops alone, for every `α` in which `0 == 0` holds;\n"
        "    `src_trailing_inf_eq_model`: the trailing-infinite-bar statement is the model's `dropTrailingInf`;\n"
        "  * text pins: `src_compute_landscape_skeleton`, `src_PersLandscapeExact_compute_landscape_signature`, `src_sweep_bindings`.\n"
        "Between the two translated regions the model has `finiteBars` (every remaining death finite: the property's domain), which is\n"
        "not a statement of the source; the constructor that calls the method is pinned in Generated/SrcPLArith.lean.\n\n"
        "%s\n"
        "Reviewed allow-lists:\n%s\n"
        "A source outside the subset gives `def srcShape_<f> : Bool := false`, and `srcShape_<f>_recognised` fails.\n"
        "-/\n"
        "set_option linter.unusedVariables false\n"
        "set_option linter.unusedSectionVars false\n"
        "set_option linter.unusedSimpArgs false\n"
        "set_option linter.unnecessarySeqFocus false\n\n"
        "namespace %s\nopen %s\n" % (imports, py, prop, conv, allow_lists(), ns, opens))


def render_file(key, root):
    from . import py2lean as _base
    py, out, ns, imports, prop, opens = FILES[key]
    o = [header(key)]
    info = {"source": py, "output": "/".join([GEN.replace(os.sep, "/"), out]), "functions": {}}
    tree, err, fn, cls = None, None, None, None
    try:
        tree = ast.parse(open(os.path.join(root, py)).read())
        fn, cls = find_method(tree, COMMON["func"])
        if fn is None:
            err = "Shape: method %s not found" % COMMON["func"]
    except (OSError, SyntaxError) as e:
        err = "%s: %s" % (type(e).__name__, e)
    o.append(bindings_section(key, tree, [(COMMON["func"], fn, cls)], BINDINGS.get(key), err if tree is None else None, info))
    res, skel = {}, ""
    if err is None:
        a = fn.args
        if a.vararg or a.kwarg or a.kwonlyargs or a.posonlyargs or [x.arg for x in a.args] != COMMON["pyparams"]:
            err = "Shape: parameters of %s are not %s" % (fn.name, COMMON["pyparams"])
    if err is None:
        try:
            res, skel = translate(fn, TARGETS)
        except Exception as e:
            err = "%s: %s" % (type(e).__name__, e)
    for cfg in TARGETS:
        f = cfg["lean"]
        o.append("/-! ### `%s`  (from `%s` of %s, %s) -/" % (
            f, cfg["func"], py, "the statements behind the top-level `if … np.inf …:`" if cfg["region"] == "behind"
            else "the top-level statement `if … np.inf …:`"))
        o.append("section")
        o.append("variable {α : Type} " + VARS + "\n")
        e = err if err is not None else (res[f] if isinstance(res.get(f), str) else None)
        if e is not None:
            o.append("/-- the translator could not read the source: %s -/" % e.replace("-/", "- /").replace("/-", "/ -").replace("\n", " "))
            o.append("def srcShape_%s : Bool := false" % f)
            o.append("theorem srcShape_%s_recognised : srcShape_%s = true := by decide\n" % (f, f))
            o.append("end\n")
            info["functions"][f] = {"error": e}
            continue
        o.append("def srcShape_%s : Bool := true" % f)
        o.append("theorem srcShape_%s_recognised : srcShape_%s = true := by decide\n" % (f, f))
        for d in res[f]:
            o.append(d + "\n")
        names = ["srcShape_%s_recognised" % f]
        for name, binders, stmt, proof, doc in cfg["obligations"]:
            o.append("/-- %s -/" % doc)
            o.append("theorem %s%s :\n    %s := %s\n" % (name, (" " + binders) if binders else "", stmt, proof))
            names.append(name)
        o.append("end\n")
        if cfg.get("field_obligations"):
            o.append("section")
            o.append("variable %s\n" % FIELD)
            for name, binders, stmt, proof, doc in cfg["field_obligations"]:
                o.append("/-- %s -/" % doc)
                o.append("theorem %s%s :\n    %s := %s\n" % (name, (" " + binders) if binders else "", stmt, proof))
                names.append(name)
            o.append("end\n")
        info["functions"][f] = {"obligations": names}
    if fn is not None:
        o.append("/-! ### text pins of `%s` -/\n" % COMMON["func"])
        o.append("/-- the method with every translated statement replaced by `...` and every translated loop / branch header by `...`, as "
                 "`ast.unparse` prints it: what the translation does not read (the early exit, the conversions to lists, the `verboseprint` "
                 "calls, the guarded verification hook) -/")
        o.append("def srcSkeleton_compute_landscape : String :=\n  %s" % lean_str(skel))
        o.append("theorem src_compute_landscape_skeleton : srcSkeleton_compute_landscape =\n  %s := rfl\n" % lean_str(SKELETON))
        o.append(render_signature(COMMON["func"], signature_text(fn), SIGNATURES.get((key, COMMON["func"]), "")))
        info["functions"]["pins"] = {"obligations": ["src_compute_landscape_skeleton", "src_%s_signature" % sanitize(COMMON["func"])]}
    if tree is not None:
        nt = {py: not_translated(py, tree, _base.all_target_functions(py))}
        info["not_translated"] = nt
        o.append(not_translated_comment(sorted(nt.items())))
    o.append("end %s\n" % ns)
    return "\n".join(o), info
